"""C01 — a cloned agent is a faithful and fully independent copy (ownership mode; DESIGN.md section 5, C01).

EvolvableAlgorithm.clone and copy_attributes (real code; OptimizerWrapper.__init__/state_dict/load_state_dict inlined from the
real source) are executed on an agent whose *structure* is concrete (two networks, two optimizers, list/tensor/array/scalar
attributes, a registry) and whose values are symbolic.  Every tensor and every mutable container carries an identity;
library calls act on identities as torch/copy do (trusted, listed):  copy.deepcopy → fresh identities, equal values;
Optimizer.state_dict() → references to the optimizer's own state tensors;  Optimizer.load_state_dict(sd) → the optimizer
RETAINS the tensors of sd;  module.clone() → fresh weights with equal values.
Post: faithful (values, wiring) and independent (no tensor / mutable container reachable from the clone is reachable from the parent).
TournamentSelection.select (C05) adds: the elite returned and the elite slot of the new population are distinct copies.
"""
import itertools

import z3

from pyvc.execu import z3ify
from pyvc.main import Prop
from pyvc.values import Fn, FuncRef, ModRef, Obj, Opaque, Undecided, fresh_name
from . import C05, C06

BASE = "agilerl.algorithms.core.base.EvolvableAlgorithm"
REG = "agilerl.algorithms.core.registry."
WRAP = "agilerl.algorithms.core.wrappers."
_ids = itertools.count(1)


class TensorT:
    def __init__(self, val=None, label="t"):
        self.id = next(_ids)
        self.val = val if val is not None else z3.Real(fresh_name(label))

    def isinstance(self, ex, st, names):
        return "Tensor" in names


class ArrT(TensorT):
    """numpy array attribute"""

    def isinstance(self, ex, st, names):
        return "ndarray" in names


class NetM:
    """evolvable network: architecture token + weight tensor"""

    def __init__(self, name, arch=None, w=None):
        self.name = name
        self.arch = arch if arch is not None else z3.Int(fresh_name(name + ".arch"))
        self.w = w if w is not None else TensorT(label=name + ".w")

    def isinstance(self, ex, st, names):
        return any(n in ("Module", "EvolvableModule") or n.endswith("EvolvableModule") for n in names)

    def getattr(self, ex, st, name):
        if name == "clone":
            return Fn(model=lambda ex, st, a, k: NetM(self.name, self.arch, TensorT(self.w.val)), name="clone")   # fresh weights, equal values
        if name == "parameters":
            return Fn(model=lambda ex, st, a, k: ("params-of", self), name="parameters")
        raise Undecided(f"network attribute {name}")


class OptimM(C06.Optim):
    """torch optimizer with per-parameter state tensors (Adam moments)."""

    def __init__(self, groups, state=None):
        C06.Optim.__init__(self, groups)
        self.state = state if state is not None else []       # list of TensorT

    def getattr(self, ex, st, name):
        if name == "state_dict":
            # references to the optimizer's own state tensors (torch contract), param-group settings copied
            return Fn(model=lambda ex, st, a, k: {"state": list(self.state), "param_groups": [g[1] for g in self.groups]}, name=name)
        if name == "load_state_dict":
            def load(ex, st, a, k):
                sd = a[0]
                self.state = list(sd["state"])                 # torch retains the tensors it is given (no copy)
                self.groups = [(p, lr) for (p, _), lr in zip(self.groups, sd["param_groups"])]
            return Fn(model=load, name=name)
        raise Undecided(f"optimizer attribute {name}")


def make_optim(ex, st, args, kwargs):
    a = args[0]
    if isinstance(a, list):
        return OptimM([(g["params"], g["lr"]) for g in a])
    return OptimM([(a, kwargs["lr"])])


def deepcopy(ex, st, args, kwargs):
    memo = {}

    def dc(x):
        if id(x) in memo:
            return memo[id(x)]
        if isinstance(x, TensorT):
            r = type(x)(x.val)
        elif isinstance(x, list):
            r = []
            memo[id(x)] = r
            r.extend(dc(e) for e in x)
            return r
        elif isinstance(x, dict):
            r = {}
            memo[id(x)] = r
            for k_, v in x.items():
                r[k_] = dc(v)
            return r
        elif isinstance(x, tuple):
            r = tuple(dc(e) for e in x)
        elif isinstance(x, Obj):
            r = Obj(x.cls, label=x.label)
            memo[id(x)] = r
            for k_, v in x.fields.items():
                r.fields[k_] = dc(v)
            return r
        elif isinstance(x, NetM):
            r = NetM(x.name, x.arch, TensorT(x.w.val))
        else:
            r = x          # immutable (numbers, strings, z3 terms, tokens)
        memo[id(x)] = r
        return r
    return dc(args[0])


def footprint(x, acc=None, seen=None):
    """identities of all tensors and mutable containers reachable from x"""
    acc = set() if acc is None else acc
    seen = set() if seen is None else seen
    if id(x) in seen:
        return acc
    seen.add(id(x))
    if isinstance(x, TensorT):
        acc.add(("tensor", x.id))
    elif isinstance(x, (list, dict)):
        acc.add(("container", id(x)))
        for e in (x.values() if isinstance(x, dict) else x):
            footprint(e, acc, seen)
    elif isinstance(x, tuple):
        for e in x:
            footprint(e, acc, seen)
    elif isinstance(x, Obj):
        acc.add(("container", id(x)))
        for v in x.fields.values():
            footprint(v, acc, seen)
    elif isinstance(x, NetM):
        acc.add(("container", id(x)))
        footprint(x.w, acc, seen)
    elif isinstance(x, C06.Optim):
        acc.add(("container", id(x)))
        for t in getattr(x, "state", []):
            footprint(t, acc, seen)
    return acc


ATTRS = ["fitness", "steps", "scores", "index", "lr", "mut", "registry", "tensor_attr", "array_attr", "noise_arr"]     # inspect_attributes excludes networks/optimizers
NETS = ["actor", "critic"]
OPTS = [("optimizer", ["actor"], "lr"), ("critic_optimizer", ["critic"], "lr")]


def make_agent(trained=True):
    o = Obj(BASE, label="agent")
    for n in NETS:
        o.fields[n] = NetM(n)
    reg = Obj(REG + "MutationRegistry", label="registry")
    reg.fields["optimizers"] = []
    reg.fields["groups"] = []
    reg.fields["hp_config"] = Obj(REG + "HyperparameterConfig", {"config": {"lr": Obj(REG + "RLParameter", {"min": z3.Real("hp.min"), "max": z3.Real("hp.max")})}})
    lr = z3.Real(fresh_name("lr"))
    for oname, nets, lrname in OPTS:
        cfg = Obj(REG + "OptimizerConfig", label="cfg." + oname)
        cfg.fields.update(dict(name=oname, networks=list(nets), lr=lrname, optimizer_cls="Adam", optimizer_kwargs={}, multiagent=False))
        reg.fields["optimizers"].append(cfg)
        w = Obj(WRAP + "OptimizerWrapper", label=oname)
        opt = OptimM([(("params-of", o.fields[n]), lr) for n in nets], [TensorT(label=oname + ".exp_avg"), TensorT(label=oname + ".step")] if trained else [])
        w.fields.update(dict(optimizer=opt, optimizer_cls=ModRef("torch.optim.Adam"), optimizer_kwargs={}, lr=lr, multiagent=False,
                             networks=[o.fields[n] for n in nets], network_names=list(nets), lr_name=lrname))
        o.fields[oname] = w
    o.fields.update(dict(registry=reg, lr=lr, index=z3.Int(fresh_name("index")), mut="None", accelerator=None, torch_compiler=None,
                         fitness=[z3.Real(fresh_name("fit")), z3.Real(fresh_name("fit"))], steps=[z3.Int(fresh_name("steps"))],
                         scores=[z3.Real(fresh_name("score"))], tensor_attr=TensorT(label="tensor_attr"), array_attr=TensorT(label="array_attr"),
                         noise_arr=ArrT(label="noise_arr")))          # an array-valued CONSTRUCTOR argument (DDPG/TD3 expl_noise): stored as given
    o.fields["evolvable_attributes"] = Fn(model=lambda ex, st, a, k: {n: o.fields[n] for n in NETS}, name="evolvable_attributes")
    o.fields["mutation_hook"] = Fn(model=lambda ex, st, a, k: None, name="mutation_hook")
    return o


def build(tier):
    P = Prop("C01")
    parent = [None]

    def setup(ex, st, fr):
        parent[0] = make_agent()
        st.locals["self"] = parent[0]
        st.locals["index"] = z3.Int("new_index") if ex.decide(st, z3.Bool("index_given")) else None
        st.locals["wrap"] = True
    # constructor of the clone: a fresh agent of the same class with its own freshly initialised networks/optimizers/lists
    def construct(ex, st, a, k):
        c = make_agent(trained=False)
        if "noise_arr" in k:
            c.fields["noise_arr"] = k["noise_arr"]          # the constructor keeps the array object it is handed
        return c
    P.lib[BASE] = construct
    P.lib[BASE + ".inspect_attributes"] = lambda ex, st, a, k: ({"noise_arr": a[0].fields["noise_arr"]} if k.get("input_args_only") else {n: None for n in ATTRS})
    P.lib["copy.deepcopy"] = deepcopy
    P.lib["torch.clone"] = lambda ex, st, a, k: TensorT(a[0].val)
    P.lib["torch.equal"] = lambda ex, st, a, k: a[0].val == a[1].val
    P.lib["numpy.array_equal"] = lambda ex, st, a, k: a[0].val == a[1].val
    for n in ("Adam", "AdamW", "SGD", "RMSprop", "Adadelta", "Adagrad", "Adamax", "ASGD", "LBFGS", "Rprop"):
        P.lib["torch.optim." + n] = make_optim

    def post(result, index):
        p = parent[0]
        if not isinstance(result, Obj) or result is p:
            return z3.BoolVal(False)
        out = []
        # ---- faithful
        for n in NETS:
            c, o = result.fields[n], p.fields[n]
            out += [z3.BoolVal(isinstance(c, NetM)), c.arch == o.arch, c.w.val == o.w.val]                      # architecture and weights
        for oname, nets, lrname in OPTS:
            cw, ow = result.fields[oname], p.fields[oname]
            if not (isinstance(cw, Obj) and isinstance(cw.fields.get("optimizer"), OptimM)):
                return z3.BoolVal(False)
            co, oo = cw.fields["optimizer"], ow.fields["optimizer"]
            out.append(z3.BoolVal([g[0] for g in co.groups] == [("params-of", result.fields[n]) for n in nets]))    # steps the CLONE's networks
            out += [z3ify(g[1]) == z3ify(h[1]) for g, h in zip(co.groups, oo.groups)]                               # optimizer settings
            out.append(z3.BoolVal(len(co.state) == len(oo.state)))
            out += [a.val == b.val for a, b in zip(co.state, oo.state)]                                             # optimizer state (values)
        for nm in ("fitness", "steps", "scores"):
            a, b = result.fields[nm], p.fields[nm]
            out.append(z3.BoolVal(isinstance(a, list) and len(a) == len(b)))
            out += [z3ify(x) == z3ify(y) for x, y in zip(a, b)]
        out += [z3ify(result.fields["lr"]) == z3ify(p.fields["lr"]), result.fields["tensor_attr"].val == p.fields["tensor_attr"].val,
                result.fields["array_attr"].val == p.fields["array_attr"].val, result.fields["noise_arr"].val == p.fields["noise_arr"].val]
        out.append(z3ify(result.fields["index"]) == (z3ify(index) if index is not None else z3ify(p.fields["index"])))
        # ---- independent: nothing mutable is shared
        def roots(a):
            # what the statement names: weights, optimizer moments/step counters, score lists, step counters, hyper-parameter ranges
            # (plus tensor/array attributes).  Immutable-by-convention configuration (optimizer kwargs, network-name lists) is not listed
            # by the property and IS shared by the real code (clone passes the parent's registry config objects to the new wrappers).
            r = [a.fields[n].w for n in NETS] + [t for o, _, _ in OPTS for t in a.fields[o].fields["optimizer"].state]
            r += [a.fields[k] for k in ("fitness", "steps", "scores", "tensor_attr", "array_attr", "noise_arr")] + [a.fields["registry"].fields["hp_config"]]
            return r
        shared = footprint(roots(result)) & footprint(roots(p))
        out.append(z3.BoolVal(not shared) if not shared else z3.BoolVal(False))
        post.shared = sorted(shared)
        return z3.And(*out)
    P.specns["clone_post"] = post
    P.contract(BASE + ".clone", setup=setup, params={}, requires=[], frame_fields=False,
               ensures=["clone_post(result, index)"], replay="c01:clone")
    # the C05 contract of TournamentSelection.select (elite and elite slot are distinct copies)
    P5 = C05.build(tier)
    for c in P5.verify:
        if c.qual.endswith("select"):
            P.contracts.update(P5.contracts)
            P.verify.append(c)
            c.short = "TournamentSelection.select"
    P.lib.update({k: v for k, v in P5.lib.items() if k not in P.lib})
    P.specns.update({k: v for k, v in P5.specns.items() if k not in P.specns})
    P.shapes.update(P5.shapes)
    P.native.append(dict(name="clone", adapter="c01:clone", payload={"mode": "search"},
                         bound="DQN, DDPG, TD3, PPO(share_encoders=False), NeuralUCB after learn steps and a mutation: clone has equal weights / optimizer state / "
                               "attributes, shares no tensor storage or list object with the parent; training the clone leaves the parent unchanged"))
    P.trusted += ["identity model of torch/copy: deepcopy -> fresh; Optimizer.state_dict() -> references; Optimizer.load_state_dict(sd) retains sd's tensors; "
                  "module.clone() -> fresh equal weights (that is EvolvableModule.clone, property C04)",
                  "agent structure concrete (2 networks, 2 optimizers, list/tensor/array/scalar attributes, registry); values symbolic",
                  "the constructor called by clone() builds a fresh agent with its own networks, optimizers and lists"]
    P.assumptions += ["accelerator is None, torch_compiler is None"]
    P.uncovered += ["'picks the same greedy actions and computes the same update' (deterministic torch kernels, DESIGN 6)",
                    "shared-encoder hooks; AgentWrapper.clone"]
    return P
