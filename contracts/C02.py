"""C02 — after a mutation the agent is coherent (wiring; DESIGN.md section 5, C02; narrow).

Under contract (real code, callees inlined from the real source):
  * Mutations.architecture_mutate with _apply_arch_mutation, to_device_and_set_individual: every evaluation network trained
    alongside the policy receives the mutation method the policy really applied (its `last_mutation_attr`, which differs
    from the sampled one when a layer mutation falls back at a depth limit) and the *same argument dict* the policy's
    mutation returned; the mutation hook runs, all optimizers are re-initialised afterwards, the agent reports the applied
    mutation.  Networks are mocks that record how they were called; single networks and per-agent lists (multi-agent).
  * Mutations.reinit_opt(individual) (all optimizers): every optimizer is rebuilt over the agent's current networks with
    the agent's current learning rate (agent model and OptimizerWrapper.__init__ as in C06).
"""
import z3

from pyvc.execu import z3ify
from pyvc.main import Prop
from pyvc.values import Fn, ModRef, Obj, Opaque, Opt, Undecided, fresh_name
from . import C06

MUT = "agilerl.hpo.mutation.Mutations."
V = z3.DeclareSort("ArgVal")


class NetMock:
    """An evolvable network as seen by architecture_mutate: advertises methods, records the call it receives."""

    def __init__(self, name, role):
        self.name, self.role = name, role
        self.calls = []
        self.mutation_methods = ["encoder.add_node", "encoder.add_layer", "head_net.add_node", "head_net.remove_layer"]
        self.layer_mutation_methods = ["encoder.add_layer", "head_net.remove_layer"]
        self.last_mutation_attr = None
        self.last_mutation = None
        # what a mutation of the POLICY does: it applies `applied` (possibly a fallback) and returns its arguments (or None)
        self.returns_none = z3.Bool(fresh_name(name + ".returns_none"))
        self.ret = {"hidden_layer": z3.Const(fresh_name(name + ".hl"), V), "numb_new_nodes": z3.Const(fresh_name(name + ".nn"), V)}

    def isinstance(self, ex, st, names):
        return any(n in ("EvolvableModule", "Module") or n.endswith(".EvolvableModule") for n in names)

    def getattr_dyn(self, ex, st, name, default=()):
        return self.method(name)

    def getattr(self, ex, st, name):
        if name in ("mutation_methods", "layer_mutation_methods", "last_mutation_attr", "last_mutation"):
            return getattr(self, name)
        if name in self.mutation_methods:
            return self.method(name)
        raise Undecided(f"network attribute {name}")

    def setattr(self, ex, st, name, v):
        if name in ("last_mutation_attr", "last_mutation"):
            setattr(self, name, v)
            return
        raise Undecided(f"network attribute store {name}")

    def method(self, mname):
        def call(ex, st, args, kwargs):
            self.calls.append((mname, dict(kwargs)))
            if self.role == "policy":
                # a layer mutation at a depth limit falls back to a node mutation: the applied method differs from the sampled one
                fallback = ex.decide(st, z3.Bool(fresh_name(self.name + ".falls_back"))) if "layer" in mname else False
                self.last_mutation_attr = mname.rsplit(".", 1)[0] + ".add_node" if fallback else mname
                if not fallback and "layer" in mname:
                    return None
                return dict(self.ret)
            self.last_mutation_attr = mname
            return dict(kwargs) if kwargs else None
        return Fn(model=call, name=mname)


def build(tier):
    P = Prop("C02")
    log = []

    def make(multi):
        def setup(ex, st, fr):
            log.clear()
            mk = (lambda n, r: [NetMock(n + "0", r), NetMock(n + "1", r)]) if multi else (lambda n, r: NetMock(n, r))
            pol, c1, c2 = mk("actor", "policy"), mk("critic_1", "eval"), mk("critic_2", "eval")
            ind = Obj("model.agent", label="individual")
            ind.fields.update(dict(mut="None", mutation_hook=Fn(model=lambda ex, st, a, k: log.append("hook"), name="mutation_hook")))
            muts = Obj("agilerl.hpo.mutation.Mutations", label="self")
            muts.fields.update(dict(new_layer_prob=z3.Real("new_layer_prob"), rng=Opaque("rng"), accelerator=None, device="cpu",
                                    to_device=Fn(model=lambda ex, st, a, k: a[0], name="to_device"),
                                    reinit_opt=Fn(model=lambda ex, st, a, k: log.append("reinit_opt"), name="reinit_opt")))
            st.locals.update(dict(self=muts, individual=ind))
            st.extra["nets"] = (pol, c1, c2)
            P.lib["agilerl.hpo.mutation.get_offspring_eval_modules"] = lambda ex, st, a, k: ({"actor": pol}, {"critic_1": c1, "critic_2": c2})
            sampled = [None]

            def sample(ex, st, a, k):
                # every advertised method may be sampled
                ms = (pol[0] if multi else pol).mutation_methods
                for m in ms[:-1]:
                    if ex.decide(st, z3.Bool(fresh_name("sample." + m))):
                        return m
                return ms[-1]
            P.lib["agilerl.hpo.mutation.get_architecture_mut_method"] = sample
            P.lib["agilerl.hpo.mutation.get_exp_layer"] = lambda ex, st, a, k: Opaque("exp")
        return setup

    def post(multi):
        def check(ind, st_nets):
            pol, c1, c2 = st_nets
            out = []
            pols = pol if multi else [pol]
            for j, p in enumerate(pols):
                if len(p.calls) != 1:
                    return z3.BoolVal(False)
                applied = p.last_mutation_attr
                ret = None if (p.calls[0][0] == applied and "layer" in applied) else p.ret
                for c in (c1, c2):
                    cj = c[j] if multi else c
                    if len(cj.calls) != 1:
                        return z3.BoolVal(False)
                    m, kw = cj.calls[0]
                    out.append(z3.BoolVal(m == applied))                                   # the method the policy really applied
                    want = {} if ret is None else ret
                    out.append(z3.BoolVal(set(kw) == set(want)))
                    for k in want:
                        if k in kw:
                            out.append(z3ify(kw[k]) == want[k])                              # with the very arguments the policy's mutation returned
            first = pols[0].last_mutation_attr
            out.append(z3.BoolVal(ind.fields["mut"] == first))
            out.append(z3.BoolVal(log == ["hook", "reinit_opt"]))                             # hook, then all optimizers re-initialised
            for nm, nets in (("actor", pol), ("critic_1", c1), ("critic_2", c2)):
                out.append(z3.BoolVal(ind.fields.get(nm) is nets))                            # networks assigned back
            return z3.And(*out)
        return check
    for multi in (False, True):
        tag = "multi" if multi else "single"
        P.specns[f"arch_post_{tag}"] = post(multi)
        P.specns["NETS"] = None
        P.contract(MUT + "architecture_mutate", variant=tag, setup=make(multi), params={}, requires=[], frame_fields=False,
                   ensures=[f"arch_post_{tag}(individual, NETS())"], replay="c02:coherent")
    # NETS() returns the mocks of the current path (set in setup through st.extra)
    holder = {}

    orig_setups = {}
    for c in P.extra_contracts:
        s0 = c.setup

        def wrapped(ex, st, fr, s0=s0):
            s0(ex, st, fr)
            holder["nets"] = st.extra["nets"]
        c.setup = wrapped
    P.specns["NETS"] = lambda: holder["nets"]

    # ---- reinit_opt over all optimizers (agent layouts of C06)
    C06.lib.install(P, ["torch.rand"])
    for n in ("Adam", "AdamW", "SGD", "RMSprop", "Adadelta", "Adagrad", "Adamax", "ASGD", "LBFGS", "Rprop"):
        P.lib["torch.optim." + n] = C06.make_optim

    def opts_post(layout):
        L = C06.LAYOUTS[layout]

        def check(ind):
            out = []
            for oname, nets, lrname in L["opts"]:
                w = ind.fields[oname]
                if not (isinstance(w, Obj) and isinstance(w.fields.get("optimizer"), C06.Optim)):
                    return z3.BoolVal(False)
                groups = w.fields["optimizer"].groups
                out.append(z3.BoolVal(len(groups) == len(nets)))
                for (params, glr), n in zip(groups, nets):
                    out.append(z3.BoolVal(params == ("params-of", ind.fields[n])))      # exactly the current parameters of its networks
                    out.append(z3ify(glr) == z3ify(ind.fields[lrname]))                  # the agent's current learning rate
            return z3.And(*out) if out else z3.BoolVal(True)
        return check
    for layout in ("one-opt", "two-opt", "shared-opt"):
        P.specns["opts_post_" + layout.replace("-", "_")] = opts_post(layout)
        P.contract(MUT + "reinit_opt", variant=layout,
                   params={"self": (lambda ex, st, label: Obj("agilerl.hpo.mutation.Mutations", label="mutations")),
                           "individual": C06.make_agent(layout), "optimizer": (lambda ex, st, l: None)},
                   requires=[], frame_fields=False,
                   ensures=[f"opts_post_{layout.replace('-', '_')}(individual)"], replay="c02:coherent")
    # ------------------------------------------------------------------ Mutations.mutation: dispatch, shared/target rebuild, hook, order
    class NetD:
        """evolvable network with a constructor description and weights (architecture token + weight value, both symbolic)"""

        def __init__(self, name, arch=None, w=None, loaded=False):
            self.name = name
            self.arch = arch if arch is not None else z3.Int(fresh_name(name + ".arch"))
            self.w = w if w is not None else z3.Real(fresh_name(name + ".w"))
            self.loaded_from = None

        def isinstance(self, ex, st, names):
            return any(n in ("EvolvableModule", "Module") or n.endswith(".EvolvableModule") for n in names)

        def getattr(self, ex, st, name):
            if name == "init_dict":
                return {"arch": self.arch}
            if name == "state_dict":
                return Fn(model=lambda ex, st, a, k: {"w": self.w, "__of__": self}, name=name)
            if name == "load_state_dict":
                def load(ex, st, a, k):
                    self.w = a[0]["w"]
                    self.loaded_from = a[0]["__of__"]
                return Fn(model=load, name=name)
            raise Undecided(f"network attribute {name}")
    log = []
    N_POP = 3

    def mut_setup(ex, st, fr):
        log.clear()
        pop = []
        for i in range(N_POP):
            ind = Obj("model.Agent", label=f"agent{i}")
            grp = Obj("agilerl.algorithms.core.registry.NetworkGroup", {"eval": "actor", "shared": ["actor_target"], "policy": True}, label="group")
            grp2 = Obj("agilerl.algorithms.core.registry.NetworkGroup", {"eval": "critic", "shared": None, "policy": False}, label="group2")
            reg = Obj("agilerl.algorithms.core.registry.MutationRegistry", {"groups": [grp, grp2]}, label="registry")
            ind.fields.update(dict(registry=reg, actor=NetD(f"a{i}.actor"), actor_target=NetD(f"a{i}.actor_target"), critic=NetD(f"a{i}.critic"), index=i, mut=None,
                                   mutation_hook=Fn(model=(lambda ex, st, a, k, i=i, ind=ind: log.append(("hook", i, ind.fields["actor_target"]))), name="mutation_hook")))
            pop.append(ind)

        def mk_choice(j):
            def apply(ex, st, a, k):
                ind = a[0]
                log.append(("mutation", j, ind.fields["index"]))
                ind.fields["actor"] = NetD(f"mutated{j}.actor")            # the mutation may rebuild the eval network with any architecture / weights
                ind.fields["mut"] = f"kind{j}"
                return ind
            return Fn(model=apply, name=f"mutation_choice_{j}")
        rng = Obj("model.rng", label="rng")
        rng.fields["choice"] = Fn(model=lambda ex, st, a, k: [mk_choice(j) for j in range(N_POP)], name="choice")
        me = z3.Bool("mutate_elite")
        slf = Obj(MUT[:-1] if MUT.endswith(".") else MUT, label="self")
        slf.fields.update(dict(rng=rng, mutate_elite=me, accelerator=None, device="cpu", mut_options=Opaque("options"), mut_proba=Opaque("proba"),
                               pretraining_mut_options=Opaque("pre_options"), pretraining_mut_proba=Opaque("pre_proba"),
                               to_device=Fn(model=lambda ex, st, a, k: a[0], name="to_device")))
        st.locals.update(dict(self=slf, population=pop, pre_training_mut=z3.Bool("pre_training_mut")))
        mut_setup.pop = pop

    def mut_post(result):
        pop = mut_setup.pop
        if not (isinstance(result, list) and len(result) == N_POP and all(r is p for r, p in zip(result, pop))):
            return z3.BoolVal(False)                                        # same agents, same order, same size
        me = z3.Bool("mutate_elite")
        out = []
        muts = [e for e in log if e[0] == "mutation"]
        hooks = [e for e in log if e[0] == "hook"]
        if [h[1] for h in hooks] != list(range(N_POP)):
            return z3.BoolVal(False)                                        # every agent's hook ran once
        for i, ind in enumerate(pop):
            applied = [m for m in muts if m[2] == i]
            tgt = ind.fields["actor_target"]
            if i == 0:
                # the elite slot: either its sampled mutation or - when the elite is protected - no mutation at all
                ok_applied = z3.If(me, z3.BoolVal(applied == [("mutation", 0, 0)]), z3.BoolVal(applied == [] and ind.fields["mut"] == "None"))
            else:
                ok_applied = z3.BoolVal(applied == [("mutation", i, i)] and ind.fields["mut"] == f"kind{i}")
            out.append(ok_applied)
            ev = ind.fields["actor"]
            # the shared/target network was rebuilt from the (mutated) eval network: same architecture, same weights, before the hook ran
            out.append(z3.BoolVal(isinstance(tgt, NetD) and tgt is not ev and tgt.loaded_from is ev and hooks[i][2] is tgt))
            if isinstance(tgt, NetD):
                out += [tgt.arch == ev.arch, tgt.w == ev.w]
        return z3.And(*out)
    P.specns["mut_post"] = mut_post
    class NetCls:
        """type(module): calling it with an init_dict builds a fresh network of that architecture (fresh weights)"""

        def __init__(self, name):
            self.name = name

        def call(self, ex, st, args, kwargs):
            return NetD(self.name + ".rebuilt", arch=kwargs["arch"])
    NetD.pytype = lambda self, ex, st: NetCls(self.name)
    P.contract(MUT + "mutation", setup=mut_setup, params={}, requires=[], frame_fields=False, ensures=["mut_post(result)"], replay="c02:coherent")
    # activation mutation: the agent reports "act" exactly when an activation was really changed, every changed network is the one stored
    # back under its own name, and the optimizers are rebuilt afterwards (value-based algorithms; two network groups)
    act_log = []

    class NetA:
        def __init__(self, name, activation):
            self.name, self.activation = name, activation

        def isinstance(self, ex, st, names):
            return any(n in ("EvolvableModule", "Module") or n.endswith(".EvolvableModule") for n in names)

        def getattr(self, ex, st, name):
            if name == "activation":
                return self.activation
            raise Undecided(f"network attribute {name}")
    for caps in ((True, True), (True, False), (False, True), (False, False)):
        def act_setup(ex, st, fr, caps=caps):
            act_log.clear()
            ind = Obj("model.Agent", label="individual")
            groups = [Obj("agilerl.algorithms.core.registry.NetworkGroup", {"eval": n, "shared": None, "policy": n == "actor"}, label=f"group_{n}") for n in ("actor", "critic")]
            ind.fields.update(dict(algo="DQN", registry=Obj("agilerl.algorithms.core.registry.MutationRegistry", {"groups": groups}, label="registry"),
                                   actor=NetA("actor", "ReLU" if caps[0] else None), critic=NetA("critic", "ReLU" if caps[1] else None), mut=None))
            act_setup.before = (ind.fields["actor"], ind.fields["critic"])
            slf = Obj(MUT[:-1] if MUT.endswith(".") else MUT, label="self")

            def permute(ex, st, a, k):
                new = NetA(a[0].name, "Tanh")
                act_log.append(("permuted", a[0], new))
                return new
            slf.fields.update(dict(accelerator=None, to_device=Fn(model=lambda ex, st, a, k: a[0], name="to_device"),
                                   _permutate_activation=Fn(model=permute, name="_permutate_activation"),
                                   reinit_opt=Fn(model=lambda ex, st, a, k: act_log.append(("reinit_opt", a[0].fields["actor"], a[0].fields["critic"])), name="reinit_opt")))
            st.locals.update(dict(self=slf, individual=ind))
            act_setup.ind = ind

        def act_post(res):
            ind = act_setup.ind
            if res is not ind:
                return z3.BoolVal(False)
            permuted = [e for e in act_log if e[0] == "permuted"]
            now = (ind.fields["actor"], ind.fields["critic"])
            ok = True
            if permuted:
                ok = ok and ind.fields["mut"] == "act"                                             # the agent reports what it received
                ok = ok and all(now[("actor", "critic").index(e[1].name)] is e[2] for e in permuted)    # stored back under its own name
                ok = ok and bool(act_log) and act_log[-1][0] == "reinit_opt" and act_log[-1][1:] == now  # optimizers rebuilt over the final networks
            else:
                ok = ok and ind.fields["mut"] == "None" and now[0] is act_setup.before[0] and now[1] is act_setup.before[1]
            return z3.BoolVal(bool(ok))
        tag = "caps-" + "".join("y" if c else "n" for c in caps)
        P.specns["act_post"] = act_post
        P.contract(MUT + "activation_mutation", variant=tag, setup=act_setup, params={}, requires=[], frame_fields=False,
                   ensures=["act_post(result)"], replay="c02:coherent")

    # parameter mutation: exactly the policy network(s) are replaced by their noised versions (member by member for a list), nothing else
    # is touched, the optimizers are rebuilt over the final networks and the agent reports "param"
    par_log = []
    for layout in ("single", "list"):
        def par_setup(ex, st, fr, layout=layout):
            par_log.clear()
            ind = Obj("model.Agent", label="individual")
            pol = NetA("actor", "ReLU") if layout == "single" else [NetA(f"actors[{i}]", "ReLU") for i in range(3)]
            other = NetA("critic", "ReLU")
            ind.fields.update(dict(registry=Obj("agilerl.algorithms.core.registry.MutationRegistry", {"policy": "actor" if layout == "single" else "actors"}, label="registry"),
                                   critic=other, mut=None))
            ind.fields["actor" if layout == "single" else "actors"] = pol
            slf = Obj(MUT[:-1] if MUT.endswith(".") else MUT, label="self")

            def noised(ex, st, a, k):
                new = NetA(a[0].name + "+noise", a[0].activation)
                par_log.append(("noised", a[0], new))
                return new
            slf.fields.update(dict(accelerator=None, to_device=Fn(model=lambda ex, st, a, k: a[0], name="to_device"),
                                   classic_parameter_mutation=Fn(model=noised, name="classic_parameter_mutation"),
                                   reinit_opt=Fn(model=lambda ex, st, a, k: par_log.append(("reinit_opt", a[0].fields.get("actor", a[0].fields.get("actors")))), name="reinit_opt")))
            st.locals.update(dict(self=slf, individual=ind))
            par_setup.state = (ind, pol, other)

        def par_post(res, layout=layout):
            ind, pol, other = par_setup.state
            if res is not ind or ind.fields["mut"] != "param" or ind.fields["critic"] is not other:
                return z3.BoolVal(False)
            now = ind.fields["actor" if layout == "single" else "actors"]
            noised = [e for e in par_log if e[0] == "noised"]
            olds = [pol] if layout == "single" else list(pol)
            news = [now] if layout == "single" else (list(now) if isinstance(now, list) else None)
            ok = (news is not None and len(news) == len(olds) and len(noised) == len(olds)
                  and all(e[1] is o and e[2] is n for e, o, n in zip(noised, olds, news))
                  and par_log[-1][0] == "reinit_opt" and par_log[-1][1] is now)
            return z3.BoolVal(bool(ok))
        P.specns["par_post_" + layout] = par_post
        P.contract(MUT + "parameter_mutation", variant=layout, setup=par_setup, params={}, requires=[], frame_fields=False,
                   ensures=[f"par_post_{layout}(result)"], replay="c02:coherent")

    # multi-agent layout: the shared/target networks are a LIST rebuilt member by member from the list of (mutated) eval networks
    rebuilt_src = []

    def list_setup(ex, st, fr):
        rebuilt_src.clear()
        rebuilt_src.extend([NetD("eval0"), NetD("eval1"), NetD("eval2")])
        slf = Obj(MUT[:-1] if MUT.endswith(".") else MUT, label="self")
        st.locals.update(dict(self=slf, offspring=list(rebuilt_src), remove_compile_prefix=False))

    def rebuilt_list(res):
        src = rebuilt_src
        if not (isinstance(res, list) and len(res) == len(src) and all(isinstance(r, NetD) for r in res)):
            return z3.BoolVal(False)
        if len({id(r) for r in res} | {id(x) for x in src}) != 2 * len(src):
            return z3.BoolVal(False)                                        # fresh, pairwise distinct modules
        return z3.And(*[z3.And(r.arch == x.arch, r.w == x.w, z3.BoolVal(r.loaded_from is x)) for r, x in zip(res, src)])
    P.specns["rebuilt_list"] = rebuilt_list
    P.contract(MUT + "reinit_from_mutated", variant="list", setup=list_setup, params={}, requires=[], frame_fields=False,
               ensures=["rebuilt_list(result)"], replay="c02:coherent")
    P.native.append(dict(name="coherent", adapter="c02:coherent", thorough_only=True, payload={"mode": "search"},
                         bound="DQN, DDPG, TD3 (share_encoders=False), 3 seeds x 3 generations of architecture / parameter / activation / rl_hp mutations: "
                               "optimizers hold the current parameters and lr, targets shadow their networks, critics follow the policy, learn moves parameters"))
    P.trusted += ["network mocks: a network records the (method, kwargs) it is called with; the policy's mutation may fall back and returns its arguments",
                  "torch.optim constructor contract (C06)"]
    P.assumptions += ["accelerator is None", "two critics / two sub-agents in the multi-agent variant (structure concrete)"]
    P.uncovered += ["classic_parameter_mutation itself (which weights are noised and by how much) - native adapter only",
                    "torch.compile prefixes in reinit_from_mutated (remove_compile_prefix=True)",
                    "a learn step really moves the parameters (autograd)"]
    return P
