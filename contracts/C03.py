"""C03 — architecture mutations keep every size inside its declared bounds (DESIGN.md section 5, C03; bounds part).

Under contract: the advertised mutation methods of EvolvableMLP, EvolvableLSTM and EvolvableSimBa (the method bodies as
written; the @mutation decorator - bookkeeping + recreate_network - is dropped by extraction and listed).  For every
argument choice and every random draw:  INV ⇒ INV'  (chains follow by induction over the contracts, no length bound),
plus the effect clause (strictly inside the bound ⇒ the advertised size changes by exactly the sampled amount and nothing
else changes) and the fallback clause (add_layer/remove_layer at a limit behave as add_node).
"Finite forward output / strict reload from init_dict" needs torch.nn: bounded native stand-in (exhaustive small words
+ seeded walks), never counted as proved.
"""
import z3

from pyvc.execu import z3ify
from pyvc.main import Prop
from pyvc.values import Fn, Obj, Opaque, Opt, Seq, Undecided, fresh_name


def val(x):
    """value of a possibly-optional argument that the code returned as given (it is not None on that path)"""
    while isinstance(x, Opt):
        x = x.val
    return z3ify(x)

MOD = "agilerl.modules."


def np_randint(ex, st, args, kwargs):
    lo, hi = args[0], args[1]
    size = args[2] if len(args) > 2 else kwargs.get("size")
    r = z3.Int(fresh_name("randint"))
    st.assume(z3.And(z3ify(lo) <= r, r < z3ify(hi)))
    if size is None:
        return r
    return [r]


def np_choice(ex, st, args, kwargs):
    opts = list(args[0])
    r = z3.Int(fresh_name("choice"))
    st.assume(z3.Or(*[r == o for o in opts]))
    return [r]


def build(tier):
    P = Prop("C03")
    P.lib.update({"numpy.random.randint": np_randint, "numpy.random.choice": np_choice})
    P.trusted += ["numpy.random.randint(lo, hi, 1)[0] is some integer in [lo, hi); numpy.random.choice(xs, 1)[0] is some element of xs (every draw)",
                  "the @mutation decorator (MutationContext bookkeeping, recreate_network) is dropped by extraction: recreate_network only assigns "
                  "self.model (write-set), so the size attributes keep the values the method body leaves"]

    # ------------------------------------------------------------------ EvolvableMLP
    def mlp_inv(o):
        hs = o.fields["hidden_size"]
        f = o.fields
        i = z3.Int("i!mlp")
        return z3.And(f["min_hidden_layers"] <= hs.len, hs.len <= f["max_hidden_layers"], f["min_hidden_layers"] >= 1,
                      f["min_mlp_nodes"] >= 1,
                      z3.ForAll([i], z3.Implies(z3.And(0 <= i, i < hs.len), z3.And(f["min_mlp_nodes"] <= hs.arr[i], hs.arr[i] <= f["max_mlp_nodes"]))))

    def same_except(new, old, l):
        i = z3.Int("i!se")
        a, b = new.fields["hidden_size"], old.fields["hidden_size"]
        return z3.And(a.len == b.len, z3.ForAll([i], z3.Implies(z3.And(0 <= i, i < a.len, i != z3ify(l)), a.arr[i] == b.arr[i])))

    def node_effect(new, old, result, sign):
        """strictly inside the bound => exactly the sampled layer changes by exactly the sampled amount"""
        if not isinstance(result, dict) or set(result) != {"hidden_layer", "numb_new_nodes"}:
            return z3.BoolVal(False)
        l, n = val(result["hidden_layer"]), val(result["numb_new_nodes"])
        a, b, f = new.fields["hidden_size"], old.fields["hidden_size"], old.fields
        inside = (b.arr[l] + n <= f["max_mlp_nodes"]) if sign > 0 else (b.arr[l] - n > f["min_mlp_nodes"])
        return z3.And(0 <= l, l < b.len, same_except(new, old, l),
                      z3.If(inside, a.arr[l] == b.arr[l] + sign * n, a.arr[l] == b.arr[l]))
    P.specns.update(dict(mlp_inv=mlp_inv, node_effect=node_effect, same_except=same_except))
    P.shape("MLP", MOD + "mlp.EvolvableMLP", {"hidden_size": "seq[int]", "min_hidden_layers": "int", "max_hidden_layers": "int",
                                              "min_mlp_nodes": "int", "max_mlp_nodes": "int"})
    W = {"self.hidden_size": [64, 64], "self.min_hidden_layers": 1, "self.max_hidden_layers": 3, "self.min_mlp_nodes": 16, "self.max_mlp_nodes": 500}
    M = MOD + "mlp.EvolvableMLP."
    arg = {"hidden_layer": "opt:int", "numb_new_nodes": "opt:int"}
    pre_args = ["hidden_layer is None or hidden_layer >= 0", "numb_new_nodes is None or numb_new_nodes >= 1"]
    res2 = lambda ex, st, l: {"hidden_layer": z3.Int(fresh_name("res.hidden_layer")), "numb_new_nodes": z3.Int(fresh_name("res.numb_new_nodes"))}
    res1 = lambda ex, st, l: {"numb_new_nodes": z3.Int(fresh_name("res.numb_new_nodes"))}
    P.contract(M + "add_node", params={"self": "obj:MLP", **arg}, requires=["mlp_inv(self)"] + pre_args, modifies=["self.hidden_size"], result=res2,
               ensures=["mlp_inv(self)", "node_effect(self, old(self), result, 1)"], witness={**W, "hidden_layer": None, "numb_new_nodes": None}, replay="c03:walk")
    P.contract(M + "remove_node", params={"self": "obj:MLP", **arg}, requires=["mlp_inv(self)"] + pre_args, modifies=["self.hidden_size"], result=res2,
               ensures=["mlp_inv(self)", "node_effect(self, old(self), result, -1)"], witness={**W, "hidden_layer": None, "numb_new_nodes": None}, replay="c03:walk")

    def layer_effect(new, old, result, sign):
        a, b, f = new.fields["hidden_size"], old.fields["hidden_size"], old.fields
        i = z3.Int("i!le")
        if sign > 0:
            can = b.len < f["max_hidden_layers"]
            done = z3.And(a.len == b.len + 1, a.arr[b.len] == b.arr[b.len - 1],
                          z3.ForAll([i], z3.Implies(z3.And(0 <= i, i < b.len), a.arr[i] == b.arr[i])))
        else:
            can = b.len > f["min_hidden_layers"]
            done = z3.And(a.len == b.len - 1, z3.ForAll([i], z3.Implies(z3.And(0 <= i, i < a.len), a.arr[i] == b.arr[i])))
        fallback = node_effect(new, old, result, 1) if isinstance(result, dict) else z3.BoolVal(False)
        applied = done if result is None else z3.BoolVal(False)
        return z3.If(can, applied, fallback)       # at the limit the method behaves as add_node (and returns its arguments)
    P.specns["layer_effect"] = layer_effect
    P.contract(M + "add_layer", params={"self": "obj:MLP"}, requires=["mlp_inv(self)"], modifies=["self.hidden_size"],
               ensures=["mlp_inv(self)", "layer_effect(self, old(self), result, 1)"], witness=W, replay="c03:walk")
    P.contract(M + "remove_layer", params={"self": "obj:MLP"}, requires=["mlp_inv(self)"], modifies=["self.hidden_size"],
               ensures=["mlp_inv(self)", "layer_effect(self, old(self), result, -1)"], witness=W, replay="c03:walk")

    # ------------------------------------------------------------------ LSTM / SimBa (scalar sizes)
    def scalar_family(shape, cls_qual, layers, lmin, lmax, hmin, hmax, add_l, rem_l, strict_remove):
        fields = {layers: "int", lmin: "int", lmax: "int", "hidden_size": "int", hmin: "int", hmax: "int"}
        P.shape(shape, cls_qual, fields)

        def inv(o):
            f = o.fields
            return z3.And(f[lmin] <= f[layers], f[layers] <= f[lmax], f[lmin] >= 1, f[hmin] >= 1,
                          f[hmin] <= f["hidden_size"], f["hidden_size"] <= f[hmax])

        def node_eff(new, old, result, sign):
            if not isinstance(result, dict) or set(result) != {"numb_new_nodes"}:
                return z3.BoolVal(False)
            n = val(result["numb_new_nodes"])
            a, b, f = new.fields, old.fields, old.fields
            if sign > 0:
                inside = b["hidden_size"] + n <= f[hmax]
            else:
                inside = (b["hidden_size"] - n > f[hmin]) if strict_remove else (b["hidden_size"] - n >= f[hmin])
            return z3.And(a[layers] == b[layers], z3.If(inside, a["hidden_size"] == b["hidden_size"] + sign * n, a["hidden_size"] == b["hidden_size"]))

        def layer_eff(new, old, result, sign):
            a, b = new.fields, old.fields
            can = (b[layers] < b[lmax]) if sign > 0 else (b[layers] > b[lmin])
            applied = z3.And(a[layers] == b[layers] + sign, a["hidden_size"] == b["hidden_size"]) if result is None else z3.BoolVal(False)
            fallback = node_eff(new, old, result, 1) if isinstance(result, dict) else z3.BoolVal(False)
            return z3.If(can, applied, fallback)
        P.specns.update({f"{shape}_inv": inv, f"{shape}_node": node_eff, f"{shape}_layer": layer_eff})
        Wt = {f"self.{layers}": 1, f"self.{lmin}": 1, f"self.{lmax}": 3, "self.hidden_size": 64, f"self.{hmin}": 16, f"self.{hmax}": 500}
        q = cls_qual + "."
        a1 = {"numb_new_nodes": "opt:int"}
        pa = ["numb_new_nodes is None or numb_new_nodes >= 1"]
        mods = ["self.hidden_size", "self." + layers]
        P.contract(q + "add_node", params={"self": "obj:" + shape, **a1}, requires=[f"{shape}_inv(self)"] + pa, modifies=mods, result=res1,
                   ensures=[f"{shape}_inv(self)", f"{shape}_node(self, old(self), result, 1)"], witness={**Wt, "numb_new_nodes": None}, replay="c03:walk")
        P.contract(q + "remove_node", params={"self": "obj:" + shape, **a1}, requires=[f"{shape}_inv(self)"] + pa, modifies=mods, result=res1,
                   ensures=[f"{shape}_inv(self)", f"{shape}_node(self, old(self), result, -1)"], witness={**Wt, "numb_new_nodes": None}, replay="c03:walk")
        P.contract(q + add_l, params={"self": "obj:" + shape}, requires=[f"{shape}_inv(self)"], modifies=mods,
                   ensures=[f"{shape}_inv(self)", f"{shape}_layer(self, old(self), result, 1)"], witness=Wt, replay="c03:walk")
        P.contract(q + rem_l, params={"self": "obj:" + shape}, requires=[f"{shape}_inv(self)"], modifies=mods,
                   ensures=[f"{shape}_inv(self)", f"{shape}_layer(self, old(self), result, -1)"], witness=Wt, replay="c03:walk")
    scalar_family("LSTM", MOD + "lstm.EvolvableLSTM", "num_layers", "min_layers", "max_layers", "min_hidden_size", "max_hidden_size",
                  "add_layer", "remove_layer", strict_remove=False)
    scalar_family("SimBa", MOD + "simba.EvolvableSimBa", "num_blocks", "min_blocks", "max_blocks", "min_mlp_nodes", "max_mlp_nodes",
                  "add_block", "remove_block", strict_remove=True)
    # ------------------------------------------------------------------ EvolvableCNN (channels / kernels / strides kept in step)
    CNNQ = MOD + "cnn.EvolvableCNN"

    def cnn_self(ex, st, label):
        o = Obj(CNNQ, label="self")
        mk = Obj(MOD + "cnn.MutableKernelSizes", {"sizes": Seq.new("int", "kernel_sizes"), "tuple_sizes": False, "cnn_block_type": "Conv2d"},
                 label="mut_kernel_size")
        mk.fields["calc_max_kernel_sizes"] = Fn(model=lambda ex, st, a, k: Seq.new("int", "max_kernels", mk.fields["sizes"].len), name="calc_max_kernel_sizes")
        o.fields.update(dict(channel_size=Seq.new("int", "channel_size"), stride_size=Seq.new("int", "stride_size"), mut_kernel_size=mk,
                             min_hidden_layers=z3.Int("min_hidden_layers"), max_hidden_layers=z3.Int("max_hidden_layers"),
                             min_channel_size=z3.Int("min_channel_size"), max_channel_size=z3.Int("max_channel_size"),
                             input_shape=(z3.Int("in_c"), z3.Int("in_h"), z3.Int("in_w")),
                             cnn_output_size=(z3.Int("out_c"), z3.Int("out_h"), z3.Int("out_w"))))
        return o

    def cnn_inv(o):
        f = o.fields
        cs, ss, ks = f["channel_size"], f["stride_size"], f["mut_kernel_size"].fields["sizes"]
        i = z3.Int("i!cnn")
        return z3.And(cs.len == ss.len, cs.len == ks.len, f["min_hidden_layers"] >= 1, f["min_hidden_layers"] <= cs.len, cs.len <= f["max_hidden_layers"],
                      f["min_channel_size"] >= 1,
                      z3.ForAll([i], z3.Implies(z3.And(0 <= i, i < cs.len),
                                                z3.And(f["min_channel_size"] <= cs.arr[i], cs.arr[i] <= f["max_channel_size"], ss.arr[i] >= 1, ks.arr[i] >= 1))))

    def chan_effect(new, old, result, sign):
        if not isinstance(result, dict) or set(result) != {"hidden_layer", "numb_new_channels"}:
            return z3.BoolVal(False)
        l, nn_ = val(result["hidden_layer"]), val(result["numb_new_channels"])
        a, b, f = new.fields["channel_size"], old.fields["channel_size"], old.fields
        i = z3.Int("i!ce")
        same_rest = z3.And(a.len == b.len, z3.ForAll([i], z3.Implies(z3.And(0 <= i, i < a.len, i != l), a.arr[i] == b.arr[i])))
        if sign > 0:
            inside = b.arr[l] + nn_ <= f["max_channel_size"]
            eff = z3.If(inside, a.arr[l] == b.arr[l] + nn_, a.arr[l] == b.arr[l])
        else:
            # remove_channel reports 0 removed channels when the bound stops it
            eff = z3.Or(z3.And(a.arr[l] == b.arr[l] - nn_, nn_ >= 0), z3.And(a.arr[l] == b.arr[l], nn_ == 0))
        return z3.And(0 <= l, l < b.len, same_rest, eff)
    P.specns.update(dict(cnn_inv=cnn_inv, chan_effect=chan_effect))
    argc = {"hidden_layer": "opt:int", "numb_new_channels": "opt:int"}
    prec = ["hidden_layer is None or hidden_layer >= 0", "numb_new_channels is None or numb_new_channels >= 1"]
    resc = lambda ex, st, l: {"hidden_layer": z3.Int(fresh_name("res.hidden_layer")), "numb_new_channels": z3.Int(fresh_name("res.numb_new_channels"))}
    P.contract(CNNQ + ".add_channel", params={"self": cnn_self, **argc}, requires=["cnn_inv(self)"] + prec, frame_fields=False, result=resc,
               modifies=["self.channel_size"], ensures=["cnn_inv(self)", "chan_effect(self, old(self), result, 1)"], replay="c03:walk")
    P.contract(CNNQ + ".remove_channel", params={"self": cnn_self, **argc}, requires=["cnn_inv(self)"] + prec, frame_fields=False, result=resc,
               modifies=["self.channel_size"], ensures=["cnn_inv(self)", "chan_effect(self, old(self), result, -1)"], replay="c03:walk")

    def cnn_layer_effect(new, old, result, sign):
        a, b = new.fields, old.fields
        la, lb = a["channel_size"].len, b["channel_size"].len
        if sign < 0:
            can = lb > b["min_hidden_layers"]
            applied = (la == lb - 1) if result is None else z3.BoolVal(False)
        else:
            applied = (la == lb + 1) if result is None else z3.BoolVal(False)
            can = None
        fallback = chan_effect(new, old, result, 1) if isinstance(result, dict) else z3.BoolVal(False)
        if can is None:      # add_layer: applied or fell back to add_channel (the decision also depends on the conv arithmetic)
            return z3.Or(applied, fallback) if result is None else fallback
        return z3.If(can, applied, fallback)
    P.specns["cnn_layer_effect"] = cnn_layer_effect
    P.contract(CNNQ + ".remove_layer", params={"self": cnn_self}, requires=["cnn_inv(self)"], frame_fields=False,
               modifies=["self.channel_size", "self.stride_size", "self.mut_kernel_size.sizes"],
               ensures=["cnn_inv(self)", "cnn_layer_effect(self, old(self), result, -1)"], replay="c03:walk")
    P.contract(CNNQ + ".add_layer", params={"self": cnn_self}, requires=["cnn_inv(self)"], frame_fields=False,
               modifies=["self.channel_size", "self.stride_size", "self.mut_kernel_size.sizes"],
               ensures=["cnn_inv(self)", "cnn_layer_effect(self, old(self), result, 1)"], replay="c03:walk")
    P.trusted += ["MutableKernelSizes.calc_max_kernel_sizes returns one integer per layer (conv arithmetic not under contract: the kernel-fits-input "
                  "part of 'valid architecture' is only exercised by the native walks)"]
    # ------------------------------------------------------------------ EvolvableResNet: channel mutations keep the width a Python int inside
    # its bounds (the constructor asserts isinstance(channel_size, int): a numpy integer makes the module un-rebuildable from its own description)
    class NpInt:
        """a numpy integer scalar (np.random.choice(...)[0]): arithmetic with Python ints yields numpy integers again"""

        def __init__(self, v):
            self.v = z3ify(v)

        def isinstance(self, ex, st, names):
            return any(n in ("integer", "int64", "number", "generic") for n in names)

        def to_int(self, ex, st):
            return self.v

        def binop(self, ex, st, op, other, swapped):
            import ast as _ast
            o = other.v if isinstance(other, NpInt) else z3ify(other)
            a, b = (o, self.v) if swapped else (self.v, o)
            r = a + b if isinstance(op, _ast.Add) else a - b if isinstance(op, _ast.Sub) else a * b if isinstance(op, _ast.Mult) else None
            if r is None:
                raise Undecided("numpy integer op")
            return NpInt(r)

        def iop(self, ex, st, op, other):
            return self.binop(ex, st, op, other, False)

        def compare(self, ex, st, op, other, swapped):
            import ast as _ast
            o = other.v if isinstance(other, NpInt) else z3ify(other)
            a, b = (o, self.v) if swapped else (self.v, o)
            return {_ast.Lt: a < b, _ast.LtE: a <= b, _ast.Gt: a > b, _ast.GtE: a >= b, _ast.Eq: a == b, _ast.NotEq: a != b}[type(op)]

    def np_choice_np(ex, st, args, kwargs):
        r = np_choice(ex, st, args, kwargs)
        return [NpInt(r[0])]
    RES = MOD + "resnet.EvolvableResNet"
    P.shape("ResNet", RES, {"channel_size": "int", "min_channel_size": "int", "max_channel_size": "int"})
    npval = lambda x: x.v if isinstance(x, NpInt) else z3ify(x)
    P.specns["res_inv"] = lambda o: z3.And(npval(o.fields["min_channel_size"]) >= 1, npval(o.fields["min_channel_size"]) <= npval(o.fields["channel_size"]),
                                           npval(o.fields["channel_size"]) <= npval(o.fields["max_channel_size"]))
    P.specns["py_int"] = lambda v: z3.BoolVal(isinstance(v, int) or (isinstance(v, z3.ArithRef) and v.sort() == z3.IntSort()))
    for meth in ("add_channel", "remove_channel"):
        for variant, argp in (("default-draw", (lambda ex, st, l: None)), ("given", "int")):
            P.contract(f"{RES}.{meth}", variant=variant, params={"self": "obj:ResNet", "numb_new_channels": argp},
                       requires=["res_inv(self)"] + (["numb_new_channels >= 1"] if variant == "given" else []), modifies=["self.channel_size"],
                       ensures=["res_inv(self)", "py_int(self.channel_size)"], replay={"adapter": "demos:run", "payload": {"name": "C04_demo_6"}},
                       setup=None)
    P.lib["numpy.random.choice"] = lambda ex, st, a, k: (np_choice_np(ex, st, a, k) if (getattr(ex.top_frame, "qual", "") or "").startswith(RES) else np_choice(ex, st, a, k))
    # ------------------------------------------------------------------ EvolvableMultiInput.change_activation: the constructor description
    # (init_dict reads self.output_activation) names the output activation that is really installed
    MI = MOD + "multi_input.EvolvableMultiInput"

    def mi_self(ex, st, label):
        o = Obj(MI, label="self")
        fnet = Obj("model.ModuleDict", label="feature_net")
        fnet.fields["modules"] = Fn(model=lambda ex, st, a, k: {}, name="modules")
        o.fields.update(dict(_activation=None, output_activation=None, output=("activation", None), feature_net=fnet))
        return o
    P.lib[MOD + "multi_input.get_activation"] = lambda ex, st, a, k: ("activation", a[0])
    P.lib["agilerl.utils.evolvable_networks.get_activation"] = lambda ex, st, a, k: ("activation", a[0])
    P.specns["described"] = lambda o: z3.BoolVal(o.fields["output"] == ("activation", o.fields["output_activation"]))
    for outp in (True, False):
        P.contract(MI + ".change_activation", variant=f"output-{outp}", params={"self": mi_self, "activation": (lambda ex, st, l: "ELU"), "output": (lambda ex, st, l, outp=outp: outp)},
                   requires=[], frame_fields=False, ensures=["described(self)", "self._activation == 'ELU'"],
                   replay={"adapter": "demos:run", "payload": {"name": "C07_demo_3"}})
    # ------------------------------------------------------------------ MakeEvolvable.change_activation: the live network is rebuilt from
    # the new description (so that what runs and what init_dict reports agree)
    ME = "agilerl.wrappers.make_evolvable.MakeEvolvable"
    calls = []

    def me_self(ex, st, label):
        calls.clear()
        o = Obj(ME, label="self")
        o.fields.update(dict(mlp_activation="ReLU", mlp_output_activation=None,
                             recreate_network=Fn(model=lambda ex, st, a, k: calls.append((o.fields["mlp_activation"], o.fields["mlp_output_activation"])), name="recreate_network")))
        return o
    for outp in (True, False):
        P.specns[f"rebuilt_{outp}"] = (lambda outp=outp: z3.BoolVal(calls == [("ELU", "ELU" if outp else None)]))       # rebuilt once, AFTER the names were stored
        P.contract(ME + ".change_activation", variant=f"output-{outp}", params={"self": me_self, "activation": (lambda ex, st, l: "ELU"), "output": (lambda ex, st, l, outp=outp: outp)},
                   requires=[], frame_fields=False, ensures=[f"rebuilt_{outp}()", "self.mlp_activation == 'ELU'"],
                   replay={"adapter": "demos:run", "payload": {"name": "C07_demo_4"}})

    # ------------------------------------------------------------------ MutableKernelSizes.change_kernel_size: the stored kernel of the layer is well
    # formed for the block type whatever form (int / tuple) the requested size has, and the reported size can be fed back in
    MK = MOD + "cnn.MutableKernelSizes"
    for block, tuples, arg in (("Conv2d", False, "int"), ("Conv2d", True, "int"), ("Conv2d", True, "tuple"), ("Conv3d", True, "int"), ("Conv3d", True, "tuple")):
        KS = z3.Int("requested_kernel")
        DEPTH = z3.Int("old_depth")

        def mk_self(ex, st, label, block=block, tuples=tuples):
            o = Obj(MK, label="self")
            old = (3, 3) if (tuples and block == "Conv2d") else ((DEPTH, 3, 3) if tuples else 3)
            o.fields.update(dict(sizes=[old, old], cnn_block_type=block, tuple_sizes=tuples))
            return o

        def ks_arg(ex, st, l, block=block, arg=arg):
            if arg == "int":
                return KS
            return (KS, KS) if block == "Conv2d" else (DEPTH, KS, KS)

        def ks_post(o, result, block=block, tuples=tuples):
            new = o.fields["sizes"][1]
            if not tuples:
                ok = z3ify(new) == KS
            elif block == "Conv2d":
                ok = z3.BoolVal(isinstance(new, tuple) and len(new) == 2) if not (isinstance(new, tuple) and len(new) == 2) else z3.And(z3ify(new[0]) == KS, z3ify(new[1]) == KS)
            else:
                ok = z3.BoolVal(False) if not (isinstance(new, tuple) and len(new) == 3) else z3.And(z3ify(new[0]) == DEPTH, z3ify(new[1]) == KS, z3ify(new[2]) == KS)
            unchanged = z3.BoolVal(o.fields["sizes"][0] == ((3, 3) if (tuples and block == "Conv2d") else ((DEPTH, 3, 3) if tuples else 3)))
            return z3.And(ok, unchanged, z3ify(result) == KS)                # reports an int that can be handed to a sister network
        tag = f"{block}-{'tuple' if tuples else 'int'}-kernels-{arg}-arg"
        P.specns[f"ks_post_{tag.replace('-', '_')}"] = ks_post
        P.contract(MK + ".change_kernel_size", variant=tag,
                   params={"self": mk_self, "hidden_layer": (lambda ex, st, l: 1), "channel_size": "opaque", "stride_size": "opaque", "input_shape": "opaque", "kernel_size": ks_arg},
                   requires=["requested_kernel >= 1"], frame_fields=False, ensures=[f"ks_post_{tag.replace('-', '_')}(self, result)"],
                   replay={"adapter": "demos:run", "payload": {"name": "C03_demo_3"}})
    P.specns["requested_kernel"] = z3.Int("requested_kernel")
    P.native.append(dict(name="walk", adapter="c03:walk", thorough_only=True, payload={"mode": "search"},
                         bound="MLP, CNN, LSTM, SimBa, MultiInput(vector_mlp), QNetwork: all mutation words up to length 3 plus seeded walks of 40 steps; "
                               "forward output finite with declared shape for batch 1..3; strict reload from init_dict; clone reproduces outputs"))
    P.assumptions += ["sizes are mathematical integers", "explicit arguments satisfy hidden_layer >= 0, numb_new_nodes >= 1"]
    P.uncovered += ["CNN change_kernel and the conv shape arithmetic, ResNet, MultiInput and network-level latent mutations: native bounded check only",
                    "finite forward outputs of the declared shape; constructor description rebuilds an architecture accepting the weights (bounded native)"]
    return P
