"""C04 — mutations reuse learned weights (DESIGN.md section 5, C04; slice logic of preserve_parameters).

EvolvableModule.preserve_parameters is executed symbolically on two networks whose parameter lists are concrete in their
*names and ranks* (a rank-2 weight, a rank-1 bias, a rank-1 parameter whose name contains "norm", a parameter that only
exists in the new network) and symbolic in every dimension and every element.  Post (the property statement): every
parameter present in both networks keeps its value on the index range the two shapes have in common; equal shapes ⇒
the whole tensor is carried over; parameters that only exist in the new network are untouched.
"""
import z3

from pyvc.execu import z3ify
from pyvc.main import Prop
from pyvc.values import Fn, ModRef, Obj, Opaque, PyRaise, Undecided, fresh_name
from . import tensors as TT

I, Re = z3.IntSort(), z3.RealSort()


class PData:
    """the .data tensor of a parameter: shape (tuple of Int terms, rank 1 or 2) and element array"""

    def __init__(self, shape, arr):
        self.shape, self.arr = tuple(shape), arr

    def el(self, idx):
        return self.arr if len(self.shape) == 0 else (self.arr[idx[0]] if len(self.shape) == 1 else self.arr[idx[0]][idx[1]])

    def getattr(self, ex, st, name):
        if name == "size":
            return Fn(model=lambda ex, st, a, k: self.shape, name="size")
        if name == "shape":
            return self.shape
        raise Undecided(f"tensor attribute {name}")

    def _box(self, idx):
        idx = idx if isinstance(idx, tuple) else (idx,)
        if len(idx) != len(self.shape) or not all(isinstance(s, slice) and s.step is None for s in idx):
            raise Undecided("index other than a tuple of plain slices, one per dimension")
        return [(z3ify(0 if s.start is None else s.start), z3ify(self.shape[d] if s.stop is None else s.stop)) for d, s in enumerate(idx)]

    def getitem(self, ex, st, idx):
        return View(self, self._box(idx))

    def setitem(self, ex, st, idx, v):
        box = self._box(idx)
        if not isinstance(v, View) or len(v.box) != len(box):
            raise Undecided("slice assignment from a non-view")
        # torch: both sides must have the same extent (after clamping to the respective shape)
        ext = lambda b, shape: [z3.If(hi > z3ify(n), z3ify(n), hi) - lo for (lo, hi), n in zip(b, shape)]
        same = z3.And(*[a == b for a, b in zip(ext(box, self.shape), ext(v.box, v.src.shape))])
        if ex.feasible(st, z3.Not(same)):
            if not ex.decide(st, same):
                raise PyRaise("RuntimeError", "shape mismatch in slice assignment")
        if len(self.shape) == 1:
            i = z3.Int("i!sa")
            (lo, hi), (slo, _) = box[0], v.box[0]
            self.arr = z3.Lambda([i], z3.If(z3.And(lo <= i, i < hi, i < z3ify(self.shape[0])), v.src.arr[i - lo + slo], self.arr[i]))
        else:
            i, j = z3.Int("i!sa"), z3.Int("j!sa")
            (lo0, hi0), (lo1, hi1) = box
            (s0, _), (s1, _) = v.box
            inside = z3.And(lo0 <= i, i < hi0, i < z3ify(self.shape[0]), lo1 <= j, j < hi1, j < z3ify(self.shape[1]))
            self.arr = z3.Lambda([i], z3.Lambda([j], z3.If(inside, v.src.arr[i - lo0 + s0][j - lo1 + s1], self.arr[i][j])))


class View:
    def __init__(self, src, box):
        self.src, self.box = src, box


class Param:
    def __init__(self, data):
        self.data = data

    def getattr(self, ex, st, name):
        if name == "data":
            return self.data
        raise Undecided(f"parameter attribute {name}")

    def setattr(self, ex, st, name, v):
        if name == "data" and isinstance(v, PData):
            self.data = PData(v.shape, v.arr)      # param.data = old.data : the new parameter now holds the old tensor
            return
        raise Undecided("parameter attribute store")


class Net:
    def __init__(self, params, buffers=()):
        self.params = params      # list of (name, Param)
        self.buffers = list(buffers)   # list of (name, Param-like tensor): BatchNorm running statistics

    def getattr(self, ex, st, name):
        if name == "named_parameters":
            return Fn(model=lambda ex, st, a, k: list(self.params), name=name)
        if name == "named_buffers":
            return Fn(model=lambda ex, st, a, k: list(self.buffers), name=name)
        raise Undecided(f"module attribute {name}")


def build(tier):
    P = Prop("C04")
    P.lib["builtins.slice"] = lambda ex, st, a, k: slice(*a)
    P.trusted += ["tensor slicing with a tuple of slices denotes the index box (clamped to the shape); slice assignment copies element-wise; "
                  "`param.data = t` makes the parameter hold t; named_parameters() lists (name, parameter) pairs"]
    names = [("fc.weight", 2), ("fc.bias", 1), ("layer_norm.weight", 1)]
    bufs = [("batch_norm.running_mean", 1), ("batch_norm.num_batches_tracked", 0)]
    dims = {}

    def mk(label, only_new=False):
        ps, bs = [], []
        for nm, rank in names + ([("new_only.weight", 2)] if only_new else []) + bufs:
            shape = tuple(z3.Int(f"{label}.{nm}.d{d}") for d in range(rank))
            arr = z3.Const(f"{label}.{nm}", Re if rank == 0 else (TT.A1 if rank == 1 else TT.A2))
            dims[(label, nm)] = (shape, arr)
            (bs if (nm, rank) in bufs else ps).append((nm, Param(PData(shape, arr))))
        return Net(ps, bs)

    def setup(ex, st, fr):
        st.locals["old_net"] = mk("old")
        st.locals["new_net"] = mk("new", only_new=True)
        for (label, nm), (shape, arr) in dims.items():
            for d in shape:
                st.assume(d >= 1)

    def post(result):
        if not isinstance(result, Net):
            return z3.BoolVal(False)
        out = []
        i, j = z3.Int("i!p"), z3.Int("j!p")
        cur = dict(result.params)
        cur.update(dict(result.buffers))
        for nm, rank in names + bufs:            # buffers too: an unchanged architecture has to compute the same function in eval mode
            (oshape, oarr), (nshape, narr) = dims[("old", nm)], dims[("new", nm)]
            d = cur[nm].data
            if rank == 0:
                out.append(d.arr == oarr)
            elif rank == 1:
                common = z3.And(0 <= i, i < oshape[0], i < nshape[0])
                out.append(z3.ForAll([i], z3.Implies(common, d.arr[i] == oarr[i])))                        # common index range keeps its value
                out.append(z3.Implies(oshape[0] == nshape[0], z3.And(z3ify(d.shape[0]) == oshape[0])))     # equal shapes: whole tensor
                out.append(z3.Implies(oshape[0] != nshape[0], z3.And(z3ify(d.shape[0]) == nshape[0],
                                                                     z3.ForAll([i], z3.Implies(z3.And(i >= oshape[0], i < nshape[0]), d.arr[i] == narr[i])))))
            else:
                common = z3.And(0 <= i, i < oshape[0], i < nshape[0], 0 <= j, j < oshape[1], j < nshape[1])
                out.append(z3.ForAll([i, j], z3.Implies(common, d.arr[i][j] == oarr[i][j])))
                same = z3.And(oshape[0] == nshape[0], oshape[1] == nshape[1])
                out.append(z3.Implies(z3.Not(same), z3.And(z3ify(d.shape[0]) == nshape[0], z3ify(d.shape[1]) == nshape[1])))
        (nshape, narr) = dims[("new", "new_only.weight")]
        d = cur["new_only.weight"].data
        out.append(z3.ForAll([i, j], d.arr[i][j] == narr[i][j]))                                          # new-only parameters untouched
        return z3.And(*out)
    P.specns["pp_post"] = post
    P.contract("agilerl.modules.base.EvolvableModule.preserve_parameters", setup=setup, params={}, requires=[], frame_fields=False,
               ensures=["pp_post(result)"], replay="c04:preserve")
    # the CNN's own copy of the slice logic (used by EvolvableCNN / EvolvableResNet / MakeEvolvable when shrinking): same postcondition
    P.contract("agilerl.modules.cnn.EvolvableCNN.shrink_preserve_parameters", setup=setup, params={}, requires=[], frame_fields=False,
               ensures=["pp_post(result)"], replay={"adapter": "demos:run", "payload": {"name": "C04_demo_1"}})
    # EvolvableDistribution.clone: the clone wraps a clone of the wrapped network and carries over log_std and the squashing flag
    DN = "agilerl.networks.distributions.EvolvableDistribution"
    rec = {}

    class WrappedNet:
        def __init__(self, tag):
            self.tag = tag

        def getattr(self, ex, st, name):
            if name == "clone":
                return Fn(model=lambda ex, st, a, k: WrappedNet(("clone-of", self)), name=name)
            raise Undecided(name)

    class LogStd:
        def __init__(self, v):
            self.v = v
            self.data = self

        def getattr(self, ex, st, name):
            if name == "data":
                return self
            if name == "copy_":
                def cp(ex, st, a, k):
                    self.v = a[0].v
                return Fn(model=cp, name=name)
            raise Undecided(name)

    def dist_ctor(ex, st, a, k):
        o = Obj("model.EvolvableDistribution", label="clone")
        box = k["action_space"].isinstance(ex, st, ["Box"])
        o.fields.update(dict(action_space=k["action_space"], wrapped=k["network"], action_std_init=k["action_std_init"], device=k.get("device", "cpu"),
                             squash_output=z3.And(z3ify(k.get("squash_output", False)), z3.BoolVal(box))))
        if box:
            o.fields["log_std"] = LogStd(z3.Real("fresh_log_std"))
        return o
    P.lib[DN] = dist_ctor

    class SpaceB:
        def __init__(self, cls):
            self.cls = cls

        def isinstance(self, ex, st, names):
            return self.cls in names
    for cls in ("Box", "Discrete"):
        def dself(ex, st, label, cls=cls):
            o = Obj(DN, label="self")
            o.fields.update(dict(action_space=SpaceB(cls), _wrapped=WrappedNet("head"), wrapped=None, action_std_init=z3.Real("std_init"), device="cpu",
                                 squash_output=z3.Bool("squash_flag") if cls == "Box" else False))
            o.fields["wrapped"] = o.fields["_wrapped"]
            if cls == "Box":
                o.fields["log_std"] = LogStd(z3.Real("trained_log_std"))
            rec["self"] = o
            return o

        def dpost(res, cls=cls):
            o = rec["self"]
            if not (isinstance(res, Obj) and res is not o and isinstance(res.fields.get("wrapped"), WrappedNet) and res.fields["wrapped"].tag == ("clone-of", o.fields["wrapped"])):
                return z3.BoolVal(False)
            out = [z3ify(res.fields["squash_output"]) == z3ify(o.fields["squash_output"])]
            if cls == "Box":
                out += [res.fields["log_std"].v == z3.Real("trained_log_std"), z3.BoolVal(res.fields["log_std"] is not o.fields["log_std"])]
            return z3.And(*out)
        P.specns[f"dist_clone_{cls}"] = dpost
        P.contract(DN + ".clone", variant=cls, params={"self": dself}, requires=[], frame_fields=False, ensures=[f"dist_clone_{cls}(result)"],
                   replay={"adapter": "demos:run", "payload": {"name": "C04_demo_5"}})
    P.native.append(dict(name="walk", adapter="c03:walk", thorough_only=True, payload={"mode": "search"},
                         bound="same clone-and-mutate walks as C03: clone() reproduces outputs; strict reload"))
    P.native.append(dict(name="preserve", adapter="c04:preserve", payload={"mode": "search"},
                         bound="MLP / QNetwork with randomised weights: every mutation method; common-range preservation of every same-named parameter; "
                               "a mutation that leaves the architecture unchanged leaves the function unchanged"))
    P.assumptions += ["ranks 1 and 2 (dimension values symbolic); conv kernels (rank 4/5) only through the native adapter"]
    P.uncovered += ["conv kernels of rank 4/5 in shrink_preserve_parameters (the first two dimensions are sliced, spatial dimensions kept whole)", "end-to-end output equality after no-op mutations and clone() (bounded native)",
                    "Mutations.reinit_from_mutated / load_state_dicts wiring is under contract in C02 (single network inside Mutations.mutation, list variant on its own)"]
    return P
