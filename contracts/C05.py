"""C05 — tournament selection (DESIGN.md section 5, C05).

Model: an agent is a term of the uninterpreted sort Ag with  idx_of(ag): its `index`,  flen(ag), fit(ag,k): its
fitness history,  src(ag): which member of the *input population* it is (a copy of).  `clone()` is used by its
contract (faithful + independent copy — that contract is property C01's obligation; here it is an assumed
contract on a dependency): the copy has the same src and fitness, the requested index, and nothing else changes.
LM(ag, m) is the spec function "mean of the last m scores of ag" (np.mean(fitness[-m:])).
"""
import ast

import z3

from pyvc.execu import to_bool, z3ify
from pyvc.main import Prop
from pyvc.values import Fn, Obj, Opaque, PyRaise, Seq, Undecided, fresh_name, is_sym

TS = "agilerl.hpo.tournament.TournamentSelection."
I, Re = z3.IntSort(), z3.RealSort()
Ag = z3.DeclareSort("Ag")
idx_of = z3.Function("idx_of", Ag, I)
src = z3.Function("src", Ag, I)
flen = z3.Function("flen", Ag, I)
fit = z3.Function("fit", Ag, I, Re)
LM = z3.Function("LM", Ag, I, Re)


class FitSlice:
    def __init__(self, ag, m):
        self.ag, self.m = ag, m


class Fitness:
    def __init__(self, ag):
        self.ag = ag

    def getitem(self, ex, st, idx):
        if isinstance(idx, slice) and idx.stop is None and idx.step is None and idx.start is not None:
            # fitness[-m:]  (m >= 1): the last min(m, len) scores
            start = z3.simplify(-z3ify(idx.start))
            if ex.feasible(st, start < 1):
                raise Undecided("fitness slice that is not of the form [-m:] with m >= 1")
            return FitSlice(self.ag, start)
        raise Undecided("fitness access other than [-m:]")

    def length(self, ex, st):
        return flen(self.ag)


class AgentV:
    """Value wrapper of an Ag term."""

    def __init__(self, term):
        self.term = term

    def getattr(self, ex, st, name):
        if name == "fitness":
            return Fitness(self.term)
        if name == "index":
            return idx_of(self.term)
        if name == "accelerator":
            return None          # contracts are stated for accelerator is None (DESIGN 3.1)
        if name == "clone":
            def clone(ex, st, args, kwargs):
                index = args[0] if args else kwargs.get("index")
                c = z3.Const(fresh_name("clone"), Ag)
                st.assume(c != self.term)            # a clone is a new object
                st.assume(src(c) == src(self.term))
                st.assume(flen(c) == flen(self.term))
                k = z3.Int(fresh_name("k"))
                st.assume(z3.ForAll([k], fit(c, k) == fit(self.term, k)))
                m = z3.Int(fresh_name("m"))
                st.assume(z3.ForAll([m], LM(c, m) == LM(self.term, m)))
                st.assume(idx_of(c) == (idx_of(self.term) if index is None else z3ify(index)))
                return AgentV(c)
            return Fn(model=clone, name="clone")
        raise Undecided(f"agent attribute {name} (outside the clone/fitness/index interface used by selection)")

    def setattr(self, ex, st, name, v):
        raise Undecided(f"selection writes agent attribute {name}: the old population must stay untouched")


def wrap_agent(term):
    return AgentV(term)


def make_population(ex, st, label):
    s = Seq.new("Ag", "population")
    s.wrap = wrap_agent
    st.assume(s.len >= 1)
    k = z3.Int("k!pop")
    st.assume(z3.ForAll([k], z3.Implies(z3.And(0 <= k, k < s.len), src(s.arr[k]) == k), patterns=[s.arr[k]]))
    return s


# ----------------------------------------------------------------------------------------- numpy models (trusted)
def np_mean(ex, st, args, kwargs):
    v = args[0]
    if isinstance(v, FitSlice):
        return LM(v.ag, v.m)
    raise Undecided("np.mean of a value that is not fitness[-m:]")


def np_argsort(ex, st, args, kwargs):
    x = args[0]
    if not isinstance(x, Seq):
        raise Undecided("argsort of non-sequence")
    n = z3ify(x.len)
    p = Seq.new("int", "argsort", x.len)
    a, b = z3.Int(fresh_name("a")), z3.Int(fresh_name("b"))
    st.assume(z3.ForAll([a], z3.Implies(z3.And(0 <= a, a < n), z3.And(0 <= p.arr[a], p.arr[a] < n)), patterns=[p.arr[a]]))
    st.assume(z3.ForAll([a, b], z3.Implies(z3.And(0 <= a, a < b, b < n), p.arr[a] != p.arr[b]),
                        patterns=[z3.MultiPattern(p.arr[a], p.arr[b])]))
    st.assume(z3.ForAll([a, b], z3.Implies(z3.And(0 <= a, a <= b, b < n), x.arr[p.arr[a]] <= x.arr[p.arr[b]]),
                        patterns=[z3.MultiPattern(p.arr[a], p.arr[b])]))
    # surjectivity of a permutation of a finite set (pigeonhole; part of the trusted contract)
    inv = z3.Function(fresh_name("inv"), I, I)
    st.assume(z3.ForAll([a], z3.Implies(z3.And(0 <= a, a < n), z3.And(0 <= inv(a), inv(a) < n, p.arr[inv(a)] == a)), patterns=[inv(a)]))
    st.assume(z3.ForAll([a], z3.Implies(z3.And(0 <= a, a < n), inv(p.arr[a]) == a), patterns=[p.arr[a]]))
    p.is_perm = True
    p.inv = inv
    if getattr(x, "is_perm", False):
        # argsort of a permutation of 0..n-1 is its inverse
        st.assume(z3.ForAll([a], z3.Implies(z3.And(0 <= a, a < n), z3.And(x.arr[p.arr[a]] == a, p.arr[x.arr[a]] == a)),
                            patterns=[p.arr[a], x.arr[a]]))
    return p


def np_argmax(ex, st, args, kwargs):
    x = args[0]
    if not isinstance(x, Seq):
        raise Undecided("argmax of non-sequence")
    n = z3ify(x.len)
    r = z3.Int(fresh_name("argmax"))
    a = z3.Int(fresh_name("a"))
    st.assume(z3.And(0 <= r, r < n))
    st.assume(z3.ForAll([a], z3.Implies(z3.And(0 <= a, a < n), x.arr[a] <= x.arr[r]), patterns=[x.arr[a]]))
    st.assume(z3.ForAll([a], z3.Implies(z3.And(0 <= a, a < r), x.arr[a] < x.arr[r]), patterns=[x.arr[a]]))   # first maximum
    return r


def np_randint(ex, st, args, kwargs):
    lo, hi = args[0], args[1]
    size = kwargs.get("size")
    if size is None:
        r = z3.Int(fresh_name("randint"))
        st.assume(z3.And(z3ify(lo) <= r, r < z3ify(hi)))
        return r
    s = Seq.new("int", "randint", size)
    a = z3.Int(fresh_name("a"))
    st.assume(z3.ForAll([a], z3.Implies(z3.And(0 <= a, a < z3ify(size)), z3.And(z3ify(lo) <= s.arr[a], s.arr[a] < z3ify(hi))),
                        patterns=[s.arr[a]]))
    return s


# ----------------------------------------------------------------------------------------------- spec helpers
def is_rank_of(rank, pop, m):
    """rank is a permutation of 0..n-1 that orders the population by LM (ties broken arbitrarily):
    LM(pop[a]) < LM(pop[b]) -> rank[a] < rank[b]."""
    a, b = z3.Int("a!rk"), z3.Int("b!rk")
    n = z3ify(pop.len)
    return z3.And(z3ify(rank.len) == n,
                  z3.ForAll([a], z3.Implies(z3.And(0 <= a, a < n), z3.And(0 <= rank.arr[a], rank.arr[a] < n)), patterns=[rank.arr[a]]),
                  z3.ForAll([a, b], z3.Implies(z3.And(0 <= a, a < n, 0 <= b, b < n, a != b), rank.arr[a] != rank.arr[b]),
                            patterns=[z3.MultiPattern(rank.arr[a], rank.arr[b])]),
                  z3.ForAll([a, b], z3.Implies(z3.And(0 <= a, a < n, 0 <= b, b < n, LM(pop.arr[a], m) < LM(pop.arr[b], m)),
                                               rank.arr[a] < rank.arr[b]),
                            patterns=[z3.MultiPattern(rank.arr[a], rank.arr[b]), z3.MultiPattern(pop.arr[a], pop.arr[b])]))


def fittest(ag, pop, m):
    """ag is (a copy of) a member of pop whose mean of the last m scores is maximal."""
    k = z3.Int("k!ft")
    n = z3ify(pop.len)
    s = src(ag.term)
    return z3.And(0 <= s, s < n, z3.ForAll([k], z3.Implies(z3.And(0 <= k, k < n), LM(pop.arr[k], m) <= LM(pop.arr[s], m)),
                                           patterns=[pop.arr[k]]),
                  LM(ag.term, m) == LM(pop.arr[s], m), idx_of(ag.term) == idx_of(pop.arr[s]))


def is_max_index(mx, pop):
    k = z3.Int("k!mi")
    n = z3ify(pop.len)
    return z3.And(z3.ForAll([k], z3.Implies(z3.And(0 <= k, k < n), idx_of(pop.arr[k]) <= mx), patterns=[pop.arr[k]]),
                  z3.Exists([k], z3.And(0 <= k, k < n, idx_of(pop.arr[k]) == mx)))


def winner_ok(w, fv, sel):
    """winner is one of the drawn agents and has the best rank among the drawn."""
    a = z3.Int("a!w")
    k = z3ify(sel.len)
    return z3.And(z3.Exists([a], z3.And(0 <= a, a < k, sel.arr[a] == w)),
                  z3.ForAll([a], z3.Implies(z3.And(0 <= a, a < k), fv.arr[sel.arr[a]] <= fv.arr[w]), patterns=[sel.arr[a]]))


def new_pop_ok(new, pop, elite, max_id0, elitism, upto):
    """members built so far: first is the elite's copy (with elitism); the others are copies of population members,
    carrying the fresh indices max_id0+1, max_id0+2, ... (distinct, and larger than every old index)."""
    t = z3.Int("t!np")
    n = z3ify(pop.len)
    off = z3.If(z3ify(elitism), 1, 0)
    return z3.And(
        z3.Implies(z3ify(elitism), z3.And(src(new.arr[0]) == src(elite.term), idx_of(new.arr[0]) == idx_of(elite.term),
                                          new.arr[0] != elite.term)),      # a sibling copy, not the returned elite itself
        z3.ForAll([t], z3.Implies(z3.And(off <= t, t < z3ify(upto)),
                                  z3.And(0 <= src(new.arr[t]), src(new.arr[t]) < n, idx_of(new.arr[t]) == max_id0 + (t - off) + 1)),
                  patterns=[new.arr[t]]))


def build(tier):
    P = Prop("C05")
    P.lib.update({"numpy.mean": np_mean, "numpy.argsort": np_argsort, "numpy.argmax": np_argmax,
                  "numpy.random.randint": np_randint, "seqmethod.argsort": np_argsort})
    P.trusted += ["numpy.mean(fitness[-m:]) = LM(agent, m), the mean of the last min(m, len) scores (spec function)",
                  "numpy.argsort(x): a permutation p of range(n) with x[p[0]] <= x[p[1]] <= ...; argsort of a permutation is its inverse",
                  "numpy.argmax(x): index of the first maximal element", "numpy.random.randint(lo, hi, size=k): k values in [lo, hi) (every draw)",
                  "ASSUMED contract of EvolvableAlgorithm.clone(index, wrap): fresh agent, same origin/fitness, requested index, "
                  "nothing else modified (this is property C01; C05 uses it modularly)"]
    P.specns.update(dict(is_rank_of=is_rank_of, fittest=fittest, is_max_index=is_max_index, winner_ok=winner_ok,
                         new_pop_ok=new_pop_ok, S=lambda a: src(a.term), LM=LM, src=src, idx_of=idx_of, wrap_agent=wrap_agent))
    P.shape("TS", "agilerl.hpo.tournament.TournamentSelection",
            {"tournament_size": "pos", "elitism": "bool", "population_size": "pos", "eval_loop": "pos"})
    P.contract(TS + "_elitism",
               params={"self": "obj:TS", "population": make_population},
               requires=[], modifies=[],
               ghost_after={"rank = ": ["check(is_rank_of(rank, population, self.eval_loop))"],
                            "model = ": ["check(rank[S(model)] == len(population) - 1)"]},
               result=lambda ex, st, label: (AgentV(z3.Const(fresh_name("elite"), Ag)), Seq.new("int", "rank"), z3.Int(fresh_name("max_id"))),
               ensures=["fittest(result[0], population, self.eval_loop)", "is_rank_of(result[1], population, self.eval_loop)",
                        "is_max_index(result[2], population)"],
               replay="c05:select")
    P.contract(TS + "_tournament",
               params={"self": "obj:TS", "fitness_values": "seq[int]"},
               requires=["len(fitness_values) >= 1"], modifies=[], result="int",
               ghost_after={"winner = ": ["check(winner_ok(winner, fitness_values, selection))"]},
               ensures=["0 <= result", "result < len(fitness_values)"],
               replay="c05:select")
    P.contract(TS + "select",
               params={"self": "obj:TS", "population": make_population},
               requires=[], modifies=[],
               loops={0: dict(invariant=["len(new_population) == (1 if self.elitism else 0) + idx",
                                         "max_id == old_max_id + idx",
                                         "new_pop_ok(new_population, population, elite, old_max_id, self.elitism, len(new_population))"],
                              promote={"new_population": ("Ag", "wrap_agent")}, ghost_init=["old_max_id = max_id"])},
               ensures=["fittest(result[0], population, self.eval_loop)",
                        "len(result[1]) == self.population_size",
                        "exists(m0, is_max_index(m0, population) and new_pop_ok(result[1], population, result[0], m0, self.elitism, len(result[1])))"],
               replay="c05:select")
    P.assumptions += ["fitness histories are non-empty (np.mean of an empty slice is NaN) - excluded by precondition",
                      "floats as reals; NaN fitness excluded"]
    P.uncovered += ["'faithful copy' and 'old population untouched' rest on the clone contract (property C01)"]
    P.native.append(dict(name='selection', adapter='c05:select', thorough_only=True, payload={"mode": "search"},
                         bound='stub-agent populations (sizes 2-8, ties, equal fitness windows) with spied draws: elite maximal, winners best of their draw, fresh indices, elite first'))
    return P
