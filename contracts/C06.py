"""C06 — RL hyper-parameter mutation stays in range and takes effect (DESIGN.md section 5, C06).

Functions under contract: RLParameter.mutate (both number types), Mutations.rl_hyperparam_mutation with everything it
calls inlined from the real source: HyperparameterConfig.sample/__bool__, EvolvableAlgorithm.get_lr_names/__setattr__,
Mutations.reinit_opt (incl. its nested _reinit_individual), OptimizerWrapper.__init__, init_from_single/multiple,
OptimizerConfig.get_optimizer_cls.  The agent is a record with *symbolic values* and a *concrete registry layout*
(variants below: which hyper-parameters are configured, which of them are learning rates of which optimizer).
"""
import z3

from pyvc.execu import z3ify
from pyvc.main import Prop
from pyvc.values import Fn, ModRef, Obj, Opaque, Opt, Seq, Undecided, fresh_name
from . import lib

REG = "agilerl.algorithms.core.registry."
MUT = "agilerl.hpo.mutation.Mutations."
BASE = "agilerl.algorithms.core.base.EvolvableAlgorithm"
WRAP = "agilerl.algorithms.core.wrappers."


class Net:
    """An evolvable network (opaque); identity matters."""

    def __init__(self, name):
        self.name = name

    def isinstance(self, ex, st, names):
        return any(n in ("Module", "EvolvableModule", "nn.Module") for n in names)

    def getattr(self, ex, st, name):
        if name == "parameters":
            return Fn(model=lambda ex, st, a, k: ("params-of", self), name="parameters")
        raise Undecided(f"network attribute {name}")


class Optim:
    """A torch optimizer: list of (params, lr) groups.  Trusted: torch.optim.X(params, lr=v) / X([{'params':p,'lr':v},..])
    puts v into the corresponding param group."""

    def __init__(self, groups):
        self.groups = groups

    def isinstance(self, ex, st, names):
        return "Optimizer" in names


def make_optim(ex, st, args, kwargs):
    a = args[0]
    if isinstance(a, list):      # list of group dicts
        return Optim([(g["params"], g["lr"]) for g in a])
    return Optim([(a, kwargs["lr"])])


def clip(x, lo, hi):
    m = z3.If(lo > x, lo, x)            # max(x, lo)   (python: max(a,b) returns a unless b > a)
    return z3.If(hi < m, hi, m)          # min(m, hi)


def conv(dtype, x):
    if dtype == "int":
        return z3.ToReal(z3.If(x >= 0, z3.ToInt(x), -z3.ToInt(-x)))
    return x


def param_obj(ex, st, label, dtype):
    o = Obj(REG + "RLParameter", label=label)
    for f in ("min", "max", "shrink_factor", "grow_factor"):
        o.fields[f] = z3.Real(fresh_name(f"{label}.{f}"))
    o.fields["dtype"] = ModRef("builtins." + dtype)
    o.fields["value"] = Opt(z3.Bool(fresh_name(label + ".value.isnone")), z3.Real(fresh_name(label + ".value")))
    return o


def mutate_post(p, pold, result, dtype):
    f = pold.fields
    v = f["value"].val
    r = z3ify(result)
    if r.sort() == z3.IntSort():
        r = z3.ToReal(r)
    lo, hi = f["min"], f["max"]
    cands = [conv(dtype, clip(v * f["shrink_factor"], lo, hi)), conv(dtype, clip(v * f["grow_factor"], lo, hi))]
    newv = p.fields["value"]
    nv = newv.val if isinstance(newv, Opt) else z3ify(newv)
    if isinstance(nv, z3.ArithRef) and nv.sort() == z3.IntSort():
        nv = z3.ToReal(nv)
    stored = nv == r if not isinstance(newv, Opt) else z3.And(z3.Not(newv.isnone), nv == r)
    inrange = z3.Implies(lo <= hi, z3.And(lo <= r, r <= hi)) if dtype == "float" else z3.BoolVal(True)
    # NB: what mutate() leaves in self.value is not part of the property (the caller overwrites it before every use)
    return z3.And(z3.Or(r == cands[0], r == cands[1]), inrange)


# ------------------------------------------------------------------------------------------ agent layouts
LAYOUTS = {
    # hp name -> dtype ; optimizers: (attr name, [network attr names], lr hp name)
    "one-opt": dict(hps={"lr": "float", "batch_size": "int"}, opts=[("optimizer", ["actor"], "lr")]),
    "two-opt": dict(hps={"lr_actor": "float", "lr_critic": "float", "learn_step": "int"},
                    opts=[("actor_optimizer", ["actor"], "lr_actor"), ("critic_optimizer", ["critic"], "lr_critic")]),
    "shared-opt": dict(hps={"lr": "float"}, opts=[("optimizer", ["actor", "critic"], "lr")]),
    "no-hp": dict(hps={}, opts=[("optimizer", ["actor"], "lr")]),
    # TD3 / MATD3 / IPPO: several optimizers registered under ONE learning-rate name
    "twin-critics": dict(hps={"lr_actor": "float", "lr_critic": "float"},
                         opts=[("actor_optimizer", ["actor"], "lr_actor"), ("critic_1_optimizer", ["critic_1"], "lr_critic"),
                               ("critic_2_optimizer", ["critic_2"], "lr_critic")]),
}


def make_agent(layout):
    L = LAYOUTS[layout]

    def mk(ex, st, label):
        ind = Obj(BASE, label="individual")
        hp = Obj(REG + "HyperparameterConfig", label="hp_config")
        hp.fields["config"] = {}
        for name, dt in L["hps"].items():
            p = param_obj(ex, st, "hp." + name, dt)
            hp.fields["config"][name] = p
            hp.fields[name] = p
            ind.fields[name] = z3.Real(fresh_name("ind." + name))
        for name in ("lr",):
            if name not in ind.fields:
                ind.fields[name] = z3.Real(fresh_name("ind." + name))
        reg = Obj(REG + "MutationRegistry", label="registry")
        reg.fields["hp_config"] = hp
        reg.fields["optimizers"] = []
        for oname, nets, lrname in L["opts"]:
            cfg = Obj(REG + "OptimizerConfig", label="cfg." + oname)
            cfg.fields.update(dict(name=oname, networks=list(nets), lr=lrname, optimizer_cls="Adam", optimizer_kwargs={},
                                   multiagent=False))
            reg.fields["optimizers"].append(cfg)
            for n in nets:
                if n not in ind.fields:
                    ind.fields[n] = Net(n)
            w = Obj(WRAP + "OptimizerWrapper", label=oname)
            old_lr = z3.Real(fresh_name(oname + ".lr"))
            w.fields.update(dict(optimizer=Optim([(("params-of", ind.fields[n]), old_lr) for n in nets]), optimizer_cls=ModRef("torch.optim.Adam"),
                                 optimizer_kwargs={}, lr=old_lr, multiagent=False, networks=[ind.fields[n] for n in nets],
                                 network_names=list(nets), lr_name=lrname))
            ind.fields[oname] = w
        ind.fields["registry"] = reg
        ind.fields["mut"] = "None"
        return ind
    return mk


def agent_post(layout):
    L = LAYOUTS[layout]

    def post(ind, old, result):
        mut = ind.fields["mut"]
        if result is not ind:
            return z3.BoolVal(False)
        if not L["hps"]:
            return z3.BoolVal(mut == "None")
        if mut not in L["hps"]:
            return z3.BoolVal(False)
        out = []
        for name, dt in L["hps"].items():
            new, o = z3ify(ind.fields[name]), old.fields[name]
            if new.sort() == z3.IntSort():
                new = z3.ToReal(new)
            if name == mut:
                p = old.fields["registry"].fields["hp_config"].fields["config"][name].fields
                cands = [conv(dt, clip(o * p["shrink_factor"], p["min"], p["max"])),
                         conv(dt, clip(o * p["grow_factor"], p["min"], p["max"]))]
                out.append(z3.Or(new == cands[0], new == cands[1]))     # own current value x factor, clipped, converted
            else:
                out.append(new == o)                                       # no other hyper-parameter moves
        for oname, nets, lrname in L["opts"]:
            w = ind.fields[oname]
            if lrname == mut:
                ok = isinstance(w, Obj) and isinstance(w.fields.get("optimizer"), Optim)
                if not ok:
                    return z3.BoolVal(False)
                groups = w.fields["optimizer"].groups
                newlr = z3ify(ind.fields[lrname])
                out.append(z3.BoolVal(len(groups) == len(nets)))
                for (params, glr), n in zip(groups, nets):
                    out.append(z3.BoolVal(params == ("params-of", ind.fields[n])))   # steps the agent's current networks
                    out.append(z3ify(glr) == newlr)                                   # every group uses the new learning rate
                out.append(z3ify(w.fields["lr"]) == newlr)
            else:
                out.append(z3.BoolVal(w is not None and ind.fields[oname] is w and
                                      ex_same(w, old.fields[oname])))
        return z3.And(*out)
    return post


def ex_same(w, wold):
    """optimizer attribute untouched: same groups (params identity and lr terms)."""
    g1, g0 = w.fields["optimizer"].groups, wold.fields["optimizer"].groups
    return len(g1) == len(g0) and all(z3ify(a[1]).eq(z3ify(b[1])) for a, b in zip(g1, g0))


def extract_mutate(model):
    from pyvc.main import mget, mnum
    g = lambda n: mnum(mget(model, "self." + n))
    vals = dict(min=g("min"), max=g("max"), shrink=g("shrink_factor"), grow=g("grow_factor"), value=g("value"), draw=mnum(mget(model, "rand")))
    if any(v is None for v in vals.values()):
        return None
    return vals


def build(tier):
    P = Prop("C06")
    lib.install(P, ["torch.rand"])
    P.lib["torch.randperm"] = __import__("contracts.rb_common", fromlist=["x"]).randperm
    for n in ("Adam", "AdamW", "SGD", "RMSprop", "Adadelta", "Adagrad", "Adamax", "ASGD", "LBFGS", "Rprop"):
        P.lib["torch.optim." + n] = make_optim
    P.trusted += ["torch.optim.X(params, lr=v, ...) / X([{'params': p, 'lr': v, ...}]) creates param groups holding exactly those params with lr v",
                  "torch.randperm(n)[0] is some index in [0, n) (every draw)", "torch.rand(1).item() in [0,1)"]
    P.specns.update(dict(mutate_post=mutate_post))
    for dt in ("float", "int"):
        P.contract(REG + "RLParameter.mutate", variant=dt,
                   params={"self": (lambda ex, st, label, dt=dt: param_obj(ex, st, "self", dt))},
                   requires=[],
                   raises={"AssertionError": "self.value is None"}, raises_iff=True,
                   modifies=["self.value"],
                   ensures=[f"mutate_post(self, old(self), result, '{dt}')"],
                   replay={"adapter": "c06:mutate", "extract": (lambda m, dt=dt: (lambda v: dict(v, dtype=dt) if v else None)(extract_mutate(m)))})
    for layout in LAYOUTS:
        P.specns["agent_post_" + layout.replace("-", "_")] = agent_post(layout)
        P.contract(MUT + "rl_hyperparam_mutation", variant=layout,
                   params={"self": (lambda ex, st, label: Obj("agilerl.hpo.mutation.Mutations", label="mutations")),
                           "individual": make_agent(layout)},
                   requires=[], frame_fields=False,
                   ensures=[f"agent_post_{layout.replace('-', '_')}(individual, old(individual), result)"],
                   replay="c06:rlhp")
    P.assumptions += ["floats as reals (A-REAL); int(x) truncates toward zero",
                      "registry layouts covered: " + ", ".join(f"{k}={v['hps']}/{[o[0] for o in v['opts']]}" for k, v in LAYOUTS.items())
                      + " (values symbolic, layout concrete)",
                      "accelerator is None (DeepSpeed branch not taken)"]
    P.uncovered += ["DeepSpeedOptimizerWrapper branch of reinit_opt", "registries with more than two optimizers / three hyper-parameters (layouts are enumerated)"]
    P.native.append(dict(name='mutate', adapter='c06:mutate', thorough_only=True, payload={"mode": "search"},
                         bound='RLParameter.mutate calls (float/int, bounds, shrink/grow draws): result = dtype(clip(value x factor))'))
    P.native.append(dict(name='rl_hp', adapter='c06:rlhp', thorough_only=True, payload={"mode": "search"},
                         bound='DQN/DDPG/TD3 populations on one shared config: exactly one hyper-parameter changes, optimizers carry the mutated lr over current networks'))
    return P
