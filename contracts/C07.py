"""C07 — a saved checkpoint restores an equivalent agent (key wiring and restore order; narrow; DESIGN.md section 5, C07).

EvolvableAlgorithm.load_checkpoint (real code; OptimizerWrapper.__init__/load_state_dict inlined from the real source) is
executed on a checkpoint dictionary whose *structure* is concrete (two networks whose names prefix one another - actor /
actor_target -, one optimizer, bookkeeping attributes) and whose values are symbolic; torch.load is trusted to return the saved
dictionary.  Post: every network is rebuilt from ITS OWN class / constructor description / state, after the mutation hook;
the optimizer is rebuilt over the restored networks, its state AND its param-group settings (learning rate) are those saved;
every saved attribute is set on the agent; a foreign registry is rejected before any attribute is overwritten.
OptimizerWrapper.load_state_dict on its own: the wrapped optimizer ends with the saved state and the saved group settings.
"""
import z3

from pyvc.execu import z3ify
from pyvc.main import Prop
from pyvc.values import Fn, ModRef, Obj, Opaque, Undecided, fresh_name
from . import C01, C06

BASE = "agilerl.algorithms.core.base.EvolvableAlgorithm"
REG = "agilerl.algorithms.core.registry."
WRAP = "agilerl.algorithms.core.wrappers."


class Group:
    def __init__(self, optim, i):
        self.optim, self.i = optim, i

    def getitem(self, ex, st, k):
        if k == "lr":
            return self.optim.groups[self.i][1]
        raise Undecided(f"param group key {k}")

    def setitem(self, ex, st, k, v):
        if k == "lr":
            p, _ = self.optim.groups[self.i]
            self.optim.groups[self.i] = (p, v)
            return
        raise Undecided(f"param group key {k}")


class OptimG(C01.OptimM):
    def getattr(self, ex, st, name):
        if name == "param_groups":
            return [Group(self, i) for i in range(len(self.groups))]
        return C01.OptimM.getattr(self, ex, st, name)


def make_optim(ex, st, args, kwargs):
    a = args[0]
    if isinstance(a, list):
        return OptimG([(g["params"], g["lr"]) for g in a])
    return OptimG([(a, kwargs["lr"])])


class NetCls:
    """a saved module class: calling it with the saved init_dict builds a network with that architecture and fresh weights"""

    def __init__(self, name):
        self.name = name

    def call(self, ex, st, args, kwargs):
        n = NetR(self.name, kwargs.get("arch"))
        return n


class NetR(C01.NetM):
    def __init__(self, name, arch):
        C01.NetM.__init__(self, name, arch)
        self.loaded_from = None

    def getattr(self, ex, st, name):
        if name == "load_state_dict":
            def load(ex, st, a, k):
                sd = a[0]
                self.w = C01.TensorT(sd["w"].val)
                self.loaded_from = sd
            return Fn(model=load, name=name)
        return C01.NetM.getattr(self, ex, st, name)


def build(tier):
    P = Prop("C07")
    for n in ("Adam", "AdamW", "SGD", "RMSprop", "Adadelta", "Adagrad", "Adamax", "ASGD", "LBFGS", "Rprop"):
        P.lib["torch.optim." + n] = make_optim
    names = ["actor", "actor_target"]
    saved = {}
    log = []

    def setup(ex, st, fr):
        log.clear()
        saved.clear()
        modules, reg = {}, Obj(REG + "MutationRegistry", {"groups": [], "optimizers": []}, label="saved_registry")
        for n in names:
            saved[n] = dict(cls=NetCls(n), arch=z3.Int(f"saved.{n}.arch"), sd={"w": C01.TensorT(z3.Real(f"saved.{n}.w"))})
            modules[f"{n}_cls"] = saved[n]["cls"]
            modules[f"{n}_init_dict"] = {"arch": saved[n]["arch"]}
            modules[f"{n}_state_dict"] = saved[n]["sd"]
        saved["opt"] = dict(state=[C01.TensorT(z3.Real("saved.exp_avg")), C01.TensorT(z3.Real("saved.step"))], lr=z3.Real("saved.group_lr"))
        saved["lr"] = z3.Real("saved.lr")
        saved["fitness"] = [z3.Real("saved.fit0")]
        optimizers = {"optimizer_cls": "Adam", "optimizer_state_dict": {"state": saved["opt"]["state"], "param_groups": [saved["opt"]["lr"]]},
                      "optimizer_networks": ["actor"], "optimizer_lr": "lr", "optimizer_kwargs": {}, "optimizer_multiagent": False}
        same_registry = z3.Bool("registry_matches")
        ckpt = {"network_info": {"network_names": list(names), "modules": modules, "optimizer_names": ["optimizer"], "optimizers": optimizers},
                "registry": RegTok(same_registry), "lr": saved["lr"], "fitness": saved["fitness"], "steps": [z3.Int("saved.steps")], "index": z3.Int("saved.index")}
        P.lib["torch.load"] = lambda ex, st, a, k: ckpt
        agent = Obj(BASE, label="self")
        agent.fields.update(dict(device="cpu", accelerator=None, torch_compiler=None, lr=z3.Real("old.lr"), fitness=[], steps=[0], index=z3.Int("old.index"),
                                 registry=Obj(REG + "MutationRegistry", {"groups": [], "optimizers": []}, label="registry"),
                                 actor=C01.NetM("actor"), actor_target=C01.NetM("actor_target"), optimizer=Opaque("old-optimizer"),
                                 mutation_hook=Fn(model=lambda ex, st, a, k: log.append(("hook", {n: (isinstance(agent.fields[n], NetR) and agent.fields[n].loaded_from is None)
                                                                                                   for n in names})), name="mutation_hook")))
        st.locals.update(dict(self=agent, path="ckpt.pt"))

    class RegTok:
        """saved registry: `checkpoint['registry'] != self.registry` is decided by a symbolic flag"""

        def __init__(self, same):
            self.same = same

        def compare(self, ex, st, op, other, swapped):
            import ast
            return z3.Not(self.same) if isinstance(op, ast.NotEq) else self.same

        def getattr(self, ex, st, name):
            if name == "optimizers":               # the saved registry already knows the agent's optimizer (EvolvableAlgorithm.__setattr__)
                return [Obj(REG + "OptimizerConfig", {"name": "optimizer"}, label="saved_optimizer_config")]
            raise Undecided(f"registry attribute {name}")

    def post(agent):
        out = []
        for n in names:
            net = agent.fields[n]
            if not isinstance(net, NetR) or net.name != n:
                return z3.BoolVal(False)                                                     # built from ITS OWN class entry
            out += [net.arch == saved[n]["arch"], net.w.val == saved[n]["sd"]["w"].val, z3.BoolVal(net.loaded_from is saved[n]["sd"])]
        if not (log and log[0][0] == "hook" and all(log[0][1][n] for n in names)):
            return z3.BoolVal(False)                                                         # hooks run after rebuilding, before loading the weights
        w = agent.fields["optimizer"]
        if not (isinstance(w, Obj) and isinstance(w.fields.get("optimizer"), OptimG)):
            return z3.BoolVal(False)
        o = w.fields["optimizer"]
        out.append(z3.BoolVal([g[0] for g in o.groups] == [("params-of", agent.fields["actor"])]))     # over the RESTORED network
        out.append(z3ify(o.groups[0][1]) == saved["opt"]["lr"])                                         # saved param-group learning rate
        out.append(z3.BoolVal(len(o.state) == 2))
        out += [a.val == b.val for a, b in zip(o.state, saved["opt"]["state"])]                          # saved optimizer state
        out += [z3ify(agent.fields["lr"]) == saved["lr"], z3.BoolVal(agent.fields["fitness"] is saved["fitness"] or
                                                                     (isinstance(agent.fields["fitness"], list) and len(agent.fields["fitness"]) == 1)),
                z3ify(agent.fields["index"]) == z3.Int("saved.index"), z3.BoolVal("network_info" not in agent.fields)]
        return z3.And(*out)
    P.specns.update(dict(ckpt_post=post, same_registry=z3.Bool("registry_matches"),
                         untouched=lambda a: z3.And(z3ify(a.fields["lr"]) == z3.Real("old.lr"), z3ify(a.fields["index"]) == z3.Int("old.index"))))
    P.contract(BASE + ".load_checkpoint", setup=setup, params={}, requires=[], frame_fields=False,
               raises={"ValueError": "not same_registry"}, raises_iff=True,
               ensures_raise={"ValueError": ["untouched(self)"]},
               ensures=["ckpt_post(self)"], replay="c07:roundtrip")

    # ---- the class-method path: EvolvableAlgorithm.load(path) builds a NEW agent of the class from the same dictionary.  Same
    # postcondition as load_checkpoint, stated over the returned agent; the constructor gets exactly the saved constructor arguments.
    made = {}

    class AgentCls:
        def getattr(self, ex, st, name):
            if name == "__init__":
                return Opaque("cls.__init__")
            raise Undecided(f"class attribute {name}")

        def call(self, ex, st, args, kwargs):
            agent = Obj(BASE, label="loaded")
            agent.fields.update(dict(device=kwargs.get("device", "cpu"), accelerator=kwargs.get("accelerator"), torch_compiler=None,
                                     lr=kwargs.get("lr", z3.Real("default.lr")), fitness=[], steps=[0], index=kwargs.get("index", 0),
                                     registry=Obj(REG + "MutationRegistry", {"groups": [], "optimizers": []}, label="registry"),
                                     actor=C01.NetM("actor"), actor_target=C01.NetM("actor_target"), optimizer=Opaque("fresh-optimizer"),
                                     mutation_hook=Fn(model=lambda ex, st, a, k: log.append(("hook", {n: (isinstance(agent.fields[n], NetR) and agent.fields[n].loaded_from is None)
                                                                                                       for n in names})), name="mutation_hook")))
            made["agent"], made["kwargs"] = agent, dict(kwargs)
            return agent

    def load_setup(ex, st, fr):
        setup(ex, st, fr)
        made.clear()
        P.lib["inspect.signature"] = lambda ex, st, a, k: Obj("inspect.Signature", {"parameters": {"self": 0, "lr": 0, "index": 0, "device": 0, "accelerator": 0}}, label="sig")
        P.lib[BASE + ".inspect_attributes"] = lambda ex, st, a, k: {"lr": 0, "fitness": 0, "steps": 0, "index": 0}
        st.locals.clear()
        st.locals.update(dict(cls=AgentCls(), path="ckpt.pt", device="cpu", accelerator=None))
    P.lib["agilerl.algorithms.core.base.chkpt_attribute_to_device"] = lambda ex, st, a, k: a[0]
    P.lib["agilerl.utils.algo_utils.chkpt_attribute_to_device"] = lambda ex, st, a, k: a[0]

    def load_post(res):
        if made.get("agent") is None or res is not made["agent"]:
            return z3.BoolVal(False)
        kw = made["kwargs"]
        ctor = z3.And(z3.BoolVal(set(kw) <= {"lr", "index", "device", "accelerator"} and "lr" in kw and "index" in kw),
                      z3ify(kw.get("lr", 0)) == saved["lr"], z3ify(kw.get("index", 0)) == z3.Int("saved.index"))
        reg = res.fields.get("registry")
        return z3.And(ctor, post(res), z3.BoolVal(isinstance(reg, RegTok)), z3.BoolVal(res.fields["steps"] is not None and len(res.fields["steps"]) == 1),
                      z3ify(res.fields["steps"][0]) == z3.Int("saved.steps"))
    P.specns["load_post"] = load_post
    P.contract(BASE + ".load", setup=load_setup, params={}, requires=[], frame_fields=False, ensures=["load_post(result)"], replay="c07:roundtrip")

    # OptimizerWrapper.load_state_dict alone
    sd_state, sd_lr = [C01.TensorT(z3.Real("sd.exp_avg"))], z3.Real("sd.lr")

    def wsetup(ex, st, fr):
        w = Obj(WRAP + "OptimizerWrapper", label="self")
        net = C01.NetM("actor")
        w.fields.update(dict(optimizer=OptimG([(("params-of", net), z3.Real("own.lr"))]), multiagent=False, lr=z3.Real("own.lr"), networks=[net],
                             network_names=["actor"], lr_name="lr", optimizer_kwargs={}, optimizer_cls=ModRef("torch.optim.Adam")))
        st.locals.update(dict(self=w, state_dict={"state": list(sd_state), "param_groups": [sd_lr]}))
    P.specns["wl_post"] = lambda w: z3.And(z3ify(w.fields["optimizer"].groups[0][1]) == sd_lr, w.fields["optimizer"].state[0].val == sd_state[0].val,
                                           z3.BoolVal(len(w.fields["optimizer"].state) == 1))
    P.contract(WRAP + "OptimizerWrapper.load_state_dict", variant="standalone", setup=wsetup, params={}, requires=[], frame_fields=False,
               ensures=["wl_post(self)"], replay="c07:roundtrip")
    # ---- save side: get_checkpoint_dict writes exactly the layout load_checkpoint reads, from the agent's own objects
    class NetS(C01.NetM):
        """network with a constructor description and a state dict"""

        def __init__(self, name):
            C01.NetM.__init__(self, name)
            self.sd = {"w": self.w}
            self.idict = {"arch": self.arch}

        def getattr(self, ex, st, name):
            if name == "init_dict":
                return self.idict
            if name == "state_dict":
                return Fn(model=lambda ex, st, a, k: self.sd, name=name)
            if name == "__class__":
                return ("class-of", self.name)
            return C01.NetM.getattr(self, ex, st, name)
    live = {}

    def save_setup(ex, st, fr):
        live.clear()
        agent = Obj(BASE, label="agent")
        nets = {n: NetS(n) for n in names}
        w = Obj(WRAP + "OptimizerWrapper", label="optimizer")
        opt = OptimG([(("params-of", nets["actor"]), z3.Real("own.group_lr"))])
        opt.state = [C01.TensorT(z3.Real("own.exp_avg"))]
        w.fields.update(dict(optimizer=opt, multiagent=False, lr=z3.Real("own.lr"), networks=[nets["actor"]], network_names=["actor"], lr_name="lr",
                             optimizer_kwargs={}, optimizer_cls=ModRef("torch.optim.Adam")))
        plain = {"lr": z3.Real("own.lr"), "fitness": [z3.Real("own.fit0")], "steps": [z3.Int("own.steps")], "index": z3.Int("own.index"), "accelerator": None,
                 "lr_scheduler": None}
        agent.fields.update(dict(nets))
        agent.fields.update(dict(optimizer=w, lr_scheduler=None,
                                 evolvable_attributes=Fn(model=lambda ex, st, a, k: (list(names) if k.get("networks_only") else list(names) + ["optimizer"]),
                                                         name="evolvable_attributes")))
        live.update(dict(agent=agent, nets=nets, w=w, opt=opt, plain=plain))
        P.lib[BASE + ".inspect_attributes"] = lambda ex, st, a, k: dict(plain)
        st.locals["agent"] = agent
    P.lib["importlib.metadata.version"] = lambda ex, st, a, k: "version"
    P.lib["collections.OrderedDict"] = lambda ex, st, a, k: dict(a[0]) if a else {}

    def saved_post(res):
        if not isinstance(res, dict) or "network_info" not in res:
            return z3.BoolVal(False)
        ni = res["network_info"]
        ok = ni.get("network_names") == list(names) and ni.get("optimizer_names") == ["optimizer"]
        mods, opts = ni.get("modules", {}), ni.get("optimizers", {})
        out = []
        for n in names:
            net = live["nets"][n]
            ok = ok and mods.get(f"{n}_cls") == ("class-of", n) and mods.get(f"{n}_init_dict") is net.idict
            sd = mods.get(f"{n}_state_dict")
            ok = ok and isinstance(sd, dict) and set(sd) == {"w"}
            if ok:
                out.append(sd["w"].val == net.w.val)                                   # ITS OWN weights under ITS OWN key
        ok = ok and opts.get("optimizer_cls") == "Adam" and opts.get("optimizer_networks") == ["actor"] and opts.get("optimizer_lr") == "lr" \
            and opts.get("optimizer_multiagent") is False
        osd = opts.get("optimizer_state_dict")
        ok = ok and isinstance(osd, dict) and len(osd.get("state", [])) == 1
        if not ok:
            import os
            if os.environ.get("PYVC_DEBUG"):
                print("saved_post debug:", {k: (v if not isinstance(v, dict) else list(v)) for k, v in ni.items()}, mods, opts)
            return z3.BoolVal(False)
        out += [osd["state"][0].val == z3.Real("own.exp_avg"), z3ify(osd["param_groups"][0]) == z3.Real("own.group_lr"),
                z3ify(res["lr"]) == z3.Real("own.lr"), z3ify(res["index"]) == z3.Int("own.index"), z3.BoolVal("accelerator" not in res),
                z3.BoolVal("lr_scheduler" not in res)]
        return z3.And(*out)
    P.specns["saved_post"] = saved_post
    P.contract("agilerl.algorithms.core.base.get_checkpoint_dict", setup=save_setup, params={}, requires=[], frame_fields=False,
               ensures=["saved_post(result)"], replay="c07:roundtrip")
    P.native.append(dict(name="roundtrip", adapter="c07:roundtrip", payload={"mode": "search"},
                         bound="CQN, DDPG, TD3 (share_encoders=False), DQN: learn, mutate (architecture + lr), learn, save; load() and load_checkpoint(); "
                               "weights incl. targets, optimizer state and settings, bookkeeping, greedy actions; 3 further learn steps on both"))
    P.trusted += ["torch.save/torch.load(dill) return a value-faithful copy of the saved dictionary", "identity/optimizer model of C01; torch.optim constructor contract"]
    P.assumptions += ["checkpoint layout of two networks with prefixing names and one optimizer (get_checkpoint_dict is proved to write exactly the keys load_checkpoint reads); multi-agent lists not covered"]
    P.uncovered += ["EvolvableAlgorithm.load: agent wrappers (wrapper_cls) and module lists; a hook that REPLACES a network attribute (load re-assigns the pre-hook objects)",
                    "behavioural equivalence after loading (greedy actions, continued learning): bounded native", "crash points while saving"]
    return P
