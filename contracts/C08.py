"""C08 — Bellman target and target-network tracking (DESIGN.md section 5, C08).

(1) The target statement of each learner (a one-statement region of the real function, generic tensor element):
    target == reward + gamma * (1 - done) * Q_target, hence done == 1  =>  target == reward (next obs has no influence).
(2) soft_update of every learner: loop invariant over the zipped parameter lists; the postcondition is stated over
    the target network's *weights* (not over the zip), which needs "parameters(target) enumerates all its weights" -
    for DQN that is established by DQN.init_hook (also under contract, with the tensordict to_module/from_module
    library contract), and is exactly what was false before the fix recorded in known_findings.json.
(3) AST wiring obligations: where Q_target comes from (target networks, next observation), delayed updates.
"""
import ast

import z3

from pyvc.execu import z3ify
from pyvc.main import Prop
from pyvc.values import Fn, Obj, Opaque, PyRaise, Undecided, fresh_name
from .C17 import region
from .C18 import El

I, Re = z3.IntSort(), z3.RealSort()
A1 = z3.ArraySort(I, Re)


class NetP:
    """A network as far as soft updates are concerned: nw weights W[0..nw); `registered` says whether the weights are
    nn.Parameters of the module (and therefore listed by module.parameters())."""

    def __init__(self, name, nw, registered=True):
        self.name, self.nw, self.registered = name, nw, registered
        self.W = z3.Const(fresh_name("W." + name), A1)

    def getattr(self, ex, st, name):
        if name == "parameters":
            return Fn(model=lambda ex, st, a, k: ParamSeq(self, self.nw if self.registered else 0), name="parameters")
        if name == "W":
            return self.W
        if name == "state_dict":
            return Fn(model=lambda ex, st, a, k: ("state-dict", self.nw, self.W), name=name)                 # values of all weights
        if name == "load_state_dict":
            def load(ex, st, a, k):
                tag, nw, W = a[0]
                same = z3ify(nw) == z3ify(self.nw)
                if ex.feasible(st, z3.Not(same)) and not ex.decide(st, same):
                    raise PyRaise("RuntimeError")                                                             # size mismatch (architecture differs)
                self.W = W                                                                                    # copied in place into the module's own parameters
            return Fn(model=load, name=name)
        if name == "requires_grad_":
            return Fn(model=lambda ex, st, a, k: self, name=name)                                             # still parameters of the module
        raise Undecided(f"network attribute {name}")

    def havoc(self, ex, st, name):
        self.W = z3.Const(fresh_name("W." + self.name), A1)


class ParamSeq:
    def __init__(self, net, n):
        self.net, self.n = net, n

    def iter_model(self, ex, st):
        return self.n, lambda k: PRef(self.net, k)

    def iter_concrete(self, ex, st):
        if isinstance(self.n, int) and self.n == 0:
            return []
        return None


class PRef:
    def __init__(self, net, k):
        self.net, self.k = net, k

    def getattr(self, ex, st, name):
        if name == "data":
            return PData(self.net, self.k)
        if name == "copy_":
            return PData(self.net, self.k).getattr(ex, st, "copy_")
        raise Undecided(f"parameter attribute {name}")


class PData(El):
    def __init__(self, net, k):
        El.__init__(self, net.W[z3ify(k)])
        self.net, self.k = net, k

    def getattr(self, ex, st, name):
        if name == "copy_":
            def copy_(ex, st, a, kw):
                v = a[0].t if isinstance(a[0], El) else z3ify(a[0])
                self.net.W = z3.Store(self.net.W, z3ify(self.k), v)
                return self
            return Fn(model=copy_, name="copy_")
        return El.getattr(self, ex, st, name)


class TDP:
    """TensorDict of a module's weights (from_module): lists *all* weights, shares storage with the module."""

    def __init__(self, net):
        self.net = net

    def getattr(self, ex, st, name):
        if name == "values":
            return Fn(model=lambda ex, st, a, k: ParamSeq(self.net, self.net.nw), name="values")
        if name == "detach":
            return Fn(model=lambda ex, st, a, k: TDP(self.net), name="detach")
        if name == "clone":
            def clone(ex, st, a, k):
                c = NetP(self.net.name + ".clone", self.net.nw, registered=False)
                c.W = self.net.W                                   # value copy into fresh storage
                return TDP(c)
            return Fn(model=clone, name="clone")
        if name == "lock_":
            return Fn(model=lambda ex, st, a, k: self, name="lock_")
        if name == "to_module":
            def to_module(ex, st, a, k):
                # trusted tensordict contract: module's weights are *replaced* by the tensors of this (detached) TensorDict:
                # same values as the TensorDict, plain tensors -> not listed by module.parameters()
                m = a[0]
                if not isinstance(m, NetP):
                    raise Undecided("to_module on a non-network")
                if ex.feasible(st, z3ify(m.nw) != z3ify(self.net.nw)):
                    raise PyRaise("KeyError", "different architectures")
                m.W = self.net.W
                m.registered = False
                self.net = m                                        # the TensorDict's tensors now *are* the module's weights
                return None
            return Fn(model=to_module, name="to_module")
        raise Undecided(f"TensorDict attribute {name}")


def from_module(ex, st, args, kwargs):
    return TDP(args[0])


def soft_ok(target, online, told_W, upto):
    k = z3.Int("k!so")
    tau = z3.Real("tau")
    return z3.ForAll([k], z3.Implies(z3.And(0 <= k, k < z3ify(upto)),
                                     target.W[k] == tau * online.W[k] + (1 - tau) * told_W[k]))


def rest_same(target, told_W, frm):
    k = z3.Int("k!rs")
    return z3.ForAll([k], z3.Implies(k >= z3ify(frm), target.W[k] == told_W[k]))


def build(tier):
    P = Prop("C08")
    tau, gamma = z3.Real("tau"), z3.Real("gamma")
    NW = z3.Int("n_weights")
    P.axioms += [NW >= 0]
    P.lib["tensordict.from_module"] = from_module
    P.specns.update(dict(soft_ok=soft_ok, rest_same=rest_same, NW=NW, Wsnap=lambda n: n.W))
    P.trusted += ["tensordict: from_module(m) lists every weight of m and shares storage; .detach() keeps storage; .clone() copies values into "
                  "fresh tensors; td.to_module(m) makes m use td's tensors (plain tensors: m.parameters() no longer lists them)",
                  "a parameter tensor is represented by one generic real element (the update is element-wise)",
                  "module.parameters() of two networks with the same architecture enumerate corresponding weights in the same order"]

    # ------------------------------------------------------------------ (2) soft updates
    def two_net_self(cls, target_registered=True, with_td=False):
        def mk(ex, st, label):
            o = Obj("model." + cls, label="self")
            a, t = NetP("actor", NW), NetP("actor_target", NW, registered=target_registered)
            o.fields.update(dict(actor=a, actor_target=t, tau=tau))
            if with_td:
                o.fields.update(dict(param_vals=TDP(a), target_params=TDP(t)))
            return o
        return mk
    loop = {0: dict(invariant=["soft_ok(TGT, ONL, old_W, _k)", "rest_same(TGT, old_W, _k)", "ONL.W == old_onl"],
                    ghost_init=[], bind_target=False)}
    for cls, mod, kw in (("DQN", "dqn", dict(target_registered=False, with_td=True)), ("CQN", "cqn", {}), ("RainbowDQN", "dqn_rainbow", {})):
        P.contract(f"agilerl.algorithms.{mod}.{cls}.soft_update",
                   params={"self": two_net_self(cls, **kw)},
                   lets={"TGT": "self.actor_target", "ONL": "self.actor", "old_W": "Wsnap(self.actor_target)", "old_onl": "Wsnap(self.actor)"},
                   requires=[], frame_fields=False, loops=loop,
                   ensures=["soft_ok(TGT, ONL, old_W, NW)", "ONL.W == old_onl"],     # EVERY weight of the target network
                   replay="c08:soft_update")
    for cls, mod in (("DDPG", "ddpg"), ("TD3", "td3"), ("MADDPG", "maddpg"), ("MATD3", "matd3")):
        P.contract(f"agilerl.algorithms.{mod}.{cls}.soft_update",
                   params={"self": lambda ex, st, l, cls=cls: Obj("model." + cls, {"tau": tau}, label="self"),
                           "net": lambda ex, st, l: NetP("net", NW), "target": lambda ex, st, l: NetP("target", NW)},
                   lets={"TGT": "target", "ONL": "net", "old_W": "Wsnap(target)", "old_onl": "Wsnap(net)"},
                   requires=[], frame_fields=False, loops=loop,
                   ensures=["soft_ok(TGT, ONL, old_W, NW)", "ONL.W == old_onl"],
                   replay="c08:soft_update")
    # DQN.init_hook establishes what DQN.soft_update relies on
    P.specns["hook_ok"] = lambda s: z3.And(z3.BoolVal(isinstance(s.fields.get("param_vals"), TDP) and s.fields["param_vals"].net is s.fields["actor"]),
                                           z3.BoolVal(isinstance(s.fields.get("target_params"), TDP)
                                                      and s.fields["target_params"].net is s.fields["actor_target"]),
                                           s.fields["actor_target"].W == s.fields["actor"].W)
    P.contract("agilerl.algorithms.dqn.DQN.init_hook",
               params={"self": two_net_self("DQN")}, requires=[], frame_fields=False,
               ensures=["hook_ok(self)"], replay="c08:soft_update")

    # ------------------------------------------------------------------ (1) Bellman target statements
    r, d, q = z3.Reals("reward done q_target")
    P.axioms += [z3.Or(d == 0, d == 1)]

    def bellman(y):
        t = y.t
        return z3.And(t == r + gamma * (1 - d) * q, z3.Implies(d == 1, t == r))
    P.specns["bellman"] = bellman
    gself = lambda cls: (lambda ex, st, l: Obj("model." + cls, {"gamma": gamma}, label="self"))
    elr, eld, elq = (lambda ex, st, l: El(r)), (lambda ex, st, l: El(d)), (lambda ex, st, l: El(q))
    targets = [("agilerl.algorithms.dqn.DQN.update", "DQN", "y_j = ", "y_j", {"rewards": elr, "dones": eld, "q_target": elq},
                ["obs", "actions", "next_obs"]),
               ("agilerl.algorithms.cqn.CQN.learn", "CQN", "q_target = rewards", "q_target", {"rewards": elr, "dones": eld, "q_target_next": elq},
                ["experiences"]),
               ("agilerl.algorithms.ddpg.DDPG.learn", "DDPG", "y_j = ", "y_j", {"rewards": elr, "dones": eld, "q_value_next_state": elq},
                ["experiences", "noise_clip", "policy_noise"]),
               ("agilerl.algorithms.td3.TD3.learn", "TD3", "y_j = ", "y_j", {"rewards": elr, "dones": eld, "q_value_next_state": elq},
                ["experiences", "noise_clip", "policy_noise"])]
    ma = lambda term: (lambda ex, st, l: {"agent_x": El(term)})
    ma_opaque = ["idx", "actor", "critic", "critic_target", "actor_optimizer", "critic_optimizer", "stacked_states", "stacked_actions",
                 "stacked_next_states", "stacked_next_actions", "states", "actions"]
    targets += [("agilerl.algorithms.maddpg.MADDPG._learn_individual", "MADDPG", "y_j = ", "y_j",
                 {"rewards": ma(r), "dones": ma(d), "q_value_next_state": elq, "agent_id": (lambda ex, st, l: "agent_x")}, ma_opaque),
                ("agilerl.algorithms.matd3.MATD3.learn_individual", "MATD3", "y_j = ", "y_j",
                 {"rewards": ma(r), "dones": ma(d), "q_value_next_state": elq, "agent_id": (lambda ex, st, l: "agent_x")},
                 ma_opaque + ["critic_1", "critic_2", "critic_target_1", "critic_target_2", "critic_1_optimizer", "critic_2_optimizer"])]
    for qual, cls, prefix, var, locs, opaque_params in targets:
        params = {"self": gself(cls)}
        params.update(locs)
        params.update({p: "opaque" for p in opaque_params})
        P.contract(qual, variant="target", region=region(prefix, prefix), params=params, requires=[], frame_fields=False,
                   ensures=[f"bellman({var})"], replay="c08:bellman")

    # ------------------------------------------------------------------ (2b) where the centralised critics' inputs come from
    # MADDPG.learn / MATD3.learn up to the stacking: whatever the key order of the sampled dicts, the critics see the sampled actions
    # concatenated in the order of agent_ids (the order in which stack_critic_observations stacks the observations and in which the
    # next actions are produced), and the next actions are those of each agent's TARGET actor on ITS OWN prepared next observation.
    class Tok:
        def __init__(self, name):
            self.name = name

        def __eq__(self, other):
            return isinstance(other, Tok) and other.name == self.name

        def __hash__(self):
            return hash(("Tok", self.name))

        def __repr__(self):
            return f"<{self.name}>"

        def getattr(self, ex, st, name):
            if name == "to":
                return Fn(model=lambda ex, st, a, k: self, name="to")            # device moves keep values
            raise Undecided(f"tensor attribute {name}")
    IDS = ["agent_0", "agent_1", "other_0"]
    P.lib["torch.cat"] = lambda ex, st, a, k: ("cat", list(a[0]), k.get("dim", a[1] if len(a) > 1 else 0))
    for cls, mod in (("MADDPG", "maddpg"), ("MATD3", "matd3")):
        for tag, order in (("given-order", IDS), ("reversed", IDS[::-1]), ("rotated", IDS[1:] + IDS[:1])):
            def ma_learner(ex, st, label, cls=cls):
                o = Obj("model." + cls, label="self")
                o.fields.update(dict(
                    agent_ids=list(IDS), device="cpu",
                    preprocess_observation=Fn(model=lambda ex, st, a, k: {x: ("prepared", v) for x, v in a[0].items()}, name="preprocess_observation"),
                    stack_critic_observations=Fn(model=lambda ex, st, a, k: ("stacked-by-agent_ids", dict(a[0])), name="stack_critic_observations"),
                    actor_targets=[Fn(model=lambda ex, st, a, k, i=i: ("target-actor", i, a[0]), name=f"actor_target_{i}") for i in range(len(IDS))],
                    actors=[Fn(model=lambda ex, st, a, k, i=i: ("online-actor", i, a[0]), name=f"actor_{i}") for i in range(len(IDS))]))
                return o

            def batch(ex, st, label, order=order):
                mk = lambda what, keys: {a: Tok(f"{what}-of-{a}") for a in keys}
                return (mk("obs", IDS), mk("action", order), mk("reward", order[::-1]), mk("next_obs", order), mk("done", order[::-1]))

            def critic_inputs(stacked_states, stacked_next_states, stacked_actions, stacked_next_actions, rewards, dones):
                prep = lambda what: {a: ("prepared", Tok(f"{what}-of-{a}")) for a in IDS}
                ok = (stacked_actions == ("cat", [Tok(f"action-of-{a}") for a in IDS], 1)
                      and stacked_next_actions == ("cat", [("target-actor", i, ("prepared", Tok(f"next_obs-of-{a}"))) for i, a in enumerate(IDS)], 1)
                      and stacked_states == ("stacked-by-agent_ids", prep("obs")) and stacked_next_states == ("stacked-by-agent_ids", prep("next_obs"))
                      and isinstance(rewards, dict) and all(rewards.get(a) == Tok(f"reward-of-{a}") for a in IDS)
                      and isinstance(dones, dict) and all(dones.get(a) == Tok(f"done-of-{a}") for a in IDS))
                return z3.BoolVal(bool(ok))
            P.specns["critic_inputs"] = critic_inputs
            P.contract(f"agilerl.algorithms.{mod}.{cls}.learn", variant="critic-inputs-" + tag,
                       region=region("states, actions, rewards, next_states, dones = experiences", "stacked_next_actions = torch.cat"),
                       params={"self": ma_learner, "experiences": batch}, requires=[], frame_fields=False,
                       ensures=["critic_inputs(stacked_states, stacked_next_states, stacked_actions, stacked_next_actions, rewards, dones)"],
                       replay={"adapter": "demos:run", "payload": {"name": "C08b_demo_6"}})

    # the bootstrap value itself: the TARGET critic(s) of the agent on the stacked NEXT observations and NEXT (target-actor) actions,
    # the smaller of the twin target critics for MATD3 - with and without an accelerator
    class Ctx:
        def enter(self, ex, st):
            return None

    class Net:
        def __init__(self, name):
            self.name = name

        def call(self, ex, st, args, kwargs):
            return ("value", self.name, tuple(args))

        def getattr(self, ex, st, name):
            if name == "no_sync":
                return Fn(model=lambda ex, st, a, k: Ctx(), name="no_sync")
            raise Undecided(f"network attribute {name}")
    P.lib["torch.min"] = lambda ex, st, a, k: ("min", frozenset(a))
    SNS, SNA = Tok("stacked_next_states"), Tok("stacked_next_actions")
    nets = lambda *names: {n: (lambda ex, st, l, n=n: Net(n)) for n in names}
    P.specns.update(dict(boot_single=lambda v: z3.BoolVal(v == ("value", "critic_target", (SNS, SNA))),
                         boot_twin=lambda v: z3.BoolVal(v == ("min", frozenset([("value", "critic_target_1", (SNS, SNA)), ("value", "critic_target_2", (SNS, SNA))])))))
    for acc_tag, acc in (("plain", None), ("accelerated", Opaque("accelerator"))):
        common = {"agent_id": (lambda ex, st, l: "agent_x"), "rewards": "opaque", "dones": "opaque", "stacked_next_states": (lambda ex, st, l: SNS), "stacked_next_actions": (lambda ex, st, l: SNA),
                  "stacked_states": (lambda ex, st, l: Tok("stacked_states")), "stacked_actions": (lambda ex, st, l: Tok("stacked_actions"))}

        def acc_self(cls, acc=acc):
            def mk(ex, st, label):
                o = Obj("model." + cls, label="self")
                o.fields.update(dict(accelerator=acc, gamma=gamma))
                return o
            return mk
        P.contract("agilerl.algorithms.maddpg.MADDPG._learn_individual", variant="bootstrap-" + acc_tag,
                   region=region("with torch.no_grad()", "with torch.no_grad()"),
                   params=dict(common, self=acc_self("MADDPG"), **nets("critic", "critic_target"), **{p: "opaque" for p in ma_opaque if p not in ("critic", "critic_target") and p not in common}),
                   requires=[], frame_fields=False, ensures=["boot_single(q_value_next_state)"], replay="c08:bellman")
        P.contract("agilerl.algorithms.matd3.MATD3.learn_individual", variant="bootstrap-" + acc_tag,
                   region=region("with torch.no_grad()", "q_value_next_state = torch.min"),
                   params=dict(common, self=acc_self("MATD3"), **nets("critic_1", "critic_2", "critic_target_1", "critic_target_2"),
                               **{p: "opaque" for p in ma_opaque + ["critic_1_optimizer", "critic_2_optimizer"]
                                  if p not in ("critic", "critic_target") and p not in common}),
                   requires=[], frame_fields=False, ensures=["boot_twin(q_value_next_state)"], replay="c08:bellman")

    # single-agent delayed actor-critics: where Q(s,a) and the bootstrap value come from.  DDPG.learn / TD3.learn from the online
    # critics' forward pass to the end of the no_grad block, on symbolic terms: online critic(s) on (obs, stored action); target critic(s)
    # on (next obs, clamp_[min,max](target actor(next obs) + clamp_[-c,c](noise))), the smaller twin for TD3
    class SymT:
        def __init__(self, term):
            self.term = term

        def __eq__(self, other):
            return isinstance(other, SymT) and other.term == self.term

        def __hash__(self):
            return hash(repr(self.term))

        def __repr__(self):
            return f"SymT{self.term!r}"

        def binop(self, ex, st, op, other, swapped):
            a_, b_ = (other, self) if swapped else (self, other)
            return SymT((type(op).__name__, a_, b_))

        def getattr(self, ex, st, name):
            if name == "to":
                return Fn(model=lambda ex, st, a, k: self, name="to")
            raise Undecided(f"tensor attribute {name}")

    class NetS2:
        def __init__(self, name):
            self.name = name

        def call(self, ex, st, args, kwargs):
            return SymT(("value", self.name, tuple(args)))
    P.lib["torch.randn_like"] = lambda ex, st, a, k: SymT(("randn-like", a[0]))
    _old_min = P.lib["torch.min"]
    P.lib["torch.min"] = lambda ex, st, a, k: SymT(("min", frozenset(a))) if all(isinstance(x, SymT) for x in a) else _old_min(ex, st, a, k)
    OBS_, ACT_, NXT_ = SymT("obs"), SymT("action"), SymT("next_obs")
    PN, NC = z3.Real("policy_noise"), z3.Real("noise_clip")
    MINA, MAXA = SymT("min_action"), SymT("max_action")

    def ac_self(cls, names):
        def mk(ex, st, label):
            o = Obj("model." + cls, label="self")
            o.fields.update({n: NetS2(n) for n in names})
            o.fields.update(dict(device="cpu", gamma=gamma, min_action=MINA, max_action=MAXA,
                                 multi_dim_clamp=Fn(model=lambda ex, st, a, k: SymT(("clamp", a[0], a[1], a[2])), name="multi_dim_clamp")))
            return o
        return mk
    smoothed = SymT(("clamp", MINA, MAXA, SymT(("Add", SymT(("value", "actor_target", (NXT_,))),
                                                      SymT(("clamp", -NC, NC, SymT(("Mult", SymT(("randn-like", ACT_)), PN))))))))

    def same(x, y):
        return z3.BoolVal(bool(x == y))
    P.specns.update(dict(same=same, q_online=lambda n: SymT(("value", n, (OBS_, ACT_))), q_boot=lambda n: SymT(("value", n, (NXT_, smoothed))),
                         q_boot_twin=SymT(("min", frozenset([SymT(("value", "critic_target_1", (NXT_, smoothed))), SymT(("value", "critic_target_2", (NXT_, smoothed)))])))))
    raw_next = SymT(("value", "actor_target", (NXT_,)))
    # DDPG as published has no target smoothing: the bootstrap action may be the target actor's action as is, clamped to the action
    # space, or smoothed with clipped noise (what the code does); anything else (online actor, unclipped noise, other observation) is not
    ddpg_next_ok = [raw_next, SymT(("clamp", MINA, MAXA, raw_next)), smoothed]
    P.specns["q_boot_ddpg"] = lambda v: z3.BoolVal(any(v == SymT(("value", "critic_target", (NXT_, x))) for x in ddpg_next_ok))
    P.contract("agilerl.algorithms.ddpg.DDPG.learn", variant="value-sources",
               region=region("q_value = ", "with torch.no_grad()"),
               params={"self": ac_self("DDPG", ["actor", "actor_target", "critic", "critic_target"]), "experiences": "opaque",
                       "noise_clip": (lambda ex, st, l: NC), "policy_noise": (lambda ex, st, l: PN), "obs": (lambda ex, st, l: OBS_),
                       "actions": (lambda ex, st, l: ACT_), "next_obs": (lambda ex, st, l: NXT_), "rewards": "opaque", "dones": "opaque"},
               requires=[], frame_fields=False, ensures=["same(q_value, q_online('critic'))", "q_boot_ddpg(q_value_next_state)"],
               replay="c08:bellman")
    P.contract("agilerl.algorithms.td3.TD3.learn", variant="value-sources",
               region=region("q_value_1 = ", "with torch.no_grad()"),
               params={"self": ac_self("TD3", ["actor", "actor_target", "critic_1", "critic_2", "critic_target_1", "critic_target_2"]), "experiences": "opaque",
                       "noise_clip": (lambda ex, st, l: NC), "policy_noise": (lambda ex, st, l: PN), "states": (lambda ex, st, l: OBS_),
                       "actions": (lambda ex, st, l: ACT_), "next_states": (lambda ex, st, l: NXT_), "rewards": "opaque", "dones": "opaque"},
               requires=[], frame_fields=False,
               ensures=["same(q_value_1, q_online('critic_1'))", "same(q_value_2, q_online('critic_2'))", "same(q_value_next_state, q_boot_twin)"],
               replay="c08:bellman")

    # the delayed actor / target updates of DDPG and TD3: after the counter is advanced, the target networks are blended (each with its OWN
    # online network) exactly when the new counter is a multiple of policy_freq, and not at all otherwise
    class LossV:
        def __neg__(self):
            return self

        def binop(self, ex, st, op, other, swapped):
            return self

        def getattr(self, ex, st, name):
            if name in ("backward", "item", "mean", "detach"):
                return Fn(model=lambda ex, st, a, k: (self if name in ("mean", "detach") else None), name=name)
            raise Undecided(f"loss attribute {name}")
    _symt_getattr = SymT.getattr

    def symt_getattr(self, ex, st, name):
        if name == "mean":
            return Fn(model=lambda ex, st, a, k: LossV(), name=name)
        return _symt_getattr(self, ex, st, name)
    SymT.getattr = symt_getattr

    class OptS:
        def getattr(self, ex, st, name):
            if name in ("zero_grad", "step"):
                return Fn(model=lambda ex, st, a, k: None, name=name)
            raise Undecided(f"optimizer attribute {name}")
    C0, PF = z3.Int("learn_counter_before"), z3.Int("policy_freq")
    P.axioms += [C0 >= 0, PF >= 1]
    blended = []

    def delayed_self(cls, names, opts):
        def mk(ex, st, label):
            blended.clear()
            o = Obj("model." + cls, label="self")
            o.fields.update({n: NetS2(n) for n in names})
            o.fields.update({n: OptS() for n in opts})
            o.fields.update(dict(learn_counter=C0, policy_freq=PF, accelerator=None,
                                 soft_update=Fn(model=lambda ex, st, a, k: blended.append((getattr(a[0], "name", None), getattr(a[1], "name", None))), name="soft_update")))
            return o
        return mk

    def delayed_ok(agent, pairs):
        due = (C0 + 1) % PF == 0
        got = sorted(blended)
        return z3.And(z3ify(agent.fields["learn_counter"]) == C0 + 1, z3.Implies(due, z3.BoolVal(got == sorted(pairs))),
                      z3.Implies(z3.Not(due), z3.BoolVal(got == [])))
    P.specns.update(dict(delayed_ddpg=lambda a: delayed_ok(a, [("actor", "actor_target"), ("critic", "critic_target")]),
                         delayed_td3=lambda a: delayed_ok(a, [("actor", "actor_target"), ("critic_1", "critic_target_1"), ("critic_2", "critic_target_2")])))
    tail = region("self.learn_counter += 1", "if self.learn_counter % self.policy_freq")
    P.contract("agilerl.algorithms.ddpg.DDPG.learn", variant="delayed-updates", region=tail,
               params={"self": delayed_self("DDPG", ["actor", "actor_target", "critic", "critic_target"], ["actor_optimizer", "critic_optimizer"]),
                       "experiences": "opaque", "noise_clip": "opaque", "policy_noise": "opaque", "obs": (lambda ex, st, l: OBS_),
                       "critic_loss": (lambda ex, st, l: LossV())},
               requires=[], frame_fields=False, ensures=["delayed_ddpg(self)"], replay="c08:soft_update")
    P.contract("agilerl.algorithms.td3.TD3.learn", variant="delayed-updates", region=tail,
               params={"self": delayed_self("TD3", ["actor", "actor_target", "critic_1", "critic_2", "critic_target_1", "critic_target_2"],
                                            ["actor_optimizer", "critic_1_optimizer", "critic_2_optimizer"]),
                       "experiences": "opaque", "noise_clip": "opaque", "policy_noise": "opaque", "states": (lambda ex, st, l: OBS_),
                       "critic_loss": (lambda ex, st, l: LossV())},
               requires=[], frame_fields=False, ensures=["delayed_td3(self)"], replay="c08:soft_update")

    # multi-agent tails: MADDPG.learn blends every agent's target actor and critic with ITS OWN online networks after every learn step;
    # MATD3.learn does so for the three pairs of every agent exactly when the (already advanced) counter is a multiple of policy_freq
    CNOW = z3.Int("learn_counter_now")

    def ma_tail_self(cls, groups):
        def mk(ex, st, label):
            blended.clear()
            o = Obj("model." + cls, label="self")
            for gname in groups:
                o.fields[gname] = [NetS2(f"{gname}[{i}]") for i in range(3)]
            o.fields.update(dict(policy_freq=PF, learn_counter={"agent_0": CNOW, "agent_1": CNOW, "other_0": CNOW}, agent_ids=["agent_0", "agent_1", "other_0"],
                                 soft_update=Fn(model=lambda ex, st, a, k: blended.append((getattr(a[0], "name", None), getattr(a[1], "name", None))), name="soft_update")))
            return o
        return mk

    def ma_blended(pairs, due):
        want = sorted((f"{a_}[{i}]", f"{b_}[{i}]") for a_, b_ in pairs for i in range(3))
        got = sorted(blended)
        return z3.And(z3.Implies(due, z3.BoolVal(got == want)), z3.Implies(z3.Not(due), z3.BoolVal(got == [])))
    P.specns.update(dict(
        maddpg_blended=lambda: ma_blended([("actors", "actor_targets"), ("critics", "critic_targets")], z3.BoolVal(True)),
        matd3_blended=lambda: ma_blended([("actors", "actor_targets"), ("critics_1", "critic_targets_1"), ("critics_2", "critic_targets_2")], CNOW % PF == 0)))
    P.contract("agilerl.algorithms.maddpg.MADDPG.learn", variant="target-updates",
               region=region("for actor, actor_target, critic, critic_target in zip", "for actor, actor_target, critic, critic_target in zip"),
               params={"self": ma_tail_self("MADDPG", ["actors", "actor_targets", "critics", "critic_targets"]), "experiences": "opaque", "loss_dict": "opaque"},
               requires=[], frame_fields=False, ensures=["maddpg_blended()"], replay="c08:soft_update")
    P.contract("agilerl.algorithms.matd3.MATD3.learn", variant="target-updates",
               region=region("if self.learn_counter[agent_id] % self.policy_freq", "if self.learn_counter[agent_id] % self.policy_freq"),
               params={"self": ma_tail_self("MATD3", ["actors", "actor_targets", "critics_1", "critic_targets_1", "critics_2", "critic_targets_2"]),
                       "experiences": "opaque", "loss_dict": "opaque", "agent_id": (lambda ex, st, l: "other_0")},
               requires=[], frame_fields=False, ensures=["matd3_blended()"], replay="c08:soft_update")

    # DQN.update, one generic batch row with NA actions (symbolic): plain DQN bootstraps with max_a Q_target(s', a); double DQN with
    # Q_target(s', argmax_a Q_online(s', a)); the regressed value is Q_online(s, stored action); the criterion gets exactly (that, y_j)
    NA = z3.Int("n_actions")
    QF = z3.Function("q_row", z3.IntSort(), z3.IntSort(), z3.IntSort(), z3.RealSort())      # (network id, input id, action) -> value
    NETID = {"actor": 1, "actor_target": 2}
    INID = {"obs": 1, "next_obs": 2}
    a_q = z3.Int("a!q")

    class IdxV:
        def __init__(self, i):
            self.i = i

        def getattr(self, ex, st, name):
            if name in ("unsqueeze", "long", "squeeze"):
                return Fn(model=lambda ex, st, a, k: self, name=name)
            if name == "ndim":
                return 2
            raise Undecided(f"index attribute {name}")

    class RowQ:
        def __init__(self, net, inp):
            self.net, self.inp = net, inp

        def q(self, i):
            return QF(self.net, self.inp, i)

        def best(self, st):
            i = z3.Int(fresh_name("argmax"))
            st.assume(z3.And(0 <= i, i < NA, z3.ForAll([a_q], z3.Implies(z3.And(0 <= a_q, a_q < NA), self.q(i) >= self.q(a_q)))))
            return i

        def getattr(self, ex, st, name):
            if name == "argmax":
                return Fn(model=lambda ex, st, a, k: IdxV(self.best(st)), name=name)
            if name == "max":
                def mx(ex, st, a, k):
                    i = self.best(st)
                    return (El(self.q(i)), IdxV(i))
                return Fn(model=mx, name=name)
            if name == "gather":
                def gather(ex, st, a, k):
                    idx = k.get("index", a[1] if len(a) > 1 else None)
                    if not isinstance(idx, IdxV):
                        raise Undecided("gather with a non-index")
                    return El(self.q(idx.i))
                return Fn(model=gather, name=name)
            if name == "detach":
                return Fn(model=lambda ex, st, a, k: self, name=name)
            if name == "mean":
                return Fn(model=lambda ex, st, a, k: El(z3.Real(fresh_name("mean"))), name=name)
            raise Undecided(f"q-row attribute {name}")

    class QNet:
        def __init__(self, name):
            self.name = name

        def call(self, ex, st, args, kwargs):
            if not isinstance(args[0], str) or args[0] not in INID:
                raise Undecided("network applied to an unknown input")
            return RowQ(NETID[self.name], INID[args[0]])
    crit = []
    ACT_I = z3.Int("stored_action")
    P.axioms += [NA >= 1, 0 <= ACT_I, ACT_I < NA]
    for dbl in (False, True):
        def dqn_self(ex, st, label, dbl=dbl):
            crit.clear()
            o = Obj("model.DQN", label="self")
            o.fields.update(dict(double=dbl, gamma=gamma, accelerator=None, actor=QNet("actor"), actor_target=QNet("actor_target"),
                                 criterion=Fn(model=lambda ex, st, a, k: (crit.append((a[0], a[1])), Opaque("loss"))[1], name="criterion"),
                                 optimizer=Opaque("optimizer")))
            return o

        def dqn_post(dbl=dbl):
            if len(crit) != 1 or not all(isinstance(x, El) for x in crit[0]):
                return z3.BoolVal(False)
            q_eval, y = crit[0][0].t, crit[0][1].t
            b = z3.Real("bootstrap")
            j = z3.Int("j!sel")
            sel = z3.And(0 <= j, j < NA, z3.ForAll([a_q], z3.Implies(z3.And(0 <= a_q, a_q < NA), QF(1, 2, j) >= QF(1, 2, a_q))))
            if dbl:          # value of the TARGET net at an action that is greedy for the ONLINE net on the next observation
                boot = z3.Exists([j], z3.And(sel, y == r + gamma * QF(2, 2, j) * (1 - d)))
            else:            # the largest target value over the actions
                boot = z3.Exists([j], z3.And(0 <= j, j < NA, z3.ForAll([a_q], z3.Implies(z3.And(0 <= a_q, a_q < NA), QF(2, 2, j) >= QF(2, 2, a_q))),
                                             y == r + gamma * QF(2, 2, j) * (1 - d)))
            return z3.And(q_eval == QF(1, 1, ACT_I), boot, z3.Implies(d == 1, y == r))
        tag = "double" if dbl else "plain"
        P.specns["dqn_post_" + tag] = dqn_post
        P.contract("agilerl.algorithms.dqn.DQN.update", variant="sources-" + tag,
                   region=region("with torch.no_grad()", "loss: torch.Tensor = self.criterion") if False else region("with torch.no_grad()", "loss"),
                   params={"self": dqn_self, "obs": (lambda ex, st, l: "obs"), "next_obs": (lambda ex, st, l: "next_obs"),
                           "actions": (lambda ex, st, l: IdxV(ACT_I)), "rewards": elr, "dones": eld},
                   requires=[], frame_fields=False, ensures=[f"dqn_post_{tag}()"], replay="c08:bellman")

        # CQN.learn: the same sources (the conservative term is an extra summand of the minimised quantity and is not constrained here)
        def cqn_self(ex, st, label, mk=dqn_self):
            o = mk(ex, st, label)
            o.cls = "model.CQN"
            return o

        class _LSE:
            def getattr(self, ex, st, name):
                if name == "mean":
                    return Fn(model=lambda ex, st, a, k: El(z3.Real(fresh_name("lse"))), name=name)
                raise Undecided(f"logsumexp attribute {name}")
        P.lib["torch.logsumexp"] = lambda ex, st, a, k: _LSE()
        P.contract("agilerl.algorithms.cqn.CQN.learn", variant="sources-" + tag,
                   region=region("if self.double", "loss = self.criterion"),
                   params={"self": cqn_self, "experiences": "opaque", "states": (lambda ex, st, l: "obs"), "next_states": (lambda ex, st, l: "next_obs"),
                           "actions": (lambda ex, st, l: IdxV(ACT_I)), "rewards": elr, "dones": eld},
                   requires=[], frame_fields=False, ensures=[f"dqn_post_{tag}()"], replay="c08:bellman")

    # ------------------------------------------------------------------ (3) wiring (AST of the real functions)
    def src(qual):
        from pyvc import front
        owner, m, fn = front.find_function(qual)
        return " ".join(ast.unparse(fn).split())

    def wiring():
        s = {k: src(k) for k in ("agilerl.algorithms.dqn.DQN.update", "agilerl.algorithms.dqn.DQN.learn", "agilerl.algorithms.cqn.CQN.learn",
                                 "agilerl.algorithms.ddpg.DDPG.learn", "agilerl.algorithms.td3.TD3.learn",
                                 "agilerl.algorithms.dqn_rainbow.RainbowDQN.learn")}
        checks = {
            "dqn target net on next_obs": "q_target = self.actor_target(next_obs).max(axis=1)[0].unsqueeze(1)" in s["agilerl.algorithms.dqn.DQN.update"]
            and "self.actor_target(next_obs).gather(dim=1, index=q_idx)" in s["agilerl.algorithms.dqn.DQN.update"],
            "dqn learn: update then soft_update": s["agilerl.algorithms.dqn.DQN.learn"].find("self.update(obs, actions, rewards, next_obs, dones)") <
            s["agilerl.algorithms.dqn.DQN.learn"].find("self.soft_update()") and "self.soft_update()" in s["agilerl.algorithms.dqn.DQN.learn"],
            "cqn target net on next_states": "self.actor_target(next_states).detach().max(axis=1)[0].unsqueeze(1)" in s["agilerl.algorithms.cqn.CQN.learn"]
            and "self.soft_update()" in s["agilerl.algorithms.cqn.CQN.learn"],
            "ddpg target critic on target actor": "next_actions = self.actor_target(next_obs)" in s["agilerl.algorithms.ddpg.DDPG.learn"]
            and "q_value_next_state = self.critic_target(next_obs, next_actions)" in s["agilerl.algorithms.ddpg.DDPG.learn"],
            "ddpg delayed soft updates": "if self.learn_counter % self.policy_freq == 0:" in s["agilerl.algorithms.ddpg.DDPG.learn"]
            and all(x in s["agilerl.algorithms.ddpg.DDPG.learn"].split("if self.learn_counter % self.policy_freq == 0:")[1]
                    for x in ("self.soft_update(self.actor, self.actor_target)", "self.soft_update(self.critic, self.critic_target)")),
            "td3 min of twin target critics": "q_value_next_state = torch.min(q_value_next_state_1, q_value_next_state_2)" in s["agilerl.algorithms.td3.TD3.learn"]
            and "self.critic_target_1(next_states, next_actions)" in s["agilerl.algorithms.td3.TD3.learn"]
            and "self.critic_target_2(next_states, next_actions)" in s["agilerl.algorithms.td3.TD3.learn"],
            "td3 three delayed soft updates": all(x in s["agilerl.algorithms.td3.TD3.learn"].split("if self.learn_counter % self.policy_freq == 0:")[-1]
                                                for x in ("self.soft_update(self.actor, self.actor_target)",
                                                          "self.soft_update(self.critic_1, self.critic_target_1)",
                                                          "self.soft_update(self.critic_2, self.critic_target_2)")),
            "rainbow n-step uses n-step fields": s["agilerl.algorithms.dqn_rainbow.RainbowDQN.learn"].count("n_dones = n_experiences['done']") == 2
            and "n_dones = experiences['done']" not in s["agilerl.algorithms.dqn_rainbow.RainbowDQN.learn"]
            and "self.soft_update()" in s["agilerl.algorithms.dqn_rainbow.RainbowDQN.learn"],
        }
        bad = [k for k, v in checks.items() if not v]
        return not bad, ("all wiring facts hold: " + ", ".join(checks)) if not bad else ("wiring facts violated: " + ", ".join(bad))
    P.syntactic.append(("learners.target-sources-and-updates", wiring))
    P.native.append(dict(name="tracking", adapter="c08:soft_update", thorough_only=True, payload={"mode": "search"},
                         bound="DQN (plain/double), CQN, RainbowDQN, DDPG, TD3: consecutive learn steps on random batches, directly and after clone; "
                               "every target weight = tau*online + (1-tau)*previous when an update is due, unchanged otherwise"))
    P.native.append(dict(name="done_masks_next_obs", adapter="c08:bellman", thorough_only=True, payload={"mode": "search"},
                         bound="DQN, CQN, DDPG, TD3: batches of done transitions, same seed, only next_obs differs: updated weights identical"))
    P.assumptions += ["A-REAL; done flags are 0/1", "Q_target is an arbitrary real (network outputs are free)",
                      "that the minimised quantity is the stated loss needs autograd semantics (trusted, DESIGN 6)"]
    P.uncovered += ["that the centralised critics of MADDPG/MATD3 consume their two inputs in the stacked order (nn forward); agent_ids absent from a sampled batch",
                    "the loss value minimised by backward()/step() (autograd)", "float effects (0*inf)"]
    return P
