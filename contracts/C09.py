"""C09 — replay buffers hold exactly the last min(N, added) transitions (DESIGN.md section 5, C09)."""
import z3

from pyvc.main import Prop
from . import lib, rb_common as R

RB = R.RB


def build(tier):
    P = Prop("C09")
    R.install(P)
    P.shape("RB", RB + "ReplayBuffer", R.rb_fields())
    R.rb_contracts(P, verify=True)
    ma_contracts(P)
    P.assumptions += ["A-INT64: tensor indices treated as mathematical integers",
                      "a TensorDict row is one abstract value: fields of one transition are written by one row assignment"]
    P.uncovered += ["per-field shape normalisation in Transition.__post_init__ (components/data.py) and MultiAgentReplayBuffer.stack_transitions (numpy stacking) - not under contract",
                    "vector/image/dict/tuple observation kinds are abstracted by the row model (the code under contract is kind-agnostic)"]
    P.native.append(dict(name='rb_add', adapter='c09:rb_add', thorough_only=True, payload={"mode": "search"},
                         bound='add/clear/sample sequences against a reference ring buffer (capacity 1-7, batch widths 1-4, wrap at/over the end)'))
    P.native.append(dict(name='ma_buffer', adapter='c09:ma_buffer', thorough_only=True, payload={"mode": "search"},
                         bound='MultiAgentReplayBuffer sequences incl. dict / tuple observations'))
    return P


# ====================================================================================== MultiAgentReplayBuffer
import ast as _ast                                                                  # noqa: E402
from pyvc.execu import z3ify                                                        # noqa: E402
from pyvc.values import Fn, Obj, Opaque, PyRaise, Seq, Undecided, fresh_name        # noqa: E402

MA = "agilerl.components.multi_agent_replay_buffer.MultiAgentReplayBuffer"
FIELDS, AGENTS = ["obs", "reward"], ["agent_0", "agent_1"]
Val = z3.DeclareSort("MAVal")
Exp = z3.DeclareSort("Experience")
mkexp = z3.Function("mkexp", Val, Val, Val, Val, Exp)                  # (obs[a0], obs[a1], reward[a0], reward[a1])
PROJ = {(f, a): z3.Function(f"{f}_of_{a}", Exp, Val) for f in FIELDS for a in AGENTS}


def exp_axioms():
    vs = [z3.Const(f"v{i}!ma", Val) for i in range(4)]
    e = mkexp(*vs)
    keys = [(f, a) for f in FIELDS for a in AGENTS]
    return [z3.ForAll(vs, z3.And(*[PROJ[k](e) == v for k, v in zip(keys, vs)]), patterns=[e])]


class ExpV:
    def __init__(self, term):
        self.term = term

    def getattr_dyn(self, ex, st, name, default=()):
        return self.getattr(ex, st, name)

    def getattr(self, ex, st, name):
        if name in FIELDS:
            return {a: PROJ[(name, a)](self.term) for a in AGENTS}
        raise Undecided(f"experience field {name}")


def wrap_exp(t):
    return ExpV(t)


class DequeM:
    """collections.deque(maxlen=N) of experiences (trusted): append keeps the last N items in order."""

    def __init__(self, maxlen, seq):
        self.maxlen, self.seq = maxlen, seq

    def length(self, ex, st):
        return self.seq.len

    def getattr(self, ex, st, name):
        if name == "append":
            def append(ex, st, a, k):
                e = a[0]
                if not isinstance(e, ExpV):
                    raise Undecided("append of a non-experience")
                n, N = z3ify(self.seq.len), z3ify(self.maxlen)
                j = z3.Int(fresh_name("j"))
                new = z3.Const(fresh_name("memory"), self.seq.arr.sort())
                full = n >= N
                st.assume(z3.ForAll([j], new[j] == z3.If(full, z3.If(j == N - 1, e.term, self.seq.arr[j + 1]), z3.If(j == n, e.term, self.seq.arr[j]))))
                self.seq.arr = new
                self.seq.len = z3.simplify(z3.If(full, N, n + 1))
            return Fn(model=append, name="append")
        raise Undecided(f"deque attribute {name}")

    def havoc(self, ex, st, name):
        self.seq.arr = z3.Const(fresh_name("memory"), self.seq.arr.sort())
        self.seq.len = z3.Int(fresh_name("memory.len"))
        st.assume(z3.And(self.seq.len >= 0, self.seq.len <= z3ify(self.maxlen)))


class StackV:
    """result of stack_transitions: row b is the b-th value of the list"""

    def __init__(self, seq):
        self.seq = seq

    def getattr(self, ex, st, name):
        if name == "astype":
            return Fn(model=lambda ex, st, a, k: self, name=name)
        raise Undecided(name)


def ma_contracts(P):
    P.axioms += exp_axioms()
    N = z3.Int("memory_size")
    H = z3.Const("MAH", z3.ArraySort(z3.IntSort(), Exp))          # ghost history of everything ever added
    TOT = z3.Int("ma_tot")
    P.axioms += [N >= 1]

    def ma_self(ex, st, label):
        o = Obj(MA, label="self")
        seq = Seq.new("Experience", "memory")
        seq.wrap = wrap_exp
        o.fields.update(dict(memory_size=N, memory=DequeM(N, seq), field_names=list(FIELDS), agent_ids=list(AGENTS), counter=z3.Int("counter"), device=None,
                             experience=Fn(model=lambda ex, st, a, k: ExpV(mkexp(*[a[fi][ag] for fi in range(len(FIELDS)) for ag in AGENTS])), name="Experience")))
        return o

    def MA_INV(b, H_, tot):
        m = b.fields["memory"].seq
        i = z3.Int("i!ma")
        n = z3.If(tot < N, tot, N)
        return z3.And(tot >= 0, m.len == n, z3.ForAll([i], z3.Implies(z3.And(0 <= i, i < n), m.arr[i] == H_[tot - n + i]), patterns=[m.arr[i]]))
    e_new = lambda args: mkexp(*[args[fi][ag] for fi in range(len(FIELDS)) for ag in AGENTS])
    P.specns.update(dict(MA_INV=MA_INV, MAH=H, ma_tot=TOT, e_new=e_new, Store=z3.Store))
    args1 = lambda ex, st, l: tuple({a: z3.Const(f"arg.{f}.{a}", Val) for a in AGENTS} for f in FIELDS)
    P.contract(MA + ".save_to_memory_single_env", params={"self": ma_self, "args": args1},
               requires=["MA_INV(self, MAH, ma_tot)"], frame_fields=False,
               ensures=["MA_INV(self, Store(MAH, ma_tot, e_new(args)), ma_tot + 1)",      # exactly the last min(N, added) experiences, in order
                        "self.counter == old(self.counter) + 1"], replay="c09:ma_buffer")
    P.contract(MA + ".__len__", params={"self": ma_self}, requires=["MA_INV(self, MAH, ma_tot)"], frame_fields=False,
               ensures=["result == (ma_tot if ma_tot < memory_size else memory_size)"], replay="c09:ma_buffer")
    P.specns["memory_size"] = N

    # vectorised save: every per-env slice keeps the fields and agents of ONE environment together (E enumerated 1..3, values symbolic)
    for E in (1, 2, 3):
        def argsE(ex, st, l, E=E):
            return tuple({a: [z3.Const(f"vec.{f}.{a}.{i}", Val) for i in range(E)] for a in AGENTS} for f in FIELDS)

        def reorg_post(result, args, E=E):
            if not (isinstance(result, tuple) and len(result) == len(FIELDS)):
                return z3.BoolVal(False)
            out = []
            for j in range(len(FIELDS)):
                if not (isinstance(result[j], list) and len(result[j]) == E):
                    return z3.BoolVal(False)
                for i in range(E):
                    d = result[j][i]
                    if not (isinstance(d, dict) and set(d) == set(AGENTS)):
                        return z3.BoolVal(False)
                    out += [z3ify(d[a]) == args[j][a][i] for a in AGENTS]      # results[field][env][agent] == args[field][agent][env]
            return z3.And(*out)
        P.specns[f"reorg_post_{E}"] = reorg_post
        P.contract(MA + "._reorganize_dicts", variant=f"E{E}", params={"self": ma_self, "args": argsE}, requires=[], frame_fields=False,
                   ensures=[f"reorg_post_{E}(result, args)"], replay="c09:ma_buffer")

        # dict / tuple observations: the first field of every agent is a dict (two sub-spaces) or a tuple (two parts) of per-env lists
        for kind in ("dict", "tuple"):
            def argsK(ex, st, l, E=E, kind=kind):
                def obs(a):
                    parts = {k: [z3.Const(f"vec.obs.{a}.{k}.{i}", Val) for i in range(E)] for k in ("x", "y")}
                    return parts if kind == "dict" else (parts["x"], parts["y"])
                return tuple(({a: obs(a) for a in AGENTS} if fi == 0 else {a: [z3.Const(f"vec.{f}.{a}.{i}", Val) for i in range(E)] for a in AGENTS})
                             for fi, f in enumerate(FIELDS))

            def reorg_post_k(result, args, E=E, kind=kind):
                if not (isinstance(result, tuple) and len(result) == len(FIELDS)):
                    return z3.BoolVal(False)
                out = []
                for j in range(len(FIELDS)):
                    if not (isinstance(result[j], list) and len(result[j]) == E):          # one entry per ENVIRONMENT
                        return z3.BoolVal(False)
                    for i in range(E):
                        d = result[j][i]
                        if not (isinstance(d, dict) and set(d) == set(AGENTS)):
                            return z3.BoolVal(False)
                        for a in AGENTS:
                            if j == 0:
                                got = d[a]
                                src = args[0][a]
                                if kind == "dict":
                                    if not (isinstance(got, dict) and set(got) == {"x", "y"}):
                                        return z3.BoolVal(False)
                                    out += [z3ify(got[k]) == src[k][i] for k in ("x", "y")]
                                else:
                                    if not (isinstance(got, tuple) and len(got) == 2):
                                        return z3.BoolVal(False)
                                    out += [z3ify(got[p]) == src[p][i] for p in range(2)]
                            else:
                                out.append(z3ify(d[a]) == args[j][a][i])
                return z3.And(*out)
            P.specns[f"reorg_post_{kind}_{E}"] = reorg_post_k
            P.contract(MA + "._reorganize_dicts", variant=f"{kind}-obs-E{E}", params={"self": ma_self, "args": argsK}, requires=[], frame_fields=False,
                       ensures=[f"reorg_post_{kind}_{E}(result, args)"], replay="c09:ma_buffer")

        def hist_after(args, E=E):
            h = H
            for i in range(E):
                h = z3.Store(h, TOT + i, mkexp(*[args[fi][ag][i] for fi in range(len(FIELDS)) for ag in AGENTS]))
            return h
        P.specns[f"hist_after_{E}"] = hist_after
        P.contract(MA + ".save_to_memory_vect_envs", variant=f"E{E}", params={"self": ma_self, "args": argsE},
                   requires=["MA_INV(self, MAH, ma_tot)"], frame_fields=False,
                   ensures=[f"MA_INV(self, hist_after_{E}(old(args)), ma_tot + {E})", f"self.counter == old(self.counter) + {E}"], replay="c09:ma_buffer")
    P.lib["numpy.array"] = lambda ex, st, a, k: a[0]

    # sampling: batch rows come from stored experiences, row b of EVERY field and agent from the same experience b
    BS = z3.Int("batch_size")

    def rsample(ex, st, a, k):
        mem, n = a[0], k.get("k", a[1] if len(a) > 1 else None)
        if not isinstance(mem, DequeM):
            raise Undecided("random.sample of unknown population")
        idx = Seq.new("int", "sample_idx", n)
        p, q = z3.Int(fresh_name("p")), z3.Int(fresh_name("q"))
        nz, mz = z3ify(n), z3ify(mem.seq.len)
        if ex.feasible(st, z3.Or(nz < 0, nz > mz)):
            if ex.decide(st, z3.Or(nz < 0, nz > mz)):
                raise PyRaise("ValueError", "sample larger than population")
        st.assume(z3.ForAll([p], z3.Implies(z3.And(0 <= p, p < nz), z3.And(0 <= idx.arr[p], idx.arr[p] < mz)), patterns=[idx.arr[p]]))
        st.assume(z3.ForAll([p, q], z3.Implies(z3.And(0 <= p, p < q, q < nz), idx.arr[p] != idx.arr[q])))
        out = Seq.new("Experience", "sampled", n)
        out.wrap = wrap_exp
        st.assume(z3.ForAll([p], z3.Implies(z3.And(0 <= p, p < nz), out.arr[p] == mem.seq.arr[idx.arr[p]]), patterns=[out.arr[p]]))
        out.idx = idx
        rsample.last = (out, idx)
        return out
    P.lib["random.sample"] = rsample
    P.lib[MA + ".stack_transitions"] = lambda ex, st, a, k: StackV(a[0])
    P.lib["agilerl.utils.algo_utils.obs_to_tensor"] = lambda ex, st, a, k: a[0]

    def sample_post(result, b):
        if not (isinstance(result, tuple) and len(result) == len(FIELDS)):
            return z3.BoolVal(False)
        out_seq, idx = rsample.last
        m = b.fields["memory"].seq
        k = z3.Int("k!sp")
        out = []
        for fi, f in enumerate(FIELDS):
            d = result[fi]
            if not (isinstance(d, dict) and set(d) == set(AGENTS)):
                return z3.BoolVal(False)
            for a in AGENTS:
                s = d[a]
                if not isinstance(s, StackV):
                    return z3.BoolVal(False)
                out.append(z3ify(s.seq.len) == BS)
                out.append(z3.ForAll([k], z3.Implies(z3.And(0 <= k, k < BS), s.seq.arr[k] == PROJ[(f, a)](m.arr[idx.arr[k]]))))   # same stored experience for all fields/agents
        return z3.And(*out)
    P.specns["sample_post"] = sample_post
    P.contract(MA + ".sample", params={"self": ma_self, "batch_size": (lambda ex, st, l: BS), "args": (lambda ex, st, l: ())},
               requires=["MA_INV(self, MAH, ma_tot)", "0 <= batch_size", "batch_size <= len(self.memory)"], frame_fields=False,
               ensures=["sample_post(result, self)"], replay="c09:ma_buffer")
    P.trusted += ["collections.deque(maxlen=N).append keeps the last N items in order; random.sample(pop, k) returns k items at pairwise distinct positions; "
                  "namedtuple experiences as an uninterpreted constructor with projections; stack_transitions stacks the list row by row (numpy, not under contract)",
                  "MultiAgentReplayBuffer: two fields x two agents (structure concrete, values symbolic); vectorised save enumerated for 1..3 environments"]
