"""C09 — replay buffers hold exactly the last min(N, added) transitions (DESIGN.md section 5, C09)."""
import z3

from pyvc.main import Prop
from . import lib, rb_common as R

RB = R.RB


def build(tier):
    P = Prop("C09")
    R.install(P)
    P.shape("RB", RB + "ReplayBuffer", R.rb_fields())
    R.rb_contracts(P, verify=True)
    P.assumptions += ["A-INT64: tensor indices treated as mathematical integers",
                      "a TensorDict row is one abstract value: fields of one transition are written by one row assignment"]
    P.uncovered += ["per-field shape normalisation in Transition.__post_init__ (components/data.py) - bounded native check only",
                    "vector/image/dict/tuple observation kinds are abstracted by the row model (the code under contract is kind-agnostic)"]
    return P
