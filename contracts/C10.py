"""C10 — n-step returns never cross an episode boundary (DESIGN.md section 5, C10).

Model (trusted): the n-step window (a deque of TensorDicts, one per time step, batch dimension = parallel envs)
is a sequence of *transition records*.  Step k of the window is described by uninterpreted functions of
(step k, env e):  r(k,e) reward, d(k,e) done flag (0/1), o(k,e) obs, a(k,e) action, no(k,e) next_obs.
A TensorDict value is a dict of per-env vectors (`Vec`, a z3 array over the env index).
"""
import ast

import z3

from pyvc.execu import to_bool, z3ify
from pyvc.main import Prop
from pyvc.values import Fn, Obj, Opaque, Opt, PyRaise, Seq, Undecided, fresh_name, is_sym
from . import lib, rb_common as R

RB = R.RB
I, Re = z3.IntSort(), z3.RealSort()
Val = z3.DeclareSort("Val")
r_ = z3.Function("r", I, I, Re)
d_ = z3.Function("d", I, I, Re)
o_ = z3.Function("o", I, I, Val)
a_ = z3.Function("a", I, I, Val)
no_ = z3.Function("no", I, I, Val)
mkrow = z3.Function("mkrow", Val, Val, Re, Val, Re, R.Row)
Dsum = z3.Function("Dsum", I, I, Re)      # Dsum(e, j) = sum_{k<=j} gamma^k * r(k, e)   (recursive definition, unfolded explicitly)
POW = z3.Function("pow", Re, Re, Re)
GAMMA = z3.Real("gamma")
E = z3.Int("E")
B = z3.Int("B")                           # absolute stream position of the first element of the window                           # number of parallel environments
KEYS = ("obs", "action", "reward", "next_obs", "done")
SORT = {"obs": Val, "action": Val, "reward": Re, "next_obs": Val, "done": Re}


class Vec:
    """Per-env vector: arr : Int -> sort."""

    def __init__(self, arr, sort):
        self.arr, self.sort = arr, sort

    def getattr(self, ex, st, name):
        if name in ("clone", "detach", "to", "cpu", "float"):
            return Fn(model=lambda ex, st, a, k: Vec(self.arr, self.sort), name=name)
        if name == "bool":
            e = z3.Int("e!b")
            return Fn(model=lambda ex, st, a, k: Vec(z3.Lambda([e], self.arr[e] != 0), z3.BoolSort()), name="bool")
        if name in ("any", "all"):
            e = z3.Int(fresh_name("e"))
            rng = z3.And(e >= 0, e < E)
            b = self.arr[e] if self.sort == z3.BoolSort() else self.arr[e] != 0
            f = z3.Exists([e], z3.And(rng, b)) if name == "any" else z3.ForAll([e], z3.Implies(rng, b))
            return Fn(model=lambda ex, st, a, k: f, name=name)
        raise Undecided(f"tensor attribute {name}")

    def binop(self, ex, st, op, other, swapped):
        e = z3.Int("e!v")
        x = self.arr[e]
        y = other.arr[e] if isinstance(other, Vec) else z3ify(other)
        if isinstance(y, z3.ArithRef) and y.sort() == I:
            y = z3.ToReal(y)
        if swapped:
            x, y = y, x
        if isinstance(op, ast.Add):
            v = x + y
        elif isinstance(op, ast.Sub):
            v = x - y
        elif isinstance(op, ast.Mult):
            v = x * y
        else:
            raise Undecided("tensor op")
        return Vec(z3.Lambda([e], v), self.sort)

    def iop(self, ex, st, op, other):
        return self.binop(ex, st, op, other, False)

    def havoc_copy(self, ex, st, name):
        return Vec(z3.Const(fresh_name(name), self.arr.sort()), self.sort)


class TD:
    """TensorDict with the five transition fields, each a Vec over envs."""

    def __init__(self, fields, src=None):
        self.fields = fields
        self.src = src      # stream position when this TensorDict is literally transition number `src` of the stream

    @property
    def seq(self):
        return self.rows()

    @staticmethod
    def fresh(label):
        return TD({k: Vec(z3.Const(fresh_name(label + "." + k), z3.ArraySort(I, SORT[k])), SORT[k]) for k in KEYS})

    @staticmethod
    def at(k):
        e = z3.Int("e!t")
        return TD({"obs": Vec(z3.Lambda([e], o_(k, e)), Val), "action": Vec(z3.Lambda([e], a_(k, e)), Val),
                   "reward": Vec(z3.Lambda([e], r_(k, e)), Re), "next_obs": Vec(z3.Lambda([e], no_(k, e)), Val),
                   "done": Vec(z3.Lambda([e], d_(k, e)), Re)}, src=k)

    def getattr(self, ex, st, name):
        if name in ("clone", "to"):
            return Fn(model=lambda ex, st, a, k: TD(dict(self.fields), self.src), name=name)
        if name == "shape":
            return (E,)
        if name == "seq":
            return self.rows()
        raise Undecided(f"TensorDict attribute {name}")

    def rows(self):
        e = z3.Int("e!r")
        f = self.fields
        return Seq(E, z3.Lambda([e], mkrow(f["obs"].arr[e], f["action"].arr[e], f["reward"].arr[e], f["next_obs"].arr[e],
                                          f["done"].arr[e])), "Row", "tdrows")

    def length(self, ex, st):
        return E

    def contains(self, ex, st, item):
        return item in self.fields

    def getitem(self, ex, st, idx):
        if isinstance(idx, str):
            if idx not in self.fields:
                raise PyRaise("KeyError", idx)
            return self.fields[idx]
        raise Undecided("TensorDict index")

    def setitem(self, ex, st, idx, v):
        if isinstance(idx, str) and isinstance(v, Vec):
            self.fields[idx] = v
            self.src = None
            return
        raise Undecided("TensorDict store")

    def havoc(self, ex, st, name):
        for k in list(self.fields):
            self.fields[k] = self.fields[k].havoc_copy(ex, st, name + "." + k)


class Window:
    """The deque of the last `n` transitions; element k is TD.at(base + k)."""

    def __init__(self, n, base=0):
        self.n, self.base = n, base

    def length(self, ex, st):
        return self.n

    def getitem(self, ex, st, idx):
        if isinstance(idx, slice):
            lo = idx.start or 0
            if idx.stop is not None or idx.step is not None:
                raise Undecided("window slice")
            return Window(z3.simplify(z3ify(self.n) - lo), self.base + lo)
        if isinstance(idx, int) and idx < 0:
            idx = z3.simplify(z3ify(self.n) + idx)
        k = z3ify(idx)
        if not getattr(ex, "in_spec", 0):
            inb = z3.And(k >= 0, k < z3ify(self.n))
            if ex.feasible(st, z3.Not(inb)):
                if not ex.decide(st, inb):
                    raise PyRaise("IndexError")
        return TD.at(z3.simplify(self.base + k))

    def to_list(self, ex, st):
        return Window(self.n, self.base)

    def iter_model(self, ex, st):
        return self.n, lambda k: TD.at(z3.simplify(self.base + k))

    def getattr(self, ex, st, name):
        if name == "append":
            # trusted deque(maxlen=n_step) contract: append keeps the last maxlen items
            def append(ex, st, args, kwargs):
                data = args[0]
                if not isinstance(data, TD) or data.src is None:
                    raise Undecided("append of a value that is not the next stream transition")
                nxt = z3.simplify(z3ify(self.base) + z3ify(self.n))
                if ex.feasible(st, z3ify(data.src) != nxt):
                    raise Undecided("appended transition is not the next item of the stream")
                full = z3ify(self.n) >= ex.specns["N_STEP"]
                if ex.decide(st, full):
                    self.base = z3.simplify(z3ify(self.base) + 1)
                else:
                    self.n = z3.simplify(z3ify(self.n) + 1)
                return None
            return Fn(model=append, name="append")
        if name == "clear":
            def clear(ex, st, args, kwargs):
                self.base = z3.simplify(z3ify(self.base) + z3ify(self.n))
                self.n = 0
            return Fn(model=clear, name="clear")
        raise Undecided(f"deque method {name}")

    def same_value(self, ex, other):
        return isinstance(other, Window) and ex.same_value(self.n, other.n) and self.base == other.base


def make_window(ex, st, label):
    return Window(ex.specns["N_STEP"], B)


# ----------------------------------------------------------------------------------------------- spec helpers
def anydone(k):
    e = z3.Int("e!ad")
    return z3.Exists([e], z3.And(e >= 0, e < E, d_(B + z3ify(k), e) != 0))


def unfoldD(j):
    e = z3.Int("e!uD")
    jz = z3ify(j)
    return z3.ForAll([e], Dsum(e, jz) == z3.If(jz <= 0, r_(B, e), Dsum(e, jz - 1) + r_(B + jz, e) * POW(GAMMA, z3.ToReal(jz))),
                     patterns=[Dsum(e, jz)])


def acc_is(vec, j):
    e = z3.Int("e!ai")
    return z3.ForAll([e], z3.Implies(z3.And(e >= 0, e < E), vec.arr[e] == Dsum(e, z3ify(j))))


def tail_is(td, j, done_key="done"):
    e = z3.Int("e!ti")
    jz = z3ify(j)
    return z3.ForAll([e], z3.Implies(z3.And(e >= 0, e < E),
                                     z3.And(td.fields["next_obs"].arr[e] == no_(B + jz, e), td.fields[done_key].arr[e] == d_(B + jz, e))))


def head_is(td):
    e = z3.Int("e!hi")
    return z3.ForAll([e], z3.Implies(z3.And(e >= 0, e < E),
                                     z3.And(td.fields["obs"].arr[e] == o_(B, e), td.fields["action"].arr[e] == a_(B, e))))


def no_anydone(lo, hi):
    k = z3.Int("k!na")
    return z3.ForAll([k], z3.Implies(z3.And(z3ify(lo) <= k, k < z3ify(hi)), z3.Not(anydone(k))))


def nstep_ok(td, j, n):
    """The property's postcondition for the fused row, with the cut index j as witness (every env e):
       0 <= j < n;  no terminal step of env e strictly before j (nothing after a terminal step is mixed in);
       the window is cut only at its end or at a step where some environment ended;
       reward = sum_{k<=j} gamma^k r_k,  next_obs / done are those of step j,  obs / action those of step 0."""
    e, k = z3.Int("e!ok"), z3.Int("k!ok")
    jz = z3ify(j)
    per_env = z3.ForAll([e], z3.Implies(
        z3.And(e >= 0, e < E),
        z3.And(z3.ForAll([k], z3.Implies(z3.And(0 <= k, k < jz), d_(B + k, e) == 0)),
               td.fields["reward"].arr[e] == Dsum(e, jz),
               td.fields["next_obs"].arr[e] == no_(B + jz, e), td.fields["done"].arr[e] == d_(B + jz, e),
               td.fields["obs"].arr[e] == o_(B, e), td.fields["action"].arr[e] == a_(B, e))))
    return z3.And(0 <= jz, jz < z3ify(n), z3.Or(jz == z3ify(n) - 1, anydone(jz)), per_env)


def build(tier):
    P = Prop("C10")
    N_STEP = z3.Int("n_step")
    P.specns.update(dict(anydone=anydone, unfoldD=unfoldD, acc_is=acc_is, tail_is=tail_is, head_is=head_is,
                         no_anydone=no_anydone, nstep_ok=nstep_ok, pow=POW, N_STEP=N_STEP, GAMMA=GAMMA, E=E, Dsum=Dsum))
    e_ = z3.Real("e!p0")
    P.axioms += [z3.ForAll([e_], POW(e_, 0) == 1, patterns=[POW(e_, 0)]), E >= 1]
    R.install(P)
    P.shape("MS", RB + "MultiStepReplayBuffer",
            R.rb_fields({"n_step": ("const", N_STEP), "gamma": ("const", GAMMA), "n_step_buffer": make_window,
                         "reward_key": ("const", "reward"), "ns_key": ("const", "next_obs"),
                         "done_key": ("const", "done")}))
    R.rb_contracts(P, verify=False)
    MS = RB + "MultiStepReplayBuffer."
    P.contract(MS + "_get_n_step_info",
               params={"self": "obj:MS"},
               requires=["self.n_step >= 1", "len(self.n_step_buffer) == self.n_step"],
               ghost={"jj": "0"},
               ghost_entry=["use(unfoldD(0))"],
               ghost_after={"first_transition[self.done_key] = ": ["jj = i + 1"]},
               modifies=["self.done_key"],
               loops={1: dict(invariant=["jj == _k", "acc_is(n_step_reward, _k)", "tail_is(first_transition, _k)",
                                         "head_is(first_transition)", "no_anydone(1, _k + 1)", "_k == 0 or not anydone(0)"],
                              ghost_pre=["use(unfoldD(_k + 1))"], bind_target=False)},
               result=lambda ex, st, label: TD.fresh("fused"),
               ensures=["nstep_ok(result, jj, self.n_step)"],
               replay="c10:nstep")
    row_obs, row_act = z3.Function("row_obs", R.Row, Val), z3.Function("row_act", R.Row, Val)
    vo, va, vn = z3.Consts("vo va vn", Val)
    vr, vd = z3.Reals("vr vd")
    P.axioms += [z3.ForAll([vo, va, vr, vn, vd], z3.And(row_obs(mkrow(vo, va, vr, vn, vd)) == vo, row_act(mkrow(vo, va, vr, vn, vd)) == va),
                           patterns=[mkrow(vo, va, vr, vn, vd)])]
    L0 = z3.Int("L0")

    def pre_window(ex, st, label):
        st.assume(z3.And(0 <= L0, L0 <= N_STEP))
        return Window(L0, z3.If(L0 >= N_STEP, B - 1, B))

    def next_item(ex, st, label):
        return TD.at(z3.simplify(z3.If(L0 >= N_STEP, B - 1, B) + L0))

    def add_ok(b, bold, result):
        f, fo = b.fields, bold.fields
        e = z3.Int("e!ao")
        if result is None:
            return z3.And(L0 + 1 < N_STEP, f["gtot"] == fo["gtot"], f["gH"] == fo["gH"], f["_cursor"] == fo["_cursor"])
        if not isinstance(result, TD):
            return z3.BoolVal(False)
        return z3.And(L0 + 1 >= N_STEP, f["gtot"] == fo["gtot"] + E,
                      z3.ForAll([e], z3.Implies(z3.And(0 <= e, e < E),
                                                z3.And(result.fields["obs"].arr[e] == o_(B, e), result.fields["action"].arr[e] == a_(B, e),
                                                       row_obs(f["gH"][fo["gtot"] + e]) == o_(B, e),
                                                       row_act(f["gH"][fo["gtot"] + e]) == a_(B, e)))))
    P.specns.update(dict(add_ok=add_ok))
    P.shape("MSadd", RB + "MultiStepReplayBuffer",
            R.rb_fields({"n_step": ("const", N_STEP), "gamma": ("const", GAMMA), "n_step_buffer": pre_window,
                         "reward_key": ("const", "reward"), "ns_key": ("const", "next_obs"), "done_key": ("const", "done")}))
    P.contract(MS + "add",
               params={"self": "obj:MSadd", "data": next_item},
               requires=["RB_INV(self)", "self.n_step >= 1", "E <= self.max_size"],
               modifies=["self._storage", "self._cursor", "self._size", "self.counter", "self.initialized", "self.gH", "self.gtot",
                         "self.n_step_buffer", "self.done_key"],
               ensures=["RB_INV(self)", "add_ok(self, old(self), result)"],
               replay="c10:nstep")
    # clear() empties the buffer INCLUDING the pending window: no transition stored later may start from, or sum rewards of,
    # something added before the clear
    P.contract(MS + "clear", params={"self": "obj:MS"}, requires=["RB_INV(self)"],
               modifies=["self._size", "self._cursor", "self._storage", "self.initialized", "self.gtot", "self.n_step_buffer"],
               ensures=["self._size == 0", "len(self.n_step_buffer) == 0"], frame_fields=False, replay="c10:clear")
    # sample_from_indices: the k-th n-step sample is the stored transition idxs[k] - one row per index, whether the 1-step buffer
    # reports its indices as a vector (uniform buffer) or as a column (prioritised buffer)
    from . import ndt
    from .ndt import ND
    BATCH = z3.Int("n_indices")
    IDX = z3.Function("given_index", z3.IntSort(), z3.IntSort())
    ROW = z3.Function("stored_row", z3.IntSort(), z3.IntSort())
    P.axioms += [BATCH >= 1]

    class Batch:
        def __init__(self, shape, row):
            self.shape, self.row = shape, row

    class Storage:
        def getitem(self, ex, st, idx):
            if not isinstance(idx, ND):
                raise Undecided("storage indexed by a non-tensor")
            return Batch(list(idx.shape), lambda m: ROW(z3ify(idx.at(m))))

    def sfi_self(ex, st, label):
        o = Obj(RB + "MultiStepReplayBuffer", label="self")
        o.fields.update(dict(_storage=Storage(), _size=z3.Int("size"), max_size=z3.Int("max_size")))
        return o

    def sfi_post(r):
        k = z3.Int("k!sfi")
        if not (isinstance(r, Batch) and len(r.shape) == 1 and ndt.same_dim(r.shape[0], BATCH)):
            return z3.BoolVal(False)                         # the batch must have one dimension of length len(idxs), like the 1-step batch
        return z3.ForAll([k], z3.Implies(z3.And(0 <= k, k < BATCH), r.row([k]) == ROW(IDX(k))))
    P.specns["sfi_post"] = sfi_post
    for nm, shape in (("vector", [BATCH]), ("column", [BATCH, 1])):
        P.contract(MS + "sample_from_indices", variant=f"idxs-{nm}",
                   params={"self": sfi_self, "idxs": (lambda ex, st, l, shape=shape: ND(list(shape), lambda m: IDX(z3ify(m[0])), "idxs"))},
                   requires=[], frame_fields=False, ensures=["sfi_post(result)"], replay="c10:per_nstep")
    for k_, f_ in ndt.LIB.items():
        P.lib.setdefault(k_, f_)
    P.trusted.append(ndt.DOC)
    def wiring_window_reset():
        """the caller-history precondition of add() - the stream is continuous - is re-established by the training loop: every
        env.reset() at the start of an agent's turn in train_off_policy is followed by clearing the pending n-step window (AST)"""
        import ast
        from pyvc import front
        owner, m, fn = front.find_function("agilerl.training.train_off_policy.train_off_policy")
        bad = []
        for blk in [x for x in ast.walk(fn) if isinstance(getattr(x, "body", None), list)]:
            stmts = blk.body
            for i, stx in enumerate(stmts):
                if isinstance(stx, ast.Assign) and ast.unparse(stx.value).startswith("env.reset(") and ast.unparse(stx.targets[0]).strip("()").startswith("state"):
                    after = " ".join(ast.unparse(r) for r in stmts[i + 1:i + 4])
                    in_step_loop = any(isinstance(p_, ast.If) and "is_vectorised" in ast.unparse(p_.test) for p_ in [blk])
                    if not in_step_loop and not ("n_step_buffer" in after and ".clear()" in after):
                        bad.append(f"line {stx.lineno}: `{ast.unparse(stx)}` is not followed by clearing the n-step window")
        return not bad, "every reset at the start of an agent's turn clears the pending n-step window" if not bad else "; ".join(bad)
    P.syntactic.append(("train_off_policy.window-cleared-after-reset", wiring_window_reset))
    P.assumptions += ["A-REAL: rewards/discounts are reals; gamma**k is an uninterpreted pow with pow(x,0)=1",
                      "the window is a read-only sequence inside _get_n_step_info (deque(maxlen) semantics trusted in add)",
                      "stream continuity across env.reset() between agents: the window is cleared after the reset (AST obligation); truncations and next-step auto-reset filler steps remain a caller-history precondition (known findings C10b_demo_2/3)"]
    P.trusted += ["TensorDict/tensor model of C10: fields are per-env vectors; clone/to keep values; `+=`/`*` are element-wise; "
                  ".bool().any() is 'some env has a non-zero flag'"]
    P.uncovered += ["continuity of the transition stream across env.reset() between agents (caller history)",
                    "float rounding of the discounted sum"]
    P.native.append(dict(name='nstep', adapter='c10:nstep', thorough_only=True, payload={"mode": "search"},
                         bound='streams: exhaustive placements of terminal flags for n <= 3, envs <= 2, plus random streams with wrap-around, against the definition'))
    P.native.append(dict(name='clear', adapter='c10:clear', thorough_only=True, payload={"mode": "search"},
                         bound='clear-then-add sequences: no transition of the previous stream survives'))
    P.native.append(dict(name='per_nstep', adapter='c10:per_nstep', thorough_only=True, payload={"mode": "search"},
                         bound='prioritised + n-step index alignments (column-shaped indices)'))
    return P
