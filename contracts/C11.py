"""C11 — prioritised replay: segment trees and PrioritizedReplayBuffer (DESIGN.md section 5, C11)."""
import z3

from pyvc.main import Prop
from pyvc.values import Fn, ModRef, Obj, Seq
from . import spec_tree as T
from . import lib, rb_common as R

ST = "agilerl.components.segment_tree."
RB = "agilerl.components.replay_buffer."


def py_add(ex, st, args, kwargs):
    return args[0] + args[1]


def py_min(ex, st, args, kwargs):
    return T.zmin(args[0], args[1])


def tree_shape(P, name, cls, op):
    fields = {"capacity": "int", "tree": "seq[real]"}
    if op == "uninterp":
        fields["operation"] = "fn(real,real)->real"
    elif op == "add":
        fields["operation"] = ("const", Fn(model=py_add, name="operator.add"))
    else:
        fields["operation"] = ("const", Fn(model=py_min, name="min"))
    return P.shape(name, cls, fields)


def opf(t):
    o = t.fields["operation"]
    if isinstance(o, ModRef):
        return T.zmin if o.dotted == "builtins.min" else (lambda a, b: a + b)
    if o.decl is not None:
        return lambda a, b: o.decl(a, b)
    return (lambda a, b: a + b) if o.name == "operator.add" else T.zmin


WFq = z3.Function("WFq", T.A, z3.IntSort(), z3.IntSort(), z3.BoolSort())   # opaque: "every inner node = op(children)"


def opcode(t):
    o = t.fields["operation"]
    if isinstance(o, ModRef):
        return z3.IntVal(3 if o.dotted == "builtins.min" else 1)
    if o.decl is not None:
        return z3.Int("opcode!" + o.decl.name())
    return z3.IntVal(1 if o.name == "operator.add" else 3)


def WF(t):
    """Tree representation invariant.  The quantified part is *opaque* (WFq) and revealed only inside the functions
    and lemmas that look at tree nodes (reveal_wf), so callers are not burdened with it."""
    cap, tr = t.fields["capacity"], t.fields["tree"]
    return z3.And(cap >= 1, T.is_pow2(cap), tr.len == 2 * cap, WFq(tr.arr, cap, opcode(t)))


def reveal_wf(t):
    cap, tr = t.fields["capacity"], t.fields["tree"]
    return WFq(tr.arr, cap, opcode(t)) == T.wf(tr.arr, cap, opf(t))


def WF_except(t, idx):
    cap, tr = t.fields["capacity"], t.fields["tree"]
    i = z3.Int("i!wfx")
    op = opf(t)
    return z3.ForAll([i], z3.Implies(z3.And(1 <= i, i < cap, i != idx),
                                     tr.arr[i] == op(tr.arr[2 * i], tr.arr[2 * i + 1])), patterns=[tr.arr[2 * i]])


def leaves_are(t, idx0, val, told):
    cap, tr, tro = t.fields["capacity"], t.fields["tree"], told.fields["tree"]
    j = z3.Int("j!lv")
    v = z3.ToReal(val) if val.sort() == z3.IntSort() else val
    return z3.ForAll([j], z3.Implies(z3.And(0 <= j, j < cap),
                                     T.LEAF(tr.arr, cap, j) == z3.If(j == idx0, v, T.LEAF(tro.arr, cap, j))),
                     patterns=[T.LEAF(tr.arr, cap, j)])


def Fsum(t, a, b):
    return T.F_sum(t.fields["tree"].arr, t.fields["capacity"], z3.IntVal(a) if isinstance(a, int) else a,
                   z3.IntVal(b) if isinstance(b, int) else b)


def Fmin(t, a, b):
    return T.F_min(t.fields["tree"].arr, t.fields["capacity"], z3.IntVal(a) if isinstance(a, int) else a,
                   z3.IntVal(b) if isinstance(b, int) else b)


def lem_node_sum(t, node, lo, span):
    # proved in spec_tree.lemmas() from the revealed definition of WF (WFq is *defined* as T.wf)
    return z3.Implies(WF(t), T.node_sum(t.fields["tree"].arr, t.fields["capacity"], node, lo, span))


def lem_node_min(t, node, lo, span):
    return z3.Implies(WF(t), T.node_min(t.fields["tree"].arr, t.fields["capacity"], node, lo, span))


def lem_add_sum(t, a, m, b):
    return T.add_sum(t.fields["tree"].arr, t.fields["capacity"], a, m, b)


def lem_add_min(t, a, m, b):
    return T.add_min(t.fields["tree"].arr, t.fields["capacity"], a, m, b)


def lem_nonneg(t, a, b):
    return T.nonneg_sum(t.fields["tree"].arr, t.fields["capacity"], a, b)


def leaves_nonneg(t):
    cap, tr = t.fields["capacity"], t.fields["tree"]
    j = z3.Int("j!ln")
    return z3.ForAll([j], z3.Implies(z3.And(0 <= j, j < cap), T.LEAF(tr.arr, cap, j) >= 0), patterns=[T.LEAF(tr.arr, cap, j)])


def geometry(t, node, lo, span):
    return T.geometry(t.fields["capacity"], node, lo, span)


def op_is_add(f):
    a, b = z3.Reals("a!w b!w")
    return z3.ForAll([a, b], f.decl(a, b) == a + b)


def build(tier):
    P = Prop("C11")
    P.axioms = T.pow2_axioms()
    P.specns.update(dict(WF=WF, reveal_wf=reveal_wf, WF_except=WF_except, leaves_are=leaves_are, Fsum=Fsum, Fmin=Fmin, is_pow2=T.is_pow2,
                         band=T.band, INF=T.INF, node_sum=lem_node_sum, node_min=lem_node_min, add_sum=lem_add_sum,
                         add_min=lem_add_min, nonneg=lem_nonneg, leaves_nonneg=leaves_nonneg, geometry=geometry))
    tree_shape(P, "Tree", ST + "SegmentTree", "uninterp")
    tree_shape(P, "SumTree", ST + "SumSegmentTree", "add")
    tree_shape(P, "MinTree", ST + "MinSegmentTree", "min")
    for name, mk in T.lemmas():
        P.lemmas.append((name, mk))

    # ---------------------------------------------------------------- SegmentTree.__setitem__ (any operation)
    P.contract(ST + "SegmentTree.__setitem__",
               params={"self": "obj:Tree", "idx": "int", "val": "real"},
               requires=["WF(self)", "0 <= idx", "idx < self.capacity"],
               ghost_entry=["use(reveal_wf(self))"], ghost_exit=["use(reveal_wf(self))"], axioms=[T.leaf_axiom()],
               modifies=["self.tree"],
               loops={0: dict(invariant=["0 <= idx", "idx < self.capacity", "len(self.tree) == 2 * self.capacity",
                                         "WF_except(self, idx)",
                                         "leaves_are(self, old(idx), val, old(self))"],
                              decreases="idx")},
               ensures=["WF(self)", "leaves_are(self, old(idx), val, old(self))"],
               witness={"self.capacity": 2, "self.tree": [0, 3, 1, 2], "idx": 1, "val": 5, "self.operation": op_is_add, "fact:wf": "reveal_wf(self)"},
               replay="c11:setitem")

    # ---------------------------------------------------------------- SegmentTree.__getitem__
    P.contract(ST + "SegmentTree.__getitem__",
               params={"self": "obj:Tree", "idx": "int"},
               requires=["WF(self)"], axioms=[T.leaf_axiom()],
               raises={"AssertionError": "not (0 <= idx and idx < self.capacity)"}, raises_iff=True,
               ensures=["result == self.tree[self.capacity + idx]", "result == tleaf(self, idx)"], result="real",
               witness={"self.capacity": 2, "self.tree": [0, 3, 1, 2], "idx": 1, "self.operation": op_is_add, "fact:wf": "reveal_wf(self)"})

    more(P)
    per_contracts(P)
    P.specns['H0'] = z3.Const('H0', z3.ArraySort(z3.IntSort(), R.Row))
    P.native.append(dict(name='setitem', adapter='c11:setitem', thorough_only=True, payload={"mode": "search"},
                         bound='segment-tree updates (sum/min, capacities 1-64): well-formed tree, root = fold'))
    P.native.append(dict(name='retrieve', adapter='c11:retrieve', thorough_only=True, payload={"mode": "search"},
                         bound='prefix-sum descents incl. zero-mass leaves and boundary draws'))
    P.native.append(dict(name='operate', adapter='c11:operate', thorough_only=True, payload={"mode": "search"},
                         bound='range folds against the definition'))
    P.native.append(dict(name='per', adapter='c11:per', thorough_only=True, payload={"mode": "search"},
                         bound='PrioritizedReplayBuffer sequences with controlled variates: strata, max-priority inserts, weights in (0,1]'))
    return P


def unfold_sum(t, a, b):
    return T.unfold_sum(t.fields["tree"].arr, t.fields["capacity"], z3.IntVal(a) if isinstance(a, int) else a,
                        z3.IntVal(b) if isinstance(b, int) else b)


def unfold_min(t, a, b):
    return T.unfold_min(t.fields["tree"].arr, t.fields["capacity"], z3.IntVal(a) if isinstance(a, int) else a,
                        z3.IntVal(b) if isinstance(b, int) else b)


def tleaf(t, j):
    return T.LEAF(t.fields["tree"].arr, t.fields["capacity"], j)


def is_sum(t):
    o = t.fields["operation"]
    if isinstance(o, ModRef):
        return o.dotted != "builtins.min"
    return o.name == "operator.add"


def Fold(t, a, b):
    return Fsum(t, a, b) if is_sum(t) else Fmin(t, a, b)


def node_fold(t, node, lo, span):
    return lem_node_sum(t, node, lo, span) if is_sum(t) else lem_node_min(t, node, lo, span)


def add_fold(t, a, m, b):
    return lem_add_sum(t, a, m, b) if is_sum(t) else lem_add_min(t, a, m, b)


def all_leaves(t, v):
    cap, tr = t.fields["capacity"], t.fields["tree"]
    j = z3.Int("j!al")
    return z3.ForAll([j], z3.Implies(z3.And(0 <= j, j < 2 * cap), tr.arr[j] == v))


def all_leaves_L(t, v):
    cap, tr = t.fields["capacity"], t.fields["tree"]
    j = z3.Int("j!aL")
    return z3.ForAll([j], z3.Implies(z3.And(0 <= j, j < cap), T.LEAF(tr.arr, cap, j) == v), patterns=[T.LEAF(tr.arr, cap, j)])


POW = z3.Function("pow", z3.RealSort(), z3.RealSort(), z3.RealSort())


def more(P):
    P.specns.update(dict(Fold=Fold, node_fold=node_fold, add_fold=add_fold, all_leaves=all_leaves, all_leaves_L=all_leaves_L, leaf_def=T.leaf_axiom, tleaf=tleaf, pow=POW, unfold_sum=unfold_sum, unfold_min=unfold_min))
    P.axioms += lib.pow_axioms(POW)
    e_ = z3.Real("e!one")
    P.axioms += [T.INF > 1, z3.ForAll([e_], POW(1, e_) == 1, patterns=[POW(1, e_)])]
    lib.install(P, ["operator.add", "torch.zeros", "torch.rand"])
    R.install(P)
    P.trusted.append("pow(x,y) uninterpreted with axioms: positive for positive base; monotone in the base for exponent >= 0, antitone for <= 0")
    P.trusted.append("is_pow2 axioms (arithmetic facts about powers of two; x & (x-1) == 0 iff power of two)")
    P.trusted.append("induction on naturals for the F_sum/F_min lemmas (base + step obligations are discharged, the schema is trusted)")
    P.assumptions += ["A-REAL: float arithmetic treated as real arithmetic (the sum-tree descent is NOT exact in IEEE doubles: "
                      "l <= ub < fl(l+r) does not imply fl(ub-l) < r; the code carries a TODO for this)",
                      "A-INT64: tensor indices are mathematical integers",
                      "float('inf') is a real constant INF larger than every stored priority"]
    W4 = {"self.capacity": 2, "self.tree": [0, 3, 1, 2], "fact:wf": "reveal_wf(self)"}
    for variant, shape in (("sum", "SumTree"), ("min", "MinTree")):
        # _operate_helper: recursive; the recursive calls are checked against this same contract
        P.contract(ST + "SegmentTree._operate_helper", variant=None if variant == "sum" else variant,
                   params={"self": "obj:" + shape, "start": "int", "end": "int", "node": "int", "node_start": "int",
                           "node_end": "int"},
                   requires=["WF(self)", "geometry(self, node, node_start, node_end - node_start + 1)",
                             "node_start <= start", "start <= end", "end <= node_end"],
                   lets={"span_": "node_end - node_start + 1"},
                   ghost_entry=["use(reveal_wf(self))",
                                "check(span_ == 1 or (span_ % 2 == 0 and span_ >= 2))",
                                "arith(span_ == 1 or 2 * node * (span_ // 2) == self.capacity + node_start)",
                                "arith(span_ == 1 or (2 * node + 1) * (span_ // 2) == self.capacity + node_start + span_ // 2)",
                                "use(node_fold(self, node, node_start, node_end - node_start + 1))",
                                "use(add_fold(self, start, (node_start + node_end) // 2 + 1, end + 1))"],
                   decreases="node_end - node_start",
                   modifies=[], result="real",
                   ensures=["result == Fold(self, start, end + 1)"],
                   witness=dict(W4, start=0, end=1, node=1, node_start=0, node_end=1) if variant == "sum" else
                   {"self.capacity": 2, "self.tree": [0, 1, 1, 2], "start": 0, "end": 1, "node": 1, "node_start": 0, "node_end": 1, "fact:wf": "reveal_wf(self)"},
                   replay="c11:operate")
        P.contract(ST + "SegmentTree.operate", variant=None if variant == "sum" else variant,
                   params={"self": "obj:" + shape, "start": "int", "end": "int"},
                   requires=["WF(self)", "start >= 0", "end <= self.capacity", "end > -self.capacity",
                             "start < (end if end > 0 else end + self.capacity)"],
                   modifies=[], result="real",
                   ensures=["result == Fold(self, old(start), (old(end) if old(end) > 0 else old(end) + self.capacity))"],
                   witness=dict(W4, start=0, end=0) if variant == "sum" else
                   {"self.capacity": 2, "self.tree": [0, 1, 1, 2], "start": 0, "end": 0, "fact:wf": "reveal_wf(self)"},
                   replay="c11:operate")
    # SumSegmentTree.retrieve: index whose mass interval contains the draw
    P.contract(ST + "SumSegmentTree.retrieve",
               params={"self": "obj:SumTree", "upperbound": "real"},
               requires=["WF(self)", "leaves_nonneg(self)", "0 <= upperbound", "upperbound < Fsum(self, 0, self.capacity)"],
               ghost={"lo": "0", "span": "self.capacity"},
               ghost_entry=["use(unfold_sum(self, 0, 0))"],
               modifies=[], result="int",
               loops={0: dict(invariant=["geometry(self, idx, lo, span)", "0 <= upperbound",
                                         "upperbound < Fsum(self, lo, lo + span)",
                                         "old(upperbound) == Fsum(self, 0, lo) + upperbound"],
                              ghost_pre=["use(node_fold(self, 2 * idx, lo, span // 2))",
                                         "use(node_fold(self, 2 * idx + 1, lo + span // 2, span // 2))",      # the right child's mass ...
                                         "use(nonneg(self, lo + span // 2, lo + span))",                      # ... is non-negative
                                         "use(add_sum(self, lo, lo + span // 2, lo + span))",
                                         "use(add_sum(self, 0, lo, lo + span // 2))"],
                              ghost_post=["if idx % 2 == 0:\n    span = span // 2\nelse:\n    span = span // 2\n    lo = lo + span"],
                              ghost_exit=["use(add_sum(self, 0, lo, lo + 1))"],
                              havoc_names=["lo", "span"],
                              decreases="2 * self.capacity - idx")},
               ensures=["0 <= result", "result < self.capacity",
                        "Fsum(self, 0, result) <= old(upperbound)", "old(upperbound) < Fsum(self, 0, result + 1)"],
               witness={**W4, "upperbound": 0.5, "fact:1": "unfold_sum(self, 0, 2)", "fact:2": "unfold_sum(self, 0, 1)",
                        "fact:3": "unfold_sum(self, 0, 0)", "fact:4": "leaf_def()"},
               replay="c11:retrieve")
    # constructors establish WF
    for cls, shape, v in (("SumSegmentTree", "SumTree", "0"), ("MinSegmentTree", "MinTree", "INF")):
        P.contract(ST + cls + ".__init__",
                   params={"self": lambda ex, st, label, cls=cls: Obj(ST + cls, label="self"), "capacity": "int"},
                   requires=[], modifies=[],
                   creates={"self.capacity": "int", "self.tree": "seq[real]",
                            "self.operation": ("const", Fn(model=py_add if cls == "SumSegmentTree" else py_min,
                                                           name="operator.add" if cls == "SumSegmentTree" else "min"))},
                   raises={"AssertionError": "not (capacity > 0 and is_pow2(capacity))"}, raises_iff=True,
                   ghost_exit=["use(reveal_wf(self))"], axioms=[T.leaf_axiom()],
                   ensures=["WF(self)", "self.capacity == capacity", f"all_leaves(self, {v})", f"all_leaves_L(self, {v})"],
                   frame_fields=False, witness={"capacity": 4}, replay="c11:setitem")


# ====================================================================================== PrioritizedReplayBuffer
def sleaf(b, j):
    t = b.fields["sum_tree"]
    return T.LEAF(t.fields["tree"].arr, t.fields["capacity"], j)


def mleaf(b, j):
    t = b.fields["min_tree"]
    return T.LEAF(t.fields["tree"].arr, t.fields["capacity"], j)


def PER_TREES(b):
    """Structural part: both trees well-formed, same capacity >= max_size, alpha >= 0, max_priority > 0."""
    f = b.fields
    s, m = f["sum_tree"], f["min_tree"]
    return z3.And(WF(s), WF(m), s.fields["capacity"] == m.fields["capacity"], s.fields["capacity"] >= f["max_size"],
                  f["max_size"] >= 1, f["alpha"] >= 0, f["max_priority"] > 0,
                  POW(f["max_priority"], f["alpha"]) < T.INF)


def PER_LEAVES(b, size):
    """Stored slots j < size carry one positive priority^alpha in both trees, bounded by max_priority^alpha;
    every other leaf is neutral (0 in the sum tree, INF in the min tree)."""
    f = b.fields
    cap = f["sum_tree"].fields["capacity"]
    j = z3.Int("j!pl")
    return z3.ForAll([j], z3.Implies(z3.And(0 <= j, j < cap),
                                     z3.If(j < size,
                                           z3.And(sleaf(b, j) > 0, sleaf(b, j) == mleaf(b, j), sleaf(b, j) < T.INF,
                                                  sleaf(b, j) <= POW(f["max_priority"], f["alpha"])),
                                           z3.And(sleaf(b, j) == 0, mleaf(b, j) == T.INF))),
                     patterns=[sleaf(b, j), mleaf(b, j)])


def PER_INV(b):
    f = b.fields
    return z3.And(R.RB_INV(b), PER_TREES(b), PER_LEAVES(b, f["_size"]), f["tree_ptr"] == f["_cursor"])


def leaves_same_except(b, bold, idx):
    cap = b.fields["sum_tree"].fields["capacity"]
    j = z3.Int("j!ls")
    return z3.ForAll([j], z3.Implies(z3.And(0 <= j, j < cap, j != idx),
                                     z3.And(sleaf(b, j) == sleaf(bold, j), mleaf(b, j) == mleaf(bold, j))),
                     patterns=[sleaf(b, j), mleaf(b, j)])


def ADD_PROGRESS(b, bold, ptr0, i):
    """Loop invariant of PrioritizedReplayBuffer.add after i of the new rows got their priority: exactly the slots
    ptr0, ptr0+1, ... (i of them, wrapping at max_size) hold max_priority^alpha; all other leaves are as before."""
    f = b.fields
    N, cap = f["max_size"], f["sum_tree"].fields["capacity"]
    p = POW(f["max_priority"], f["alpha"])
    j = z3.Int("j!ap")
    written = z3.Or(z3.And(ptr0 <= j, j < ptr0 + i, j < N), z3.And(j < ptr0 + i - N))
    return z3.And(
        f["tree_ptr"] == z3.If(ptr0 + i < N, ptr0 + i, ptr0 + i - N),
        z3.ForAll([j], z3.Implies(z3.And(0 <= j, j < cap),
                                  z3.If(written, z3.And(sleaf(b, j) == p, mleaf(b, j) == p),
                                        z3.And(sleaf(b, j) == sleaf(bold, j), mleaf(b, j) == mleaf(bold, j)))),
                  patterns=[sleaf(b, j), mleaf(b, j)]))


def strata_ok(b, idxs, upto, batch):
    """Every sampled index (positions < upto) is a stored slot whose mass interval meets its own stratum
    [k*total/batch, (k+1)*total/batch)."""
    s = b.fields["sum_tree"]
    total = Fsum(s, 0, s.fields["capacity"])
    k = z3.Int("k!st")
    r = idxs.arr[k]
    seg = total / z3.ToReal(batch)
    return z3.ForAll([k], z3.Implies(z3.And(0 <= k, k < upto),
                                     z3.And(0 <= r, r < b.fields["_size"], sleaf(b, r) > 0,
                                            Fsum(s, 0, r) < seg * z3.ToReal(k + 1), Fsum(s, 0, r + 1) > seg * z3.ToReal(k))))


def idx_in_range(b, idxs):
    k = z3.Int("k!ir")
    return z3.ForAll([k], z3.Implies(z3.And(0 <= k, k < idxs.len), z3.And(0 <= idxs.arr[k], idxs.arr[k] < b.fields["_size"])))


def weights_ok(b, w, idxs, upto, beta):
    """w[k] == (N*P(i_k))^-beta / max_j (N*P(j))^-beta  with P(i) = leaf_i / total, and 0 < w[k] <= 1."""
    s, m = b.fields["sum_tree"], b.fields["min_tree"]
    cap = s.fields["capacity"]
    total = Fsum(s, 0, cap)
    pmin = Fmin(m, 0, cap) / total
    size = z3.ToReal(b.fields["_size"])
    k = z3.Int("k!wo")
    wk = POW(sleaf(b, idxs.arr[k]) / total * size, -beta) / POW(pmin * size, -beta)
    return z3.ForAll([k], z3.Implies(z3.And(0 <= k, k < upto), z3.And(w.arr[k] == wk, w.arr[k] > 0, w.arr[k] <= 1)))


def lem_min_le(t, j):
    """F_min(0, cap) <= leaf j  (instance of the lemma proved below by induction)."""
    arr, cap = t.fields["tree"].arr, t.fields["capacity"]
    return z3.Implies(z3.And(0 <= j, j < cap), T.F_min(arr, cap, 0, cap) <= T.LEAF(arr, cap, j))


def lem_sum_ge(t, j):
    """leaves >= 0  ->  F_sum(0, cap) >= leaf j."""
    arr, cap = t.fields["tree"].arr, t.fields["capacity"]
    return z3.Implies(z3.And(0 <= j, j < cap, leaves_nonneg(t)), T.F_sum(arr, cap, 0, cap) >= T.LEAF(arr, cap, j))


def lem_min_attained(t):
    """F_min(0, cap) equals some leaf (so it is one of the stored priorities / INF)."""
    arr, cap = t.fields["tree"].arr, t.fields["capacity"]
    j = z3.Int("j!ma")
    return z3.Implies(cap >= 1, z3.Exists([j], z3.And(0 <= j, j < cap, T.F_min(arr, cap, 0, cap) == T.LEAF(arr, cap, j))))


def per_lemmas():
    arr = z3.Const("arr!M", T.A)
    c, a, b, j = z3.Ints("c!M a!M b!M j!M")
    out = []
    # F_min(a,b) <= arr[c+j] for a <= j < b : induction on b
    P = lambda hi: z3.Implies(z3.And(a <= j, j < hi), T.F_min(arr, c, a, hi) <= T.LEAF(arr, c, j))
    out.append(("min_le.base", lambda: ([T.unfold_min(arr, c, a, a + 1)], P(a + 1))))
    out.append(("min_le.step", lambda: ([b > a, P(b), T.unfold_min(arr, c, a, b + 1)], P(b + 1))))
    # F_min attained
    jj = z3.Int("jj!M")
    Q = lambda hi: z3.Exists([jj], z3.And(a <= jj, jj < hi, T.F_min(arr, c, a, hi) == T.LEAF(arr, c, jj)))
    out.append(("min_attained.base", lambda: ([T.unfold_min(arr, c, a, a + 1)], Q(a + 1))))
    out.append(("min_attained.step", lambda: ([b > a, Q(b), T.unfold_min(arr, c, a, b + 1)], Q(b + 1))))
    # F_sum(a,b) >= arr[c+j] when all leaves in [a,b) are >= 0 : from additivity and non-negativity
    out.append(("sum_ge", lambda: ([a <= j, j < b, T.add_sum(arr, c, a, j, b), T.add_sum(arr, c, j, j + 1, b),
                                    T.unfold_sum(arr, c, j, j + 1), T.unfold_sum(arr, c, j, j),
                                    T.nonneg_sum(arr, c, a, j), T.nonneg_sum(arr, c, j + 1, b),
                                    z3.ForAll([jj], z3.Implies(z3.And(a <= jj, jj < b), T.LEAF(arr, c, jj) >= 0),
                                              patterns=[T.LEAF(arr, c, jj)])],
                                   T.F_sum(arr, c, a, b) >= T.LEAF(arr, c, j))))
    return out


def per_contracts(P):
    PER = RB + "PrioritizedReplayBuffer."
    P.specns.update(dict(PER_INV=PER_INV, PER_TREES=PER_TREES, PER_LEAVES=PER_LEAVES, leaves_same_except=leaves_same_except,
                         ADD_PROGRESS=ADD_PROGRESS, strata_ok=strata_ok, idx_in_range=idx_in_range, weights_ok=weights_ok,
                         sleaf=sleaf, mleaf=mleaf, min_le=lem_min_le, sum_ge=lem_sum_ge, min_attained=lem_min_attained,
                         RB_INV=R.RB_INV))
    for name, mk in per_lemmas():
        P.lemmas.append((name, mk))
    P.shape("PER", RB + "PrioritizedReplayBuffer",
            R.rb_fields({"alpha": "real", "max_priority": "real", "tree_ptr": "int",
                         "sum_tree": "obj:SumTree", "min_tree": "obj:MinTree"}))
    R.rb_contracts(P, verify=False)        # ReplayBuffer.add/sample/clear/__len__: verified under C09, used modularly here
    TW = {"self.max_size": 2, "self.alpha": 1, "self.max_priority": 1, "self.sum_tree.capacity": 2,
          "self.min_tree.capacity": 2}

    P.contract(PER + "_update_priority",
               params={"self": "obj:PER", "idx": "int", "priority": "real"},
               requires=["PER_TREES(self)", "priority > 0", "pow(priority, self.alpha) < INF"],
               raises={"AssertionError": "not (0 <= idx and idx < self.max_size)"}, raises_iff=True,
               modifies=["self.sum_tree.tree", "self.min_tree.tree", "self.max_priority"],
               ensures=["PER_TREES(self)",
                        "sleaf(self, old(idx)) == pow(priority, self.alpha)", "mleaf(self, old(idx)) == pow(priority, self.alpha)",
                        "leaves_same_except(self, old(self), old(idx))",
                        "self.max_priority == (old(self.max_priority) if old(self.max_priority) >= priority else priority)"],
               replay="c11:per")

    P.contract(PER + "add",
               params={"self": "obj:PER", "data": R.make_rows},
               requires=["PER_INV(self)", "len(data) >= 1", "len(data) <= self.max_size"],
               modifies=["self._storage", "self._cursor", "self._size", "self.counter", "self.initialized", "self.gH",
                         "self.gtot", "self.sum_tree.tree", "self.min_tree.tree", "self.tree_ptr", "self.max_priority"],
               loops={0: dict(invariant=["PER_TREES(self)", "RB_INV(self)", "0 <= self.tree_ptr", "self.tree_ptr < self.max_size",
                                         "ADD_PROGRESS(self, old(self), old(self.tree_ptr), i)",
                                         "self.max_priority == old(self.max_priority)",
                                         "self._size == (old(self._size) + n_transitions if old(self._size) + n_transitions < self.max_size else self.max_size)",
                                         "self._cursor == (old(self._cursor) + n_transitions if old(self._cursor) + n_transitions < self.max_size"
                                         " else old(self._cursor) + n_transitions - self.max_size)"],
                              counter="i_done", bind_target=True)},
               ensures=["PER_INV(self)", "self.max_priority == old(self.max_priority)",
                        # new transitions get the highest priority seen so far:
                        "forall(j, 0, self.sum_tree.capacity, implies("
                        "(old(self.tree_ptr) <= j and j < old(self.tree_ptr) + len(old(data)) and j < self.max_size) or "
                        "j < old(self.tree_ptr) + len(old(data)) - self.max_size, "
                        "sleaf(self, j) == pow(old(self.max_priority), self.alpha)))"],
               replay="c11:per")

    P.contract(PER + "_sample_proportional",
               params={"self": "obj:PER", "batch_size": "int"},
               requires=["PER_INV(self)", "self._size >= 1", "batch_size >= 1"],
               modifies=[], result="seq[int]",
               ghost_entry=["use(sum_ge(self.sum_tree, 0))"],
               ghost_after={"total_priority = ": ["check(total_priority > 0)"],
                            "segment = ": ["arith(segment * batch_size == total_priority)", "arith(segment > 0)"],
                            "b = ": ["arith(b == a + segment)", "arith(b <= segment * batch_size)", "arith(a >= 0)"],
                            "upperbound = ": ["arith(upperbound >= a)", "arith(upperbound < b)"],
                            "idx = ": ["use(add_sum(self.sum_tree, 0, idx, idx + 1))", "use(unfold_sum(self.sum_tree, idx, idx + 1))",
                                       "use(unfold_sum(self.sum_tree, idx, idx))", "check(sleaf(self, idx) > 0)",
                                       "check(idx < self._size)", "check(Fsum(self.sum_tree, 0, idx) < b)",
                                       "check(Fsum(self.sum_tree, 0, idx + 1) > a)"]},
               loops={0: dict(invariant=["len(indices) == batch_size", "strata_ok(self, indices, i, batch_size)"])},
               ensures=["len(result) == batch_size", "strata_ok(self, result, batch_size, batch_size)"],
               replay="c11:per")

    P.contract(PER + "_calculate_weights",
               params={"self": "obj:PER", "indices": "seq[int]", "beta": "real"},
               requires=["PER_INV(self)", "self._size >= 1", "beta >= 0", "idx_in_range(self, indices)"],
               modifies=[], result="seq[real]",
               ghost_entry=["use(sum_ge(self.sum_tree, 0))", "use(min_attained(self.min_tree))"],
               loops={0: dict(invariant=["len(weights) == len(indices)", "weights_ok(self, weights, indices, i, beta)"],
                              ghost_pre=["use(min_le(self.min_tree, indices[i]))"],
                              counter="i_done", bind_target=True)},
               ensures=["len(result) == len(indices)", "weights_ok(self, result, indices, len(indices), beta)"],
               replay="c11:per")

    P.contract(PER + "update_priorities",
               params={"self": "obj:PER", "indices": "seq[int]", "priorities": "seq[real]"},
               requires=["PER_INV(self)", "idx_in_range(self, indices)", "len(indices) == len(priorities)",
                         # finite priorities (A-REAL: 'inf' is a real constant above every finite value)
                         "forall(k, 0, len(priorities), pow((priorities[k] if priorities[k] >= 1e-5 else 1e-5), self.alpha) < INF)"],
               modifies=["self.sum_tree.tree", "self.min_tree.tree", "self.max_priority"],
               loops={0: dict(invariant=["PER_INV(self)", "self.max_priority >= old(self.max_priority)"],
                              ghost_pre=["mp0 = self.max_priority"],
                              ghost_post=["check(pow(mp0, self.alpha) <= pow(self.max_priority, self.alpha))",
                                          "check(pow(priority, self.alpha) <= pow(self.max_priority, self.alpha))",
                                          "check(pow(priority, self.alpha) > 0)"])},
               ensures=["PER_INV(self)", "self.max_priority >= old(self.max_priority)"],
               replay="c11:per")

    P.contract(PER + "sample",
               params={"self": "obj:PER", "batch_size": "int", "beta": "real"},
               requires=["PER_INV(self)", "self._size >= 1", "batch_size >= 1", "beta >= 0", "self._storage is not None"],
               modifies=[], result=R.make_rows,
               ensures=["len(result) == batch_size",
                        "strata_ok(self, result['idxs'], batch_size, batch_size)",
                        "weights_ok(self, result['weights'], result['idxs'], batch_size, beta)",
                        "forall(k, 0, batch_size, result.seq[k] == self._storage.seq[result['idxs'][k]])"],
               replay="c11:per")

    # clear() must re-establish the *subclass* invariant (it calls the inherited clear() by its contract)
    P.contract(PER + "clear",
               params={"self": "obj:PER"},
               requires=["PER_INV(self)"],
               modifies=["self._size", "self._cursor", "self._storage", "self.initialized", "self.gtot",
                         "self.sum_tree", "self.min_tree", "self.tree_ptr", "self.max_priority"],
               ensures=["PER_INV(self)", "self._size == 0", "self.max_priority == 1"],
               frame_fields=False, replay="c11:per")

    P.contract(PER + "__init__",
               params={"self": lambda ex, st, label: Obj(RB + "PrioritizedReplayBuffer", label="self"),
                       "max_size": "int", "alpha": "real", "device": "opaque", "dtype": "opaque"},
               requires=["max_size >= 1", "alpha >= 0"],
               loops={0: dict(invariant=["tree_capacity >= 1", "is_pow2(tree_capacity)"], decreases="max_size - tree_capacity")},
               ghost_exit=["self.gtot = 0", "self.gH = H0"],
               ensures=["PER_INV(self)", "self._size == 0", "self.max_priority == 1"],
               frame_fields=False, witness={"max_size": 3, "alpha": 0.5}, replay="c11:per")
