"""C11 — prioritised replay: segment trees and PrioritizedReplayBuffer (DESIGN.md section 5, C11)."""
import z3

from pyvc.main import Prop
from pyvc.values import Fn, Obj, Seq
from . import spec_tree as T

ST = "agilerl.components.segment_tree."
RB = "agilerl.components.replay_buffer."


def py_add(ex, st, args, kwargs):
    return args[0] + args[1]


def py_min(ex, st, args, kwargs):
    return T.zmin(args[0], args[1])


def tree_shape(P, name, cls, op):
    fields = {"capacity": "int", "tree": "seq[real]"}
    if op == "uninterp":
        fields["operation"] = "fn(real,real)->real"
    elif op == "add":
        fields["operation"] = ("const", Fn(model=py_add, name="operator.add"))
    else:
        fields["operation"] = ("const", Fn(model=py_min, name="min"))
    return P.shape(name, cls, fields)


def opf(t):
    o = t.fields["operation"]
    if o.decl is not None:
        return lambda a, b: o.decl(a, b)
    return (lambda a, b: a + b) if o.name == "operator.add" else T.zmin


def WF(t):
    cap, tr = t.fields["capacity"], t.fields["tree"]
    return z3.And(cap >= 1, T.is_pow2(cap), tr.len == 2 * cap, T.wf(tr.arr, cap, opf(t)))


def WF_except(t, idx):
    cap, tr = t.fields["capacity"], t.fields["tree"]
    i = z3.Int("i!wfx")
    op = opf(t)
    return z3.ForAll([i], z3.Implies(z3.And(1 <= i, i < cap, i != idx),
                                     tr.arr[i] == op(tr.arr[2 * i], tr.arr[2 * i + 1])), patterns=[tr.arr[2 * i]])


def leaves_are(t, idx0, val, told):
    cap, tr, tro = t.fields["capacity"], t.fields["tree"], told.fields["tree"]
    j = z3.Int("j!lv")
    v = z3.ToReal(val) if val.sort() == z3.IntSort() else val
    return z3.ForAll([j], z3.Implies(z3.And(cap <= j, j < 2 * cap),
                                     tr.arr[j] == z3.If(j == idx0 + cap, v, tro.arr[j])))


def Fsum(t, a, b):
    return T.F_sum(t.fields["tree"].arr, t.fields["capacity"], z3.IntVal(a) if isinstance(a, int) else a,
                   z3.IntVal(b) if isinstance(b, int) else b)


def Fmin(t, a, b):
    return T.F_min(t.fields["tree"].arr, t.fields["capacity"], z3.IntVal(a) if isinstance(a, int) else a,
                   z3.IntVal(b) if isinstance(b, int) else b)


def lem_node_sum(t, node, lo, span):
    return z3.Implies(WF(t), T.node_sum(t.fields["tree"].arr, t.fields["capacity"], node, lo, span))


def lem_node_min(t, node, lo, span):
    return z3.Implies(WF(t), T.node_min(t.fields["tree"].arr, t.fields["capacity"], node, lo, span))


def lem_add_sum(t, a, m, b):
    return T.add_sum(t.fields["tree"].arr, t.fields["capacity"], a, m, b)


def lem_add_min(t, a, m, b):
    return T.add_min(t.fields["tree"].arr, t.fields["capacity"], a, m, b)


def lem_nonneg(t, a, b):
    return T.nonneg_sum(t.fields["tree"].arr, t.fields["capacity"], a, b)


def leaves_nonneg(t):
    cap, tr = t.fields["capacity"], t.fields["tree"]
    j = z3.Int("j!ln")
    return z3.ForAll([j], z3.Implies(z3.And(cap <= j, j < 2 * cap), tr.arr[j] >= 0))


def geometry(t, node, lo, span):
    return T.geometry(t.fields["capacity"], node, lo, span)


def op_is_add(f):
    a, b = z3.Reals("a!w b!w")
    return z3.ForAll([a, b], f.decl(a, b) == a + b)


def build(tier):
    P = Prop("C11")
    P.axioms = T.pow2_axioms()
    P.specns.update(dict(WF=WF, WF_except=WF_except, leaves_are=leaves_are, Fsum=Fsum, Fmin=Fmin, is_pow2=T.is_pow2,
                         band=T.band, INF=T.INF, node_sum=lem_node_sum, node_min=lem_node_min, add_sum=lem_add_sum,
                         add_min=lem_add_min, nonneg=lem_nonneg, leaves_nonneg=leaves_nonneg, geometry=geometry))
    tree_shape(P, "Tree", ST + "SegmentTree", "uninterp")
    tree_shape(P, "SumTree", ST + "SumSegmentTree", "add")
    tree_shape(P, "MinTree", ST + "MinSegmentTree", "min")
    for name, mk in T.lemmas():
        P.lemmas.append((name, mk))

    # ---------------------------------------------------------------- SegmentTree.__setitem__ (any operation)
    P.contract(ST + "SegmentTree.__setitem__",
               params={"self": "obj:Tree", "idx": "int", "val": "real"},
               requires=["WF(self)", "0 <= idx", "idx < self.capacity"],
               modifies=["self.tree"],
               loops={0: dict(invariant=["0 <= idx", "idx < self.capacity", "len(self.tree) == 2 * self.capacity",
                                         "WF_except(self, idx)",
                                         "leaves_are(self, old(idx), val, old(self))"],
                              decreases="idx")},
               ensures=["WF(self)", "leaves_are(self, old(idx), val, old(self))"],
               witness={"self.capacity": 2, "self.tree": [0, 3, 1, 2], "idx": 1, "val": 5, "self.operation": op_is_add},
               replay="c11:setitem")

    # ---------------------------------------------------------------- SegmentTree.__getitem__
    P.contract(ST + "SegmentTree.__getitem__",
               params={"self": "obj:Tree", "idx": "int"},
               requires=["WF(self)"],
               raises={"AssertionError": "not (0 <= idx and idx < self.capacity)"}, raises_iff=True,
               ensures=["result == self.tree[self.capacity + idx]"], result="real",
               witness={"self.capacity": 2, "self.tree": [0, 3, 1, 2], "idx": 1, "self.operation": op_is_add})

    # ---------------------------------------------------------------- SegmentTree.__init__
    return P
