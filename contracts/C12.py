"""C12 — the vectorised multi-agent environment equals N independent environments (sequential logic; IPC trusted).

Under contract (real code, extracted mechanically):
  * the `step` command branch of _async_worker (a region of the function): what is published to shared memory and what is
    sent back, incl. the auto-reset case;
  * process_transition: every agent gets its own value or the placeholder;
  * PettingZooAutoResetParallelWrapper.step: reset iff every agent is terminated or truncated.
The sub-environment is an uninterpreted transition system: env.step / env.reset return fresh symbolic per-agent values.
Two agents (concrete key set, symbolic values and flags); scheduling, pipes and shared-memory visibility are trusted.
"""
import ast

import z3

from pyvc.execu import to_bool, z3ify
from pyvc.main import Prop
from pyvc.values import Fn, Obj, Opaque, Undecided, fresh_name
from pyvc.execu import z3ify as _z
from .C17 import region

AGENTS = ["agent_0", "agent_1"]
V = z3.DeclareSort("Val12")
VEC = "agilerl.vector.pz_async_vec_env."


def sym_dict(label, sort=None, present=AGENTS):
    return {a: (z3.Const(f"{label}[{a}]", sort) if sort is not None else z3.Bool(f"{label}[{a}]")) for a in present}


class Env:
    """Uninterpreted environment."""

    def __init__(self):
        self.o1, self.r1, self.i1 = sym_dict("obs1", V), sym_dict("rew1", V), sym_dict("info1", V)
        self.te, self.tr = sym_dict("term1"), sym_dict("trunc1")
        self.o0, self.i0 = sym_dict("obs0", V), sym_dict("info0", V)
        self.resets = 0

    def getattr(self, ex, st, name):
        if name == "step":
            return Fn(model=lambda ex, st, a, k: (dict(self.o1), dict(self.r1), dict(self.te), dict(self.tr), dict(self.i1)), name="step")
        if name == "reset":
            def reset(ex, st, a, k):
                self.resets += 1
                return (dict(self.o0), dict(self.i0))
            return Fn(model=reset, name="reset")
        raise Undecided(f"env attribute {name}")


class Recorder:
    def __init__(self):
        self.sent, self.published = [], []

    def getattr(self, ex, st, name):
        if name == "send":
            return Fn(model=lambda ex, st, a, k: self.sent.append(a[0]), name="send")
        raise Undecided(f"pipe attribute {name}")


def same_dict(d, want):
    if not isinstance(d, dict) or set(d) != set(want):
        return z3.BoolVal(False)
    return z3.And(*[z3ify(d[k]) == z3ify(want[k]) for k in want]) if want else z3.BoolVal(True)


def build(tier):
    P = Prop("C12")
    PH = {n: z3.Const("placeholder_" + n, V) for n in ("observation", "reward", "info")}

    def placeholder(ex, st, args, kwargs):
        name = args[1]
        if name in ("terminated",):
            return True
        if name == "truncated":
            return False
        return PH[name]
    env, rec = Env(), Recorder()

    def worker_post(ex_env, ex_rec):
        def post():
            e, r = ex_env, ex_rec
            if len(r.sent) != 1 or len(r.published) != 1:
                return z3.BoolVal(False)
            (payload, ok) = r.sent[0] if isinstance(r.sent[0], tuple) and len(r.sent[0]) == 2 else (None, None)
            if ok is not True or not (isinstance(payload, tuple) and len(payload) == 4):
                return z3.BoolVal(False)
            rew, te, tr, info = payload
            finished = z3.And(*[z3.Or(e.te[a], e.tr[a]) for a in AGENTS])
            idx, obs = r.published[0]
            out = [same_dict(rew, e.r1), same_dict(te, e.te), same_dict(tr, e.tr), z3.BoolVal(idx is ex_index[0])]
            # published observation: the step observation, or - iff every agent is terminated or truncated - the first
            # observation of the new episode; exactly one reset in that case, none otherwise
            out.append(z3.If(finished, z3.And(same_dict(obs, e.o0), z3.BoolVal(True)), same_dict(obs, e.o1)))
            out.append(same_dict(info, e.i1))        # info is the step's info (as if stepped alone)
            out.append(z3.If(finished, z3.BoolVal(e.resets == 1), z3.BoolVal(e.resets == 0)))
            return z3.And(*out)
        return post
    ex_index = [None]

    def setup(ex, st, fr):
        nonlocal env, rec
        env.__init__()
        rec.__init__()
        cur["rec"] = rec
        ex_index[0] = z3.Int("index")
        st.locals.update(dict(env=env, pipe=rec, index=ex_index[0], agents=list(AGENTS), shared_memory=Opaque("shm"),
                              observation_space={a: Opaque("space") for a in AGENTS},
                              data=[z3.Int("act0"), z3.Int("act1")], command="step", env_fn=Opaque("env_fn"),
                              parent_pipe=Opaque("pp"), error_queue=Opaque("eq")))
    cur = {"rec": rec}
    P.lib[VEC + "write_to_shared_memory"] = lambda ex, st, a, k: cur["rec"].published.append((a[0], a[1]))
    P.lib[VEC + "get_placeholder_value"] = placeholder
    P.lib["numpy.array"] = lambda ex, st, a, k: a[0]
    P.specns["worker_post"] = worker_post(env, rec)
    P.contract(VEC + "_async_worker", variant="step-branch", setup=setup,
               region=region("data = {", "pipe.send(((reward"),
               params={}, requires=[], frame_fields=False,
               ensures=["worker_post()"], replay="c12:vecenv")

    # the same step branch when the environment keys its termination and truncation dicts in a different order (PettingZoo does
    # not fix the order): the flags of ONE agent have to be combined, not the flags at the same position
    env2, rec2 = Env(), Recorder()

    def setup_order(ex, st, fr):
        env2.__init__()
        rec2.__init__()
        cur["rec"] = rec2
        env2.tr = {a: env2.tr[a] for a in reversed(AGENTS)}
        ex_index[0] = z3.Int("index")
        st.locals.update(dict(env=env2, pipe=rec2, index=ex_index[0], agents=list(AGENTS), shared_memory=Opaque("shm"),
                              observation_space={a: Opaque("space") for a in AGENTS}, action_shape={a: () for a in AGENTS},
                              data=[z3.Int("act0"), z3.Int("act1")], command="step", env_fn=Opaque("env_fn"),
                              parent_pipe=Opaque("pp"), error_queue=Opaque("eq")))
    wp2 = worker_post(env2, rec2)
    P.specns["worker_post_order"] = wp2
    P.contract(VEC + "_async_worker", variant="step-branch-key-order", setup=setup_order,
               region=region("observation, reward, terminated, truncated, info = env.step(data)", "pipe.send(((reward"),
               params={}, requires=[], frame_fields=False, ensures=["worker_post_order()"], replay="c12:keyorder")

    # shared-memory allocation: every dtype a gymnasium space can declare gets a buffer of num_envs * prod(shape) elements
    CTYPES_CODES = set("cbBhHiIlLqQfd")         # multiprocessing's typecode_to_type (trusted library contract); anything else raises TypeError

    class Ctx:
        def getattr(self, ex, st, name):
            if name == "Array":
                def array(ex, st, a, k):
                    tc = a[0]
                    if isinstance(tc, str) and tc not in CTYPES_CODES:
                        raise __import__("pyvc.values", fromlist=["PyRaise"]).PyRaise("TypeError")
                    return ("shared-array", tc, a[1])
                return Fn(model=array, name=name)
            raise Undecided(name)

    class DT:
        def __init__(self, char):
            self.char = char

        def getattr(self, ex, st, name):
            if name == "char":
                return self.char
            raise Undecided(name)

    class SpaceD:
        def __init__(self, char):
            self.dt = DT(char)

        def getattr(self, ex, st, name):
            if name == "dtype":
                return self.dt
            if name == "shape":
                return (2, 3)
            raise Undecided(name)
    P.lib["ctypes.c_bool"] = lambda ex, st, a, k: "c_bool"
    NE = z3.Int("num_envs")
    P.specns["sized"] = lambda r, n: z3.And(z3.BoolVal(isinstance(r, tuple) and r[0] == "shared-array"), z3ify(r[2]) == 6 * z3ify(n)) if isinstance(r, tuple) else z3.BoolVal(False)
    for nm, ch in (("bool", "?"), ("int8", "b"), ("uint8", "B"), ("int16", "h"), ("int32", "i"), ("int64", "l"), ("uint64", "L"), ("float32", "f"), ("float64", "d")):
        P.contract(VEC + "_create_memory_array", variant=f"dtype-{nm}", params={"num_envs": "int", "obs_space": (lambda ex, st, l, ch=ch: SpaceD(ch)), "context": (lambda ex, st, l: Ctx())},
                   requires=["num_envs >= 1"], modifies=[], raises={}, raises_iff=True, ensures=["sized(result, num_envs)"], replay="c12:dtypes")

    # the actions handed to env.step: each agent's action arrives with the shape of ITS action space and its own values
    from . import ndt
    from .ndt import ND
    AV = z3.Function("action_value", z3.IntSort(), z3.IntSort(), z3.RealSort())
    kinds = {"box1": (1,), "box1x2": (1, 2), "box3": (3,), "scalar": (), "multidiscrete1": (1,)}
    for kname, shape in kinds.items():
        got = {}

        def setup_a(ex, st, fr, shape=shape, got=got):
            got.clear()
            e = Env()
            e_get = e.getattr

            def env_getattr(ex, st, name):
                if name == "step":
                    def step(ex, st, a, k):
                        got.update(a[0])
                        return (dict(e.o1), dict(e.r1), dict(e.te), dict(e.tr), dict(e.i1))
                    return Fn(model=step, name="step")
                return e_get(ex, st, name)
            e.getattr = env_getattr
            acts = [ND(list(shape), (lambda idx, i=i: AV(z3.IntVal(i), ndt.ravel(idx, list(shape)) if shape else z3.IntVal(0))), "action", True) for i in range(2)]
            acts[1] = 1 if shape == () else acts[1]          # a Discrete agent next to it: python int passes through
            st.locals.update(dict(env=e, pipe=Recorder(), index=z3.Int("index"), agents=list(AGENTS), shared_memory=Opaque("shm"),
                                  observation_space={a: Opaque("space") for a in AGENTS}, action_shape={a: tuple(shape) for a in AGENTS},
                                  data=acts, command="step", env_fn=Opaque("env_fn"), parent_pipe=Opaque("pp"), error_queue=Opaque("eq")))

        def act_post(shape=shape, got=got):
            if set(got) != set(AGENTS):
                return z3.BoolVal(False)
            out = []
            for i, a in enumerate(AGENTS):
                v = got[a]
                if isinstance(v, int):
                    out.append(z3.BoolVal(shape == () and i == 1 and v == 1))
                    continue
                if not isinstance(v, ND) or len(v.shape) != len(shape) or any(ndt.cp(x) != (y, None) for x, y in zip(v.shape, shape)):
                    return z3.BoolVal(False)                                      # the sub-environment sees another shape than when stepped alone
                n = 1
                for d in shape:
                    n *= d
                out += [v.flat(z3.IntVal(k)) == AV(z3.IntVal(i), z3.IntVal(k)) for k in range(n)]
            return z3.And(*out)
        P.specns[f"act_post_{kname}"] = act_post
        P.contract(VEC + "_async_worker", variant=f"step-actions-{kname}", setup=setup_a,
                   region=region("data = {", "observation, reward, terminated, truncated, info = env.step(data)"),
                   params={}, requires=[], frame_fields=False, ensures=[f"act_post_{kname}()"], replay="c12:actions")
    P.lib["numpy.size"] = lambda ex, st, a, k: (a[0].numel() if isinstance(a[0], ND) else 1)       # number of elements (1 for a scalar)
    P.trusted.append(ndt.DOC)

    # PettingZooVecEnv.step: the batch of actions is split per environment without changing any value (continuous scalars stay floats)
    sent = []

    def vec_self(ex, st, label):
        sent.clear()
        o = Obj("agilerl.vector.pz_vec_env.PettingZooVecEnv", label="self")
        o.fields.update(dict(agents=list(AGENTS), num_envs=2, step_async=Fn(model=lambda ex, st, a, k: sent.append(a[0]), name="step_async"),
                             step_wait=Fn(model=lambda ex, st, a, k: Opaque("step-result"), name="step_wait")))
        return o
    FA = [[z3.Real("cont_action_env0"), z3.Real("cont_action_env1")], [z3.Int("disc_action_env0"), z3.Int("disc_action_env1")]]
    P.lib["numpy.isscalar"] = lambda ex, st, a, k: isinstance(a[0], (int, float, z3.ArithRef)) and not isinstance(a[0], bool)

    def split_post():
        if len(sent) != 1 or not isinstance(sent[0], list) or len(sent[0]) != 2:
            return z3.BoolVal(False)
        out = []
        for e in range(2):
            row = sent[0][e]
            if not isinstance(row, list) or len(row) != 2:
                return z3.BoolVal(False)
            for ai in range(2):
                v, w = z3ify(row[ai]), FA[ai][e]
                v, w = (z3.ToReal(v) if v.sort() == z3.IntSort() else v), (z3.ToReal(w) if w.sort() == z3.IntSort() else w)
                out.append(v == w)
        return z3.And(*out)
    P.specns["split_post"] = split_post
    P.contract("agilerl.vector.pz_vec_env.PettingZooVecEnv.step", params={"self": vec_self, "actions": (lambda ex, st, l: {AGENTS[0]: list(FA[0]), AGENTS[1]: list(FA[1])})},
               requires=[], frame_fields=False, ensures=["split_post()"], replay="c12:actions")

    # process_transition: own value if present else placeholder, for every name and every agent
    for variant, present in (("all-present", AGENTS), ("agent_0-missing", ["agent_1"]), ("nobody", [])):
        o, r, te, tr, i = (sym_dict("o", V, present), sym_dict("r", V, present), sym_dict("te", None, present), sym_dict("tr", None, present),
                           sym_dict("i", V, present))

        def pt_post(result, srcs=(o, r, te, tr, i), present=present):
            names = ["observation", "reward", "terminated", "truncated", "info"]
            if not isinstance(result, (list, tuple)) or len(result) != 5:
                return z3.BoolVal(False)
            out = []
            for d, src, n in zip(result, srcs, names):
                if not isinstance(d, dict) or set(d) != set(AGENTS):
                    return z3.BoolVal(False)
                for a in AGENTS:
                    if a in present:
                        out.append(z3ify(d[a]) == z3ify(src[a]))
                    else:
                        ph = placeholder(None, None, [a, n], {})
                        out.append(z3.BoolVal(d[a] is ph) if isinstance(ph, bool) else z3ify(d[a]) == ph)
            return z3.And(*out)
        P.specns["pt_post_" + variant.replace("-", "_")] = pt_post
        P.contract(VEC + "process_transition", variant=variant,
                   params={"transitions": (lambda ex, st, l, t=(o, r, te, tr, i): tuple(dict(x) for x in t)),
                           "obs_spaces": (lambda ex, st, l: {a: Opaque("space") for a in AGENTS}),
                           "transition_names": (lambda ex, st, l: ["observation", "reward", "terminated", "truncated", "info"]),
                           "agents": (lambda ex, st, l: list(AGENTS))},
                   requires=[], modifies=[], ensures=[f"pt_post_{variant.replace('-', '_')}(result)"], replay="c12:vecenv")

    # the single-environment auto-reset wrapper restarts under the same condition
    wenv = Env()

    def wsetup(ex, st, fr):
        wenv.__init__()
        st.locals["self"] = Obj("model.Wrapper", {"env": wenv}, label="self")
        st.locals["actions"] = {a: z3.Int("act_" + a) for a in AGENTS}

    def wrapper_post(result):
        if not (isinstance(result, tuple) and len(result) == 5):
            return z3.BoolVal(False)
        o, r, te, tr, i = result
        finished = z3.And(*[z3.Or(wenv.te[a], wenv.tr[a]) for a in AGENTS])
        return z3.And(same_dict(r, wenv.r1), same_dict(te, wenv.te), same_dict(tr, wenv.tr),
                      z3.If(finished, z3.And(same_dict(o, wenv.o0), z3.BoolVal(wenv.resets == 1)),
                            z3.And(same_dict(o, wenv.o1), z3.BoolVal(wenv.resets == 0))))
    P.specns["wrapper_post"] = wrapper_post
    P.contract("agilerl.wrappers.pettingzoo_wrappers.PettingZooAutoResetParallelWrapper.step", setup=wsetup,
               params={}, requires=[], frame_fields=False, ensures=["wrapper_post(result)"], replay="c12:wrapper")
    # ---- slice arithmetic of the shared observation buffers (Box spaces; Dict / Tuple members use the same three lines per member)
    from pyvc.values import Seq, PyRaise
    NE, SZ, IDX = z3.Int("num_envs"), z3.Int("size"), z3.Int("index")
    BUF0 = z3.Const("buffer0", z3.ArraySort(z3.IntSort(), z3.RealSort()))
    OBS = z3.Const("obs_flat", z3.ArraySort(z3.IntSort(), z3.RealSort()))

    class Buf:
        def __init__(self):
            self.arr = BUF0
            self.n = NE * SZ

        def getattr(self, ex, st, name):
            if name == "get_obj":
                return Fn(model=lambda ex, st, a, k: self, name=name)
            raise Undecided(f"buffer attribute {name}")

        def getitem(self, ex, st, idx):
            if isinstance(idx, slice) and idx.step is None:
                return BufView(self, z3ify(idx.start), z3ify(idx.stop))
            raise Undecided("buffer index")

    class BufView:
        def __init__(self, base, lo, hi):
            self.base, self.lo, self.hi = base, lo, hi

    class FlatObs:
        def __init__(self):
            self.arr, self.n = OBS, SZ

        def getattr(self, ex, st, name):
            if name == "flatten":
                return Fn(model=lambda ex, st, a, k: self, name=name)
            raise Undecided(name)

    def copyto(ex, st, a, k):
        dst, src = a
        if not isinstance(dst, BufView) or not isinstance(src, FlatObs):
            raise Undecided("np.copyto on unknown values")
        # numpy: the slice is clamped to the buffer; source and destination extents must agree
        lo, hi, n = dst.lo, dst.hi, dst.base.n
        ok = z3.And(0 <= lo, lo <= hi, hi <= n, hi - lo == src.n)
        ex.oblige(st, f"{ex.prop}.write_to_shared_memory.slice-fits", ok, "lib-pre", None, "destination slice lies inside the buffer and has the observation's size")
        j = z3.Int("j!ct")
        dst.base.arr = z3.Lambda([j], z3.If(z3.And(lo <= j, j < hi), src.arr[j - lo], dst.base.arr[j]))

    class SpaceM:
        def isinstance(self, ex, st, names):
            return "Box" in names

        def getattr(self, ex, st, name):
            if name == "shape":
                return Opaque("shape")
            if name == "dtype":
                return Opaque("dtype")
            raise Undecided(name)
    buf = Buf()

    def wsm_setup(ex, st, fr):
        buf.__init__()
        st.assume(z3.And(NE >= 1, SZ >= 1, 0 <= IDX, IDX < NE))
        st.locals.update(dict(index=IDX, observation={"agent_0": FlatObs()}, shared_memory={"agent_0": buf}, obs_space={"agent_0": SpaceM()}))
    P.lib["numpy.prod"] = lambda ex, st, a, k: (__import__("math").prod(a[0]) if isinstance(a[0], tuple) and all(isinstance(x, int) for x in a[0]) else SZ)
    P.lib["numpy.frombuffer"] = lambda ex, st, a, k: a[0]
    P.lib["numpy.copyto"] = copyto
    P.lib["numpy.asarray"] = lambda ex, st, a, k: a[0]

    def wsm_post():
        j = z3.Int("j!wp")
        lo = IDX * SZ
        return z3.ForAll([j], z3.Implies(z3.And(0 <= j, j < NE * SZ),
                                         buf.arr[j] == z3.If(z3.And(lo <= j, j < lo + SZ), OBS[j - lo], BUF0[j])))   # own slice written in order, every other env's slice untouched
    P.specns["wsm_post"] = wsm_post
    P.contract(VEC + "write_to_shared_memory", setup=wsm_setup, params={}, requires=[], frame_fields=False,
               ensures=["wsm_post()"], replay="c12:vecenv")

    class RawView:
        def getattr(self, ex, st, name):
            if name == "reshape":
                def reshape(ex, st, a, k):
                    shp = a[0]
                    if not (isinstance(shp, tuple) and len(shp) == 2):
                        raise Undecided("reshape to other than (num_envs, size)")
                    return Reshaped(shp[0], shp[1])
                return Fn(model=reshape, name=name)
            raise Undecided(name)

    class Reshaped:
        """C-order reshape of a flat buffer to (rows, cols): element (i, k) is flat[i*cols + k] (trusted numpy layout)"""

        def __init__(self, rows, cols):
            self.rows, self.cols = rows, cols

        def getattr(self, ex, st, name):
            if name == "astype":
                return Fn(model=lambda ex, st, a, k: self, name=name)
            raise Undecided(name)

    class BoxShape(SpaceM):
        def getattr(self, ex, st, name):
            if name == "shape":
                return (SZ,)
            return SpaceM.getattr(self, ex, st, name)

    def obs_setup(ex, st, fr):
        st.assume(z3.And(NE >= 1, SZ >= 1))
        o = Obj("model.Observations", {"obs_spaces": {"agent_0": BoxShape()}, "obs_view": {"agent_0": RawView()}, "num_envs": NE}, label="self")
        st.locals.update(dict(self=o, agent="agent_0"))
    P.specns["obs_post"] = lambda r: z3.And(z3.BoolVal(isinstance(r, Reshaped)), *( [z3ify(r.rows) == NE, z3ify(r.cols) == SZ] if isinstance(r, Reshaped) else []))
    P.contract(VEC + "Observations.__getitem__", setup=obs_setup, params={}, requires=[], frame_fields=False,
               ensures=["obs_post(result)"], replay="c12:vecenv")
    P.trusted += ["numpy: frombuffer is a view of the shared array; dest[a:b] is a view; copyto writes element-wise; reshape((n, s)) of a flat buffer is C-order "
                  "(element (i,k) = flat[i*s+k]) - so worker i's slice [i*s,(i+1)*s) is exactly what position i of the returned array reads"]
    for nm, bound, quick in (("actions", "4 action-space layouts (Box (1,), (1,2), (3,), (); Discrete; MultiDiscrete [5], [3,2]), 3 envs: values, shapes, float kind", False),
                             ("keyorder", "2 environments whose termination/truncation dicts differ in order / key set, 5 steps, vs. the auto-reset wrapper", False),
                             ("dtypes", "observation dtypes bool, int8..int64, uint8, uint64, float32, float64 as top-level Box and Dict member", False),
                             ("declared", "returned batches vs. the declared batched observation space: Discrete (plain, Dict member, Tuple member), Box, image, MultiDiscrete, MultiBinary", True)):
        P.native.append(dict(name=nm, adapter=f"c12:{nm}", bound=bound, payload={"mode": "search"}, thorough_only=not quick))
    P.native.append(dict(name="vecenv", adapter="c12:vecenv", thorough_only=True,
                         bound="8 scripted scenarios: 1-3 sub-envs, episode lengths 1-6, ends by termination / truncation / mixed, agent leaving early, copy on/off",
                         payload={"mode": "search"}))
    P.trusted += ["the sub-environment is an arbitrary (uninterpreted) transition system", "pipes deliver messages in order; RawArray shared memory is "
                  "visible across processes; write_to_shared_memory(index, obs, ...) publishes obs in slot `index` (slice arithmetic not under contract yet)",
                  "two agents with symbolic values/flags (key set concrete)"]
    P.assumptions += ["scheduling / IPC / dtype conversion are outside the contracts (DESIGN 6)"]
    P.uncovered += ["Dict / Tuple observation members of the shared buffers (same three lines per member, not under contract); step_wait ordering (native adapter only)",
                    "shapes and dtypes of the returned arrays", "more than two agents"]
    return P
