"""C13 — the vector environment rejects misuse; timeouts and worker exceptions are reported (state machine, narrow).

The asynchronous interface is a four-state machine (DEFAULT / WAITING_RESET / WAITING_STEP / WAITING_CALL).  Each *_async
and *_wait method, _poll_pipe_envs and _raise_if_errors are executed symbolically on an environment object with a
symbolic `closed` flag and `_state`, two pipes whose readiness / closed flags / replies are symbolic, and an error
queue holding symbolic exception types.  Real processes, wall-clock and hangs are outside the technique (DESIGN 6).
"""
import z3

from pyvc.execu import z3ify
from pyvc.main import Prop
from pyvc.values import Fn, ModRef, Obj, Opaque, PyRaise, Undecided, fresh_name

VEC = "agilerl.vector.pz_async_vec_env."
CLS = VEC + "AsyncPettingZooVecEnv"
STATES = {"DEFAULT": 0, "WAITING_RESET": 1, "WAITING_STEP": 2, "WAITING_CALL": 3}


class Pipe:
    def __init__(self, i):
        self.i = i
        self.closed = z3.Bool(f"pipe{i}.closed")
        self.ready = z3.Bool(f"pipe{i}.ready")
        self.success = z3.Bool(f"pipe{i}.success")
        self.sent = []
        self.was_closed = False

    def getattr(self, ex, st, name):
        if name == "closed":
            return self.closed
        if name == "poll":
            return Fn(model=lambda ex, st, a, k: self.ready, name="poll")
        if name == "send":
            return Fn(model=lambda ex, st, a, k: self.sent.append(a[0]), name="send")
        if name == "recv":
            return Fn(model=lambda ex, st, a, k: (({"a0": Opaque("r")}, {"a0": Opaque("te")}, {"a0": Opaque("tr")}, {"a0": {}}), self.success),
                      name="recv")
        if name == "close":
            def close(ex, st, a, k):
                self.was_closed = True
            return Fn(model=close, name="close")
        raise Undecided(f"pipe attribute {name}")


class ExcType:
    def __init__(self, name):
        self.exc_name = name

    def call(self, ex, st, args, kwargs):
        return self


class ErrQueue:
    """error_queue.get() yields (index, exctype, value, trace) of a failed worker; index symbolic in {0,1}."""

    def __init__(self):
        self.gets = 0

    def getattr(self, ex, st, name):
        if name == "get":
            def get(ex, st, a, k):
                self.gets += 1
                # each failed worker reports exactly once: distinct indices
                if self.gets == 1:
                    idx = 0 if ex.decide(st, z3.Bool(fresh_name("err.index.is0"))) else 1
                    self.first = idx
                else:
                    idx = 1 - self.first
                return (idx, ExcType(f"WorkerError{self.gets}"), Opaque("value"), Opaque("trace"))
            return Fn(model=get, name="get")
        if name == "empty":
            return Fn(model=lambda ex, st, a, k: z3.Bool(fresh_name("err.empty")), name="empty")
        raise Undecided(f"queue attribute {name}")


def build(tier):
    P = Prop("C13")
    closed, state = z3.Bool("closed"), z3.Int("state")
    P.axioms += [0 <= state, state <= 3]
    pipes = [Pipe(0), Pipe(1)]
    queue = ErrQueue()

    def mk_self(ex, st, label):
        for i in range(2):
            pipes[i].__init__(i)
        queue.__init__()
        o = Obj(CLS, label="self")
        o.fields.update(dict(closed=closed, _state=state, parent_pipes=list(pipes), num_envs=2, error_queue=queue, agents=["a0"],
                             observations={"a0": Opaque("obs")}, copy=False,
                             _add_info=Fn(model=lambda ex, st, a, k: a[0], name="_add_info")))
        return o
    P.enums = {VEC + "AsyncState." + k: v for k, v in STATES.items()}
    import collections
    P.lib["collections.defaultdict"] = lambda ex, st, a, k: collections.defaultdict(list)
    P.lib["copy.deepcopy"] = lambda ex, st, a, k: a[0]
    P.lib["numpy.array"] = lambda ex, st, a, k: a[0]
    P.lib["time.perf_counter"] = lambda ex, st, a, k: z3.Real(fresh_name("now"))
    P.lib["agilerl.vector.pz_async_vec_env.logger.error"] = lambda ex, st, a, k: None
    P.specns.update(dict(S=STATES, closed0=closed, state0=state))

    def sent_all(cmd):
        return lambda: z3.BoolVal(all(len(p.sent) == 1 and isinstance(p.sent[0], tuple) and p.sent[0][0] == cmd for p in pipes))
    for cmd in ("reset", "step", "_call"):
        P.specns["sent_" + cmd.strip("_")] = sent_all(cmd)
    P.specns["nothing_sent"] = lambda: z3.BoolVal(all(len(p.sent) == 0 for p in pipes))
    asyncs = [("reset_async", {"seed": lambda ex, st, l: None, "options": lambda ex, st, l: None}, "WAITING_RESET", "sent_reset()"),
              ("step_async", {"actions": lambda ex, st, l: [Opaque("act0"), Opaque("act1")]}, "WAITING_STEP", "sent_step()"),
              ("call_async", {"name": lambda ex, st, l: "render", "args": lambda ex, st, l: (), "kwargs": lambda ex, st, l: {}}, "WAITING_CALL", "sent_call()")]
    for name, params, nxt, sent in asyncs:
        P.contract(f"{CLS}.{name}", params=dict(self=mk_self, **params), requires=[], frame_fields=False,
                   raises={"ClosedEnvironmentError": "closed0", "AlreadyPendingCallError": "not closed0 and state0 != 0"}, raises_iff=True,
                   ensures_raise={"ClosedEnvironmentError": ["self._state == state0", "nothing_sent()"],
                                  "AlreadyPendingCallError": ["self._state == state0", "nothing_sent()"]},   # misuse leaves the env usable
                   ensures=[f"self._state == {STATES[nxt]}", sent], replay="c13:misuse")
    ready_all = lambda: z3.And(*[z3.And(z3.Not(p.closed), p.ready) for p in pipes])
    succ_all = lambda: z3.And(*[p.success for p in pipes])
    P.specns.update(dict(ready_all=ready_all, succ_all=succ_all))
    waits = [("reset_wait", "WAITING_RESET"), ("step_wait", "WAITING_STEP"), ("call_wait", "WAITING_CALL")]
    for name, need in waits:
        n = STATES[need]
        P.contract(f"{CLS}.{name}", params=dict(self=mk_self, timeout="opt:real"), requires=[], frame_fields=False,
                   raises={"ClosedEnvironmentError": "closed0",
                           "NoAsyncCallError": f"not closed0 and state0 != {n}",
                           "TimeoutError": f"not closed0 and state0 == {n} and timeout is not None and not ready_all()",
                           "WorkerError1": f"not closed0 and state0 == {n} and not succ_all()",
                           "WorkerError2": f"not closed0 and state0 == {n} and not succ_all()"},
                   ensures_raise={"ClosedEnvironmentError": ["self._state == state0"], "NoAsyncCallError": ["self._state == state0"],
                                  "TimeoutError": ["self._state == 0"], "WorkerError1": ["self._state == 0"], "WorkerError2": ["self._state == 0"]},
                   ensures=["self._state == 0", "succ_all()", "implies(timeout is not None, ready_all())"], replay="c13:misuse")
    # _poll_pipe_envs: True only if every pipe is open and has data within the remaining time
    P.contract(f"{CLS}._poll_pipe_envs", params=dict(self=mk_self, timeout="opt:real"), requires=["not closed0"], frame_fields=False,
               result="bool", modifies=[],
               ensures=["result == (timeout is None or ready_all())" if False else "implies(timeout is not None, result == ready_all())",
                        "implies(timeout is None, result == True)"], replay="c13:misuse")
    P.assumptions += ["two sub-environments (concrete), symbolic flags", "wall-clock, process liveness and hangs are outside the contracts"]
    P.uncovered += ["close() returns promptly and leaves no worker alive; killed workers; fault interleavings; real timeouts (bounded native adapter only)",
                    "set_attr, close_extras"]
    P.native.append(dict(name="misuse", adapter="c13:misuse", thorough_only=True, bound="3 workers; out-of-order calls; one raiser / one sleeper / raiser+sleeper",
                         payload={"mode": "search"}))
    return P
