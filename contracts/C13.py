"""C13 — the vector environment rejects misuse; timeouts and worker exceptions are reported (state machine, narrow).

The asynchronous interface is a four-state machine (DEFAULT / WAITING_RESET / WAITING_STEP / WAITING_CALL).  Each *_async
and *_wait method, _poll_pipe_envs and _raise_if_errors are executed symbolically on an environment object with a
symbolic `closed` flag and `_state`, two pipes whose readiness / closed flags / replies are symbolic, and an error
queue holding symbolic exception types.  Real processes, wall-clock and hangs are outside the technique (DESIGN 6).
"""
import z3

from pyvc.execu import z3ify
from pyvc.main import Prop
from pyvc.values import Fn, ModRef, Obj, Opaque, PyRaise, Undecided, fresh_name

VEC = "agilerl.vector.pz_async_vec_env."
CLS = VEC + "AsyncPettingZooVecEnv"
STATES = {"DEFAULT": 0, "WAITING_RESET": 1, "WAITING_STEP": 2, "WAITING_CALL": 3}


class Pipe:
    def __init__(self, i):
        self.i = i
        self.closed = z3.Bool(f"pipe{i}.closed")
        self.ready = z3.Bool(f"pipe{i}.ready")
        self.success = z3.Bool(f"pipe{i}.success")
        self.sent = []
        self.recvs = 0
        self.was_closed = False

    def getattr(self, ex, st, name):
        if name == "closed":
            return self.closed
        if name == "poll":
            return Fn(model=lambda ex, st, a, k: self.ready, name="poll")
        if name == "send":
            return Fn(model=lambda ex, st, a, k: self.sent.append(a[0]), name="send")
        if name == "recv":
            def recv(ex, st, a, k):
                self.recvs += 1
                return (({"a0": Opaque("r")}, {"a0": Opaque("te")}, {"a0": Opaque("tr")}, {"a0": {}}), self.success)
            return Fn(model=recv, name="recv")
        if name == "close":
            def close(ex, st, a, k):
                self.was_closed = True
            return Fn(model=close, name="close")
        raise Undecided(f"pipe attribute {name}")


class DeadPipe(Pipe):
    """pipe to a worker that may have been killed: send raises BrokenPipeError, recv raises EOFError (symbolic flag)"""

    def __init__(self, i):
        Pipe.__init__(self, i)
        self.dead = z3.Bool(f"pipe{i}.worker_dead")

    def getattr(self, ex, st, name):
        if name in ("send", "recv"):
            inner = Pipe.getattr(self, ex, st, name)

            def f(ex, st, a, k, name=name, inner=inner):
                if ex.decide(st, self.dead):
                    raise PyRaise("BrokenPipeError" if name == "send" else "EOFError")
                return inner.model(ex, st, a, k)
            return Fn(model=f, name=name)
        return Pipe.getattr(self, ex, st, name)


class ExcInst:
    """the exception instance a worker put on the error queue"""

    def __init__(self, name):
        self.exc_name = name

    def isinstance(self, ex, st, names):
        return any(n in ("BaseException", "Exception", self.exc_name) for n in names)


class ExcType:
    """an ARBITRARY exception class: calling it with one positional argument either builds an instance or fails with TypeError
    (built-ins such as UnicodeDecodeError and user classes with other signatures)"""

    def __init__(self, name):
        self.exc_name = name

    def construct(self, ex, st, args):
        if ex.decide(st, z3.Bool(fresh_name("exc.ctor_accepts_one_arg"))):
            return ExcInst(self.exc_name)
        raise PyRaise("TypeError")

    def call(self, ex, st, args, kwargs):
        return self.construct(ex, st, args)


class ErrQueue:
    """error_queue.get() yields (index, exctype, value, trace) of a failed worker; index symbolic in {0,1}."""

    def __init__(self):
        self.gets = 0

    def getattr(self, ex, st, name):
        if name == "get":
            def get(ex, st, a, k):
                self.gets += 1
                # each failed worker reports exactly once: distinct indices
                if self.gets == 1:
                    idx = 0 if ex.decide(st, z3.Bool(fresh_name("err.index.is0"))) else 1
                    self.first = idx
                else:
                    idx = 1 - self.first
                return (idx, ExcType(f"WorkerError{self.gets}"), ExcInst(f"WorkerError{self.gets}"), Opaque("trace"))
            return Fn(model=get, name="get")
        if name == "empty":
            return Fn(model=lambda ex, st, a, k: z3.Bool(fresh_name("err.empty")), name="empty")
        raise Undecided(f"queue attribute {name}")


def build(tier):
    P = Prop("C13")
    closed, state = z3.Bool("closed"), z3.Int("state")
    P.axioms += [0 <= state, state <= 3]
    pipes = [DeadPipe(0), DeadPipe(1)]
    queue = ErrQueue()

    def mk_self(ex, st, label):
        for i in range(2):
            pipes[i].__init__(i)
        queue.__init__()
        o = Obj(CLS, label="self")
        o.fields.update(dict(closed=closed, _state=state, parent_pipes=list(pipes), num_envs=2, error_queue=queue, agents=["a0"],
                             observations={"a0": Opaque("obs")}, copy=False,
                             _add_info=Fn(model=lambda ex, st, a, k: a[0], name="_add_info")))
        return o
    P.enums = {VEC + "AsyncState." + k: v for k, v in STATES.items()}
    import collections
    P.lib["collections.defaultdict"] = lambda ex, st, a, k: collections.defaultdict(list)
    P.lib["copy.deepcopy"] = lambda ex, st, a, k: a[0]
    P.lib["numpy.array"] = lambda ex, st, a, k: a[0]
    P.lib["time.perf_counter"] = lambda ex, st, a, k: z3.Real(fresh_name("now"))
    P.lib["agilerl.vector.pz_async_vec_env.logger.error"] = lambda ex, st, a, k: None
    P.specns.update(dict(S=STATES, closed0=closed, state0=state))

    P.specns["any_dead"] = lambda: z3.Or(*[p.dead for p in pipes])

    def sent_all(cmd):
        return lambda: z3.BoolVal(all(len(p.sent) == 1 and isinstance(p.sent[0], tuple) and p.sent[0][0] == cmd for p in pipes))
    for cmd in ("reset", "step", "_call"):
        P.specns["sent_" + cmd.strip("_")] = sent_all(cmd)
    P.specns["nothing_sent"] = lambda: z3.BoolVal(all(len(p.sent) == 0 for p in pipes))
    asyncs = [("reset_async", {"seed": lambda ex, st, l: None, "options": lambda ex, st, l: None}, "WAITING_RESET", "sent_reset()"),
              ("step_async", {"actions": lambda ex, st, l: [Opaque("act0"), Opaque("act1")]}, "WAITING_STEP", "sent_step()"),
              ("call_async", {"name": lambda ex, st, l: "render", "args": lambda ex, st, l: (), "kwargs": lambda ex, st, l: {}}, "WAITING_CALL", "sent_call()")]
    for name, params, nxt, sent in asyncs:
        P.contract(f"{CLS}.{name}", params=dict(self=mk_self, **params), requires=["not any_dead()"], frame_fields=False,
                   raises={"ClosedEnvironmentError": "closed0", "AlreadyPendingCallError": "not closed0 and state0 != 0"}, raises_iff=True,
                   ensures_raise={"ClosedEnvironmentError": ["self._state == state0", "nothing_sent()"],
                                  "AlreadyPendingCallError": ["self._state == state0", "nothing_sent()"]},   # misuse leaves the env usable
                   ensures=[f"self._state == {STATES[nxt]}", sent], replay="c13:misuse")
    ready_all = lambda: z3.And(*[z3.And(z3.Not(p.closed), p.ready) for p in pipes])
    succ_all = lambda: z3.And(*[p.success for p in pipes])
    P.specns.update(dict(any_dead=lambda: z3.Or(*[p.dead for p in pipes]),
                         drained_or_dead=lambda: z3.And(*[z3.Or(p.dead, z3.BoolVal(p.recvs == 1)) for p in pipes]),
                         dead_dropped=lambda o: z3.And(*[z3.Implies(p.dead, z3.BoolVal(p.was_closed and o.fields["parent_pipes"][i] is None)) for i, p in enumerate(pipes)])))
    P.specns.update(dict(ready_all=ready_all, succ_all=succ_all, drained=lambda: z3.BoolVal(all(p.recvs == 1 for p in pipes))))
    waits = [("reset_wait", "WAITING_RESET"), ("step_wait", "WAITING_STEP"), ("call_wait", "WAITING_CALL")]
    for name, need in waits:
        n = STATES[need]
        P.contract(f"{CLS}.{name}", params=dict(self=mk_self, timeout="opt:real"), requires=[], frame_fields=False,
                   raises={"ClosedEnvironmentError": "closed0",
                           "NoAsyncCallError": f"not closed0 and state0 != {n}",
                           "TimeoutError": f"not closed0 and state0 == {n} and timeout is not None and not ready_all()",
                           "EOFError": f"not closed0 and state0 == {n} and any_dead()",        # a killed worker
                           "WorkerError1": f"not closed0 and state0 == {n} and not succ_all() and not any_dead()",
                           "WorkerError2": f"not closed0 and state0 == {n} and not succ_all() and not any_dead()"},
                   ensures_raise={"ClosedEnvironmentError": ["self._state == state0"], "NoAsyncCallError": ["self._state == state0"],
                                  # a timed-out call is still pending: the state may only say "nothing pending" once every reply was read
                                  "TimeoutError": ["implies(self._state == 0, drained())"],
                                  "WorkerError1": ["self._state == 0", "drained()"], "WorkerError2": ["self._state == 0", "drained()"],
                                  # a dead worker ends the call: nothing stays in flight, its pipe is closed and dropped
                                  "EOFError": ["self._state == 0", "drained_or_dead()", "dead_dropped(self)"]},
                   ensures=["self._state == 0", "drained()", "succ_all()", "not any_dead()", "implies(timeout is not None, ready_all())"], replay="c13:faults")
    # _poll_pipe_envs: True only if every pipe is open and has data within the remaining time
    P.contract(f"{CLS}._poll_pipe_envs", params=dict(self=mk_self, timeout="opt:real"), requires=["not closed0"], frame_fields=False,
               result="bool", modifies=[],
               ensures=["result == (timeout is None or ready_all())" if False else "implies(timeout is not None, result == ready_all())",
                        "implies(timeout is None, result == True)"], replay="c13:misuse")
    # ---- close_extras: whatever the pending call does (returns, times out, surfaces a worker's error, finds a dead worker),
    # close() lets no exception escape, and every worker is terminated or was told to close, every pipe closed, every process joined
    class Proc:
        def __init__(self, i):
            self.alive = z3.Bool(f"proc{i}.alive")
            self.terminated = self.joined = False

        def getattr(self, ex, st, name):
            if name == "is_alive":
                return Fn(model=lambda ex, st, a, k: self.alive, name=name)
            if name == "terminate":
                return Fn(model=lambda ex, st, a, k: setattr(self, "terminated", True), name=name)
            if name == "join":
                return Fn(model=lambda ex, st, a, k: setattr(self, "joined", True), name=name)
            raise Undecided(f"process attribute {name}")

    class StateV:
        def __init__(self, name):
            self.name = name

        def getattr(self, ex, st, name):
            if name == "value":
                return {"DEFAULT": "default", "WAITING_RESET": "reset", "WAITING_STEP": "step", "WAITING_CALL": "call"}[self.name]
            raise Undecided(name)

        def compare(self, ex, st, op, other, swapped):
            import ast
            same = (other == STATES[self.name]) if isinstance(other, int) else (isinstance(other, StateV) and other.name == self.name)
            return (not same) if isinstance(op, ast.NotEq) else same

    procs, cpipes = [Proc(0), Proc(1)], [DeadPipe(0), DeadPipe(1)]
    P.lib["agilerl.vector.pz_async_vec_env.logger.warn"] = lambda ex, st, a, k: None

    def pending(ex, st, a, k):
        """the pending *_wait as its own contract describes it: returns, or raises TimeoutError / the worker's error / EOFError"""
        o = fresh_name("pending_wait.outcome")
        if ex.decide(st, z3.Bool(o + ".returns")):
            return None
        if ex.decide(st, z3.Bool(o + ".times_out")):
            raise PyRaise("TimeoutError")
        if ex.decide(st, z3.Bool(o + ".worker_error")):
            raise PyRaise("WorkerError1")
        raise PyRaise("EOFError")
    for sname in STATES:
        for none1 in (False, True):
            def mk_close_self(ex, st, label, sname=sname, none1=none1):
                for i in range(2):
                    procs[i].__init__(i)
                    cpipes[i].__init__(i)
                o = Obj(CLS, label="self")
                o.fields.update(dict(_state=StateV(sname), parent_pipes=[cpipes[0], None if none1 else cpipes[1]], processes=list(procs),
                                     reset_wait=Fn(model=pending, name="reset_wait"), step_wait=Fn(model=pending, name="step_wait"),
                                     call_wait=Fn(model=pending, name="call_wait")))
                return o

            def closed_down(none1=none1):
                ok = all(p.joined for p in procs)
                for i, (p, pipe) in enumerate(zip(procs, cpipes)):
                    if i == 1 and none1:
                        continue
                    ok = ok and pipe.was_closed
                return z3.BoolVal(ok)

            def stopped(none1=none1):
                # every worker that is still alive was terminated, or its (open) pipe was sent "close"
                out = []
                for i, (p, pipe) in enumerate(zip(procs, cpipes)):
                    told = any(isinstance(m, tuple) and m[0] == "close" for m in pipe.sent)
                    if p.terminated or told:
                        continue
                    if i == 1 and none1:
                        continue          # pipe None = this worker already reported an error and leaves its loop on its own (_async_worker's except/finally); join() waits for it
                    else:
                        out.append(z3.Or(z3.Not(p.alive), pipe.closed, pipe.dead))
                return z3.And(*out) if out else z3.BoolVal(True)
            tag = f"{sname}{'-pipe1-None' if none1 else ''}"
            P.specns[f"closed_down_{tag.replace('-', '_')}"] = closed_down
            P.specns[f"stopped_{tag.replace('-', '_')}"] = stopped
            P.contract(f"{CLS}.close_extras", variant=tag, params=dict(self=mk_close_self, timeout="opt:real", terminate="bool"), requires=[], frame_fields=False,
                       raises={}, raises_iff=True,
                       ensures=[f"closed_down_{tag.replace('-', '_')}()", f"stopped_{tag.replace('-', '_')}()"], replay="c13:faults")
    P.assumptions += ["a worker whose pipe was set to None has reported an error and exits on its own (the except/finally of _async_worker)", "two sub-environments (concrete), symbolic flags", "wall-clock, process liveness and hangs are outside the contracts"]
    P.uncovered += ["wall-clock promptness of close(), real process liveness and real timeouts (bounded native adapters only); the contracts prove that close_extras lets no exception escape and terminates / closes / joins every worker on every outcome of the pending call",
                    "set_attr"]
    P.native.append(dict(name="faults", adapter="c13:faults", thorough_only=True, payload={"mode": "search"},
                         bound="3 workers, 12 scenarios: close while a failed step is pending (with/without terminate), exception classes with 1/2/5 constructor "
                               "arguments, unpicklable exceptions, timeout then close(timeout) / then call, worker SIGKILLed in step (index 0/1) and while idle"))
    P.native.append(dict(name="misuse", adapter="c13:misuse", thorough_only=True, bound="3 workers; out-of-order calls; one raiser / one sleeper / raiser+sleeper",
                         payload={"mode": "search"}))
    return P
