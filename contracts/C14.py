"""C14 — every selected action is legal (DESIGN.md section 5, C14).

Row-generic tensor mode: the functions are executed on one generic batch row (q-values / mask / random draws of that
row are vectors over the actions); everything they do is row-wise.
"""
import ast

import z3

from pyvc.execu import z3ify
from pyvc.main import Prop
from pyvc.values import Fn, ModRef, Obj, Opaque, PyRaise, Seq, Undecided, fresh_name
from . import tensors as TT
from .C17 import region
from .tensors import Vec

I, Re = z3.IntSort(), z3.RealSort()
NA = z3.Int("n_actions")
INF = z3.Real("INF")
Q = z3.Const("q_values", TT.A1)
M = z3.Const("mask", TT.A1)


def rand_like(ex, st, args, kwargs):
    v = args[0]
    out = Vec.fresh("rand", v.n)
    k = z3.Int(fresh_name("k"))
    st.assume(z3.ForAll([k], z3.And(out.arr[k] >= 0, out.arr[k] < 1)))        # every draw in [0,1)
    return out


def argmax(ex, st, args, kwargs):
    v = args[0]
    if not isinstance(v, Vec):
        raise Undecided("argmax of a non-vector")
    r = z3.Int(fresh_name("argmax"))
    k = z3.Int(fresh_name("k"))
    n = z3ify(v.n)
    st.assume(z3.And(0 <= r, r < n))
    st.assume(z3.ForAll([k], z3.Implies(z3.And(0 <= k, k < n), v.arr[k] <= v.arr[r])))
    st.assume(z3.ForAll([k], z3.Implies(z3.And(0 <= k, k < r), v.arr[k] < v.arr[r])))      # first maximum
    return r


class Unif:
    def getattr(self, ex, st, name):
        if name == "uniform_":
            return Fn(model=lambda ex, st, a, k: self, name=name)
        if name in ("gt", "ge"):
            def cmp(ex, st, a, k, name=name):
                u = z3.Real(fresh_name("u"))
                st.assume(z3.And(u >= 0, u < 1))
                return (u > z3ify(a[0])) if name == "gt" else (u >= z3ify(a[0]))
            return Fn(model=cmp, name=name)
        raise Undecided(f"tensor method {name}")


def where(ex, st, args, kwargs):
    c, a, b = args
    return z3.If(c, z3ify(a), z3ify(b))


def vec_ext(v):
    """extra tensor methods used by the action-selection code"""
    return v


_orig_getattr = Vec.getattr


def vec_getattr(self, ex, st, name):
    if name == "masked_fill":
        def masked_fill(ex, st, a, k):
            m, val = a[0], z3ify(a[1])
            kk = z3.Int("k!mf")
            cond = m.arr[kk] != 0
            return Vec(self.n, z3.Lambda([kk], z3.If(cond, TT.toreal(val), self.arr[kk])), self.label + ".masked")
        return Fn(model=masked_fill, name=name)
    if name == "bool":
        return Fn(model=lambda ex, st, a, k: Vec(self.n, self.arr, self.label), name=name)     # non-zero test happens in masked_fill
    if name == "logical_not":
        kk = z3.Int("k!ln")
        return Fn(model=lambda ex, st, a, k: Vec(self.n, z3.Lambda([kk], z3.If(self.arr[kk] != 0, z3.RealVal(0), z3.RealVal(1))), self.label + ".not"), name=name)
    if name in ("device", "dtype"):
        return Opaque(name)
    if name == "clip":
        def clip(ex, st, a, k):
            lo, hi = a[0], a[1]
            kk = z3.Int("k!cl")
            x = self.arr[kk]
            lo_k = lo.arr[kk] if isinstance(lo, Vec) else TT.toreal(lo)
            hi_k = hi.arr[kk] if isinstance(hi, Vec) else TT.toreal(hi)
            v = z3.If(x < lo_k, lo_k, z3.If(x > hi_k, hi_k, x))          # numpy.clip = minimum(maximum(x, lo), hi) for lo <= hi
            return Vec(self.n, z3.Lambda([kk], v), self.label + ".clip")
        return Fn(model=clip, name=name)
    return _orig_getattr(self, ex, st, name)


Vec.getattr = vec_getattr


def vec_invert(self, ex, st):
    """~bool_tensor: element-wise logical not (non-zero -> 0, zero -> 1)"""
    kk = z3.Int("k!inv")
    return Vec(self.n, z3.Lambda([kk], z3.If(self.arr[kk] != 0, z3.RealVal(0), z3.RealVal(1))), self.label + ".not")


Vec.invert = vec_invert


def legal(result, mask):
    r = z3ify(result)
    return z3.And(0 <= r, r < NA, mask.arr[r] != 0)


def best_legal(result, q, mask):
    k = z3.Int("k!bl")
    r = z3ify(result)
    return z3.ForAll([k], z3.Implies(z3.And(0 <= k, k < NA, mask.arr[k] != 0), q.arr[k] <= q.arr[r]))


def in_box(v, lo, hi):
    k = z3.Int("k!ib")
    return z3.ForAll([k], z3.Implies(z3.And(0 <= k, k < z3ify(v.n)), z3.And(lo.arr[k] <= v.arr[k], v.arr[k] <= hi.arr[k])))


def build(tier):
    P = Prop("C14")
    TT.install(P)
    k = z3.Int("k!ax")
    P.axioms += [NA >= 1, INF > 0,
                 z3.ForAll([k], z3.Implies(z3.And(0 <= k, k < NA), z3.And(Q[k] > -INF, Q[k] < INF))),      # finite network outputs
                 z3.ForAll([k], z3.Or(M[k] == 0, M[k] == 1)),
                 z3.Exists([k], z3.And(0 <= k, k < NA, M[k] == 1))]                                          # at least one legal action
    P.lib.update({"torch.rand_like": rand_like, "torch.argmax": argmax, "torch.where": where,
                  "torch.empty": lambda ex, st, a, k: Unif()})
    P.specns.update(dict(legal=legal, best_legal=best_legal, in_box=in_box, INF=INF, NA=NA))
    P.trusted += ["torch.rand_like: every element in [0,1); torch.argmax: index of the first maximal element; masked_fill(mask, v); "
                  "torch.empty(..).uniform_().gt(eps): u > eps for some u in [0,1); torch.where(c,a,b)",
                  "numpy.clip(x, lo, hi) = element-wise min(max(x, lo), hi)",
                  "row-generic execution: the selection code is row-wise (argmax over the last axis), so one generic batch row is analysed"]

    def dqn_self(ex, st, label):
        o = Obj("model.DQN", label="self")
        o.fields["actor"] = Fn(model=lambda ex, st, a, k: Vec(NA, Q, "q_values"), name="actor")
        return o
    P.contract("agilerl.algorithms.dqn.DQN._get_action",
               params={"self": dqn_self, "obs": "opaque", "epsilon": "real", "action_mask": lambda ex, st, l: Vec(NA, M, "mask")},
               requires=["0 <= epsilon", "epsilon <= 1"], frame_fields=False,
               ghost_after={"use_policy = ": ["up = use_policy"]}, ghost={"up": "True"},
               ensures=["legal(result, action_mask)",                                  # for EVERY exploration draw
                        "implies(up, best_legal(result, Vec_q, action_mask))",        # policy branch: best legal action
                        "implies(epsilon == 0, best_legal(result, Vec_q, action_mask))"],   # exploration switched off: for EVERY draw, incl. exactly 0.0
               replay="c14:dqn")
    P.specns["Vec_q"] = Vec(NA, Q, "q_values")

    # Box bounds for the deterministic continuous-control learners
    D = z3.Int("action_dim")
    LO, HI, ACT, NOISE = (z3.Const(n, TT.A1) for n in ("low", "high", "actor_out", "noise"))
    P.axioms += [D >= 1, z3.ForAll([k], LO[k] <= HI[k])]

    def ddpg_self(cls):
        def mk(ex, st, label):
            o = Obj("model." + cls, label="self")
            space = Obj("model.Box", {"low": Vec(D, LO, "low"), "high": Vec(D, HI, "high")}, label="action_space")
            actor = Obj("model.Actor", {"eval": Fn(model=lambda ex, st, a, k: None), "train": Fn(model=lambda ex, st, a, k: None)}, label="actor")
            o.fields.update(dict(action_space=space, accelerator=None, device="cpu",
                                 actor=ActorModel(Vec(D, ACT, "actor_out")),
                                 preprocess_observation=Fn(model=lambda ex, st, a, k: a[0], name="preprocess_observation"),
                                 action_noise=Fn(model=lambda ex, st, a, k: Vec(D, NOISE, "noise"), name="action_noise")))
            return o
        return mk

    class ActorModel:
        def __init__(self, out):
            self.out = out

        def getattr(self, ex, st, name):
            if name in ("eval", "train"):
                return Fn(model=lambda ex, st, a, k: None, name=name)
            raise Undecided(f"actor attribute {name}")

        def call(self, ex, st, args, kwargs):
            return Vec(self.out.n, self.out.arr, "actor_out")
    for cls, mod in (("DDPG", "ddpg"), ("TD3", "td3")):
        P.contract(f"agilerl.algorithms.{mod}.{cls}.get_action",
                   params={"self": ddpg_self(cls), "obs": "opaque", "training": "bool"},
                   requires=[], frame_fields=False,
                   ensures=["in_box(result, self.action_space.low, self.action_space.high)"],
                   replay="c14:box")
    # ---- numpy-based selection of RainbowDQN and CQN (masked arrays), row-generic
    class MaskedVec:
        def __init__(self, v, m):
            self.v, self.m = v, m

    def ma_array(ex, st, a, k):
        return MaskedVec(a[0], k.get("mask"))

    def np_argmax(ex, st, a, k):
        x = a[0]
        if isinstance(x, Vec):
            return argmax(ex, st, [x], {})
        if isinstance(x, MaskedVec) and x.m is None:
            return argmax(ex, st, [x.v], {})                       # numpy.ma.array(v, mask=None): nothing is masked
        if isinstance(x, MaskedVec):
            # numpy.ma: masked entries (mask != 0) are ignored when at least one entry is unmasked
            r = z3.Int(fresh_name("ma_argmax"))
            kk = z3.Int(fresh_name("k"))
            nn_ = z3ify(x.v.n)
            st.assume(z3.And(0 <= r, r < nn_))
            some = z3.Exists([kk], z3.And(0 <= kk, kk < nn_, x.m.arr[kk] == 0))
            st.assume(z3.Implies(some, z3.And(x.m.arr[r] == 0,
                                              z3.ForAll([kk], z3.Implies(z3.And(0 <= kk, kk < nn_, x.m.arr[kk] == 0), x.v.arr[kk] <= x.v.arr[r])))))
            return r
        raise Undecided("np.argmax of unknown value")

    def np_where(ex, st, a, k):
        c, x, y = a
        kk = z3.Int("k!nw")
        xv = x.arr[kk] if isinstance(x, Vec) else TT.toreal(x)
        yv = y.arr[kk] if isinstance(y, Vec) else TT.toreal(y)
        return Vec(c.n, z3.Lambda([kk], z3.If(c.arr[kk] != 0, xv, yv)), "where")

    class ObsRow:
        def length(self, ex, st):
            return 1

        def getattr(self, ex, st, name):
            if name == "size":
                return Fn(model=lambda ex, st, a, k: 1, name="size")          # one generic batch row
            raise Undecided(f"observation attribute {name}")

        def isinstance(self, ex, st, names):
            return "Tensor" in names
    P.lib.update({"numpy.ma.array": ma_array, "numpy.argmax": np_argmax, "numpy.where": np_where, "numpy.asarray": lambda ex, st, a, k: a[0],
                  "numpy.random.uniform": lambda ex, st, a, k: rand_like(ex, st, [Vec(NA, Q, "shape")], {}),
                  "numpy.random.randint": lambda ex, st, a, k: [_randint(st, a[0], a[1])],
                  "random.random": lambda ex, st, a, k: _unit(st), "numpy.stack": lambda ex, st, a, k: a[0]})

    def _randint(st, lo, hi):
        r = z3.Int(fresh_name("randint"))
        st.assume(z3.And(z3ify(lo) <= r, r < z3ify(hi)))
        return r

    def _unit(st):
        u = z3.Real(fresh_name("u"))
        st.assume(z3.And(u >= 0, u < 1))
        return u

    def q_self(cls):
        def mk(ex, st, label):
            o = Obj("model." + cls, label="self")
            actor = ActorModel(Vec(NA, Q, "q_values"))
            o.fields.update(dict(actor=actor, action_dim=NA, preprocess_observation=Fn(model=lambda ex, st, a, k: ObsRow(), name="preprocess_observation")))
            return o
        return mk
    _old_actor_getattr = ActorModel.getattr

    def actor_getattr(self, ex, st, name):
        if name in ("eval", "train"):
            return Fn(model=lambda ex, st, a, k: None, name=name)
        return _old_actor_getattr(self, ex, st, name)
    ActorModel.getattr = actor_getattr
    first = lambda r: r[0] if isinstance(r, list) else r
    P.specns["legal1"] = lambda r, m: legal(first(r), m)
    P.specns["best1"] = lambda r, q, m: best_legal(first(r), q, m)
    P.specns["inrange1"] = lambda r: z3.And(0 <= z3ify(first(r)), z3ify(first(r)) < NA)
    maskp = lambda ex, st, l: Vec(NA, M, "mask")
    P.contract("agilerl.algorithms.dqn_rainbow.RainbowDQN.get_action", variant="masked",
               params={"self": q_self("RainbowDQN"), "obs": "opaque", "action_mask": maskp, "training": "bool"}, requires=[], frame_fields=False,
               ensures=["legal1(result, action_mask)", "best1(result, Vec_q, action_mask)"], replay="c14:dqn")
    P.contract("agilerl.algorithms.dqn_rainbow.RainbowDQN.get_action", variant="unmasked",
               params={"self": q_self("RainbowDQN"), "obs": "opaque", "action_mask": (lambda ex, st, l: None), "training": "bool"}, requires=[],
               frame_fields=False, ensures=["inrange1(result)"], replay="c14:dqn")
    P.contract("agilerl.algorithms.cqn.CQN.get_action", variant="masked",
               params={"self": q_self("CQN"), "obs": "opaque", "epsilon": "real", "action_mask": maskp}, requires=["0 <= epsilon", "epsilon <= 1"],
               frame_fields=False, ensures=["legal1(result, action_mask)"], replay="c14:dqn")       # every exploration draw
    P.contract("agilerl.algorithms.cqn.CQN.get_action", variant="unmasked",
               params={"self": q_self("CQN"), "obs": "opaque", "epsilon": "real", "action_mask": (lambda ex, st, l: None)},
               requires=["0 <= epsilon", "epsilon <= 1"], frame_fields=False, ensures=["inrange1(result)"], replay="c14:dqn")
    # ---- multi-agent deterministic learners: the per-agent body of MADDPG/MATD3.get_action (one generic agent index, one generic batch row)
    from .C17 import region

    def clamp(ex, st, a, k):
        x, lo, hi = a[0], (a[1] if len(a) > 1 else k.get("min")), (a[2] if len(a) > 2 else k.get("max"))
        kk = z3.Int("k!clamp")
        lo_k = lo.arr[kk] if isinstance(lo, Vec) else TT.toreal(lo)
        hi_k = hi.arr[kk] if isinstance(hi, Vec) else TT.toreal(hi)
        xv = x.arr[kk]
        return Vec(x.n, z3.Lambda([kk], z3.If(xv < lo_k, lo_k, z3.If(xv > hi_k, hi_k, xv))), "clamp")    # torch.clamp = min(max(x, lo), hi), lo <= hi
    P.lib["torch.clamp"] = clamp
    P.lib["torch.as_tensor"] = lambda ex, st, a, k: a[0]
    P.lib["numpy.array"] = lambda ex, st, a, k: a[0]

    class PerAgent:
        """self.min_action / self.max_action: one bound vector per agent; any index gives the generic agent's bounds"""

        def __init__(self, v):
            self.v = v

        def getitem(self, ex, st, idx):
            return self.v

    def ma_self(cls, discrete):
        def mk(ex, st, label):
            o = Obj("model." + cls, label="self")
            o.fields.update(dict(accelerator=None, torch_compiler=None, discrete_actions=discrete, action_spaces=Opaque("action_spaces"),
                                 min_action=PerAgent(Vec(D, LO, "low")), max_action=PerAgent(Vec(D, HI, "high")),
                                 action_noise=Fn(model=lambda ex, st, a, k: Vec(NA if discrete else D, NOISE, "noise"), name="action_noise")))
            return o
        return mk
    P.specns.update(dict(low=Vec(D, LO, "low"), high=Vec(D, HI, "high"), actor_box=Vec(D, ACT, "actor_out"),
                         unit_box=lambda v: in_box(v, Vec(v.n, z3.K(z3.IntSort(), z3.RealVal(0)), "0"), Vec(v.n, z3.K(z3.IntSort(), z3.RealVal(1)), "1"))))
    _ma_getattr = MaskedVec.__dict__.get("getattr")

    def mv_getattr(self, ex, st, name):
        if name == "argmax":
            return Fn(model=lambda ex, st, a, k: np_argmax(ex, st, [self], {}), name="argmax")
        raise Undecided(f"masked array attribute {name}")
    MaskedVec.getattr = mv_getattr
    for cls, mod in (("MADDPG", "maddpg"), ("MATD3", "matd3")):
        q = f"agilerl.algorithms.{mod}.{cls}.get_action"
        body = region("actor.eval()", "action_dict[agent_id] = actions.cpu().numpy()")
        # continuous: whatever the noise, every component of the stored action is inside ITS OWN bounds (training), or is the
        # actor's output unchanged (evaluation; the actor's own rescaling keeps it inside the bounds)
        P.contract(q, variant="box", region=body,
                   params={"self": ma_self(cls, False), "obs": "opaque", "infos": "opaque", "training": "bool", "idx": "int", "agent_id": (lambda ex, st, l: "agent_0"),
                           "actor": (lambda ex, st, l: ActorModel(Vec(D, ACT, "actor_out"))), "action_dict": (lambda ex, st, l: {})},
                   requires=[], frame_fields=False,            # whatever the actor outputs (no squashing head, saturated rescaling): clipped in both modes
                   ensures=["in_box(action_dict[agent_id], low, high)"], replay="c14:ma_box")
        # discrete: scores are clamped to [0, 1] in training; the index is then taken among unmasked entries only
        P.contract(q, variant="discrete-scores", region=body,
                   params={"self": ma_self(cls, True), "obs": "opaque", "infos": "opaque", "training": "bool", "idx": "int", "agent_id": (lambda ex, st, l: "agent_0"),
                           "actor": (lambda ex, st, l: ActorModel(Vec(NA, Q, "q_values"))), "action_dict": (lambda ex, st, l: {})},
                   requires=[], frame_fields=False,
                   ensures=["implies(training, unit_box(action_dict[agent_id]))", "action_dict[agent_id].n == NA"], replay="c14:ma_discrete")
        pick = region("mask = 1 - np.array(action_masks[agent])", "discrete_action_dict[agent] = action.argmax(axis=-1)")
        P.contract(q, variant="discrete-masked", region=pick,
                   params={"self": ma_self(cls, True), "obs": "opaque", "infos": "opaque", "training": "bool", "agent": (lambda ex, st, l: "agent_0"),
                           "action": (lambda ex, st, l: Vec(NA, Q, "scores")), "action_masks": (lambda ex, st, l: {"agent_0": Vec(NA, M, "mask")}),
                           "discrete_action_dict": (lambda ex, st, l: {})},
                   requires=[], frame_fields=False,
                   ensures=["legal(discrete_action_dict[agent], action_masks[agent])", "best_legal(discrete_action_dict[agent], Vec_q, action_masks[agent])"],
                   replay="c14:ma_discrete")
        P.contract(q, variant="discrete-unmasked", region=pick,
                   params={"self": ma_self(cls, True), "obs": "opaque", "infos": "opaque", "training": "bool", "agent": (lambda ex, st, l: "agent_0"),
                           "action": (lambda ex, st, l: Vec(NA, Q, "scores")), "action_masks": (lambda ex, st, l: {"agent_0": None}),
                           "discrete_action_dict": (lambda ex, st, l: {})},
                   requires=[], frame_fields=False,
                   ensures=["0 <= discrete_action_dict[agent]", "discrete_action_dict[agent] < NA"], replay="c14:ma_discrete")
    # ---- bandits: the selection statements of NeuralUCB / NeuralTS.get_action (scores = any finite vector)
    sel = region("action_values = action_values.cpu().numpy()", "if action_mask is None")
    for cls, mod in (("NeuralUCB", "neural_ucb_bandit"), ("NeuralTS", "neural_ts_bandit")):
        q = f"agilerl.algorithms.{mod}.{cls}.get_action"
        P.contract(q, variant="masked", region=sel,
                   params={"self": "opaque", "obs": "opaque", "action_mask": maskp, "action_values": (lambda ex, st, l: Vec(NA, Q, "scores"))},
                   requires=[], frame_fields=False, ensures=["legal(action, action_mask)", "best_legal(action, Vec_q, action_mask)"], replay="c14:bandit")
        P.contract(q, variant="unmasked", region=sel,
                   params={"self": "opaque", "obs": "opaque", "action_mask": (lambda ex, st, l: None), "action_values": (lambda ex, st, l: Vec(NA, Q, "scores"))},
                   requires=[], frame_fields=False, ensures=["0 <= action", "action < NA"], replay="c14:bandit")
    for nm, bound in (("dqn", "DQN/CQN, 2-4 actions, every mask, epsilon 0/1, extreme draws"), ("box", "DDPG/TD3 heads and boxes"),
                      ("ma_box", "MADDPG/MATD3, 3 per-dimension Box layouts, training on/off, noise 5.0"),
                      ("ma_discrete", "MADDPG/MATD3, Discrete(2..4), every pair of masks, training on/off"),
                      ("bandit", "NeuralUCB/NeuralTS, 2-4 arms, every mask"),
                      ("pg_eval", "PPO (squash on/off) and IPPO in evaluation mode, 3 Box layouts, saturated policy outputs")):
        P.native.append(dict(name=nm, adapter=f"c14:{nm}", bound=bound, payload={"mode": "search"}, thorough_only=True))
    # ---- evaluation-mode clipping / rescaling of the policy-gradient learner (PPO.get_action tail; StochasticActor.scale_action inlined)
    class BoxSpace:
        def isinstance(self, ex, st, names):
            return "Box" in names

        def getattr(self, ex, st, name):
            if name == "shape":
                return (D,)
            if name == "low":
                return Vec(D, LO, "low")
            if name == "high":
                return Vec(D, HI, "high")
            raise Undecided(f"space attribute {name}")

    def ppo_self(ex, st, label):
        o = Obj("model.PPO", label="self")
        actor = Obj("agilerl.networks.actors.StochasticActor", {"action_low": Vec(D, LO, "low"), "action_high": Vec(D, HI, "high"),
                                                                 "squash_output": z3.Bool("squash_output")}, label="actor")
        o.fields.update(dict(action_space=BoxSpace(), training=z3.Bool("training_flag"), actor=actor))
        return o
    P.lib["numpy.clip"] = lambda ex, st, a, k: a[0].getattr(ex, st, "clip").model(ex, st, [a[1], a[2]], {})
    P.specns.update(dict(tanh_range=lambda v: in_box(v, Vec(v.n, z3.K(z3.IntSort(), z3.RealVal(-1)), "-1"), Vec(v.n, z3.K(z3.IntSort(), z3.RealVal(1)), "1")),
                         squash_output=z3.Bool("squash_output"), training_flag=z3.Bool("training_flag")))
    P.contract("agilerl.algorithms.ppo.PPO.get_action", variant="eval-box",
               region=region("action = action.cpu().data.numpy()", "if not self.training and isinstance(self.action_space, spaces.Box)"),
               params={"self": ppo_self, "obs": "opaque", "action_mask": "opaque", "action": (lambda ex, st, l: Vec(D, ACT, "policy_out"))},
               requires=[], frame_fields=False,                # clipped after the rescaling as well
               ensures=["implies(not training_flag, in_box(action, low, high))"], replay="c14:pg_eval")
    # IPPO: the same tail inside the loop over policy groups - the space is that of the group's first agent
    def ippo_self(ex, st, label):
        o = Obj("model.IPPO", label="self")
        o.fields.update(dict(action_space={"agent_0": BoxSpace(), "agent_1": BoxSpace(), "other_0": Opaque("another-space")},
                             homogeneous_agents={"agent": ["agent_0", "agent_1"], "other": ["other_0"]}, training=z3.Bool("training_flag")))
        return o
    ippo_actor = lambda ex, st, l: Obj("agilerl.networks.actors.StochasticActor", {"action_low": Vec(D, LO, "low"), "action_high": Vec(D, HI, "high"),
                                                                                    "squash_output": z3.Bool("squash_output")}, label="actor")
    from pyvc import front as _front
    _io, _im, _if = _front.find_function("agilerl.algorithms.ippo.IPPO.get_action")
    P.contract("agilerl.algorithms.ippo.IPPO.get_action", variant="eval-box",
               region=region("agent_id = ", "action_dict[shared_id] = "),
               params={**{a_.arg: "opaque" for a_ in _if.args.args + _if.args.kwonlyargs if a_.arg != "self"},
                       "self": ippo_self, "shared_id": (lambda ex, st, l: "agent"), "actor": ippo_actor, "critic": "opaque", "action_mask": "opaque",
                       "log_prob": "opaque", "entropy": "opaque", "state_values": "opaque", "action_dict": (lambda ex, st, l: {}),
                       "action": (lambda ex, st, l: Vec(D, ACT, "policy_out"))},
               requires=[], frame_fields=False,
               ensures=["implies(not training_flag, in_box(action_dict[shared_id], low, high))"], replay="c14:pg_eval")
    P.trusted += ["numpy.ma.array(values, mask) + numpy.argmax: masked entries are ignored when at least one entry is unmasked; numpy.where; "
                  "numpy.random.uniform in [0,1), numpy.random.randint(lo, hi) in [lo, hi), random.random() in [0,1)"]
    P.assumptions += ["network outputs are finite reals; masks are 0/1 with at least one legal action; low <= high component-wise",
                      "accelerator is None"]
    P.uncovered += ["CQN / Rainbow: 'exploration switched off' is read as 'the policy branch is taken' (DQN: proved for epsilon = 0 and every draw)",
                    "MADDPG/MATD3 env-defined actions and agent masks (native adapters / not covered)",
                    "batch shape of the returned array"]
    return P
