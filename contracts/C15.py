"""C15 — observation handling: shapes and batch recognition (DESIGN.md section 5, C15; narrow).

Shape mode: a tensor/array is its shape (tuple of statically known rank, symbolic dimension values) plus a `kind`
(numpy / torch).  Under contract: maybe_add_batch_dim and get_vect_dim for every space rank 0..3 and every input form
(unbatched, batched, (step, env, ...)); the element maps of preprocess_observation (one-hot, image scaling) are checked
by the native adapter only (bounded).
"""
import itertools

import ast

import z3

from pyvc.execu import z3ify
from pyvc.main import Prop
from pyvc.values import Fn, ModRef, Obj, Opaque, PyRaise, Undecided, fresh_name


class ShT:
    def __init__(self, shape, kind):
        self.shape, self.kind = tuple(shape), kind

    def isinstance(self, ex, st, names):
        return ("ndarray" in names) if self.kind == "np" else ("Tensor" in names)

    def getattr(self, ex, st, name):
        if name == "shape":
            return self.shape
        if name == "ndim":
            return len(self.shape)
        if name == "unsqueeze":
            def unsq(ex, st, a, k):
                if self.kind != "torch":
                    raise PyRaise("AttributeError", "ndarray.unsqueeze")
                if a[0] != 0:
                    raise Undecided("unsqueeze of another axis")
                return ShT((1,) + self.shape, self.kind)
            return Fn(model=unsq, name=name)
        if name in ("reshape", "view"):
            def reshape(ex, st, a, k):
                if name == "view" and self.kind != "torch":
                    raise PyRaise("AttributeError", "ndarray.view with shape")
                dims = list(a[0]) if (len(a) == 1 and isinstance(a[0], (tuple, list))) else list(a)
                if dims[0] != -1 or any(isinstance(d, int) and d == -1 for d in dims[1:]):
                    raise Undecided("reshape pattern other than (-1, *shape)")
                tail = dims[1:]
                # (-1, *tail): total size must be divisible by prod(tail); proved here only when the trailing dims coincide
                if len(tail) > len(self.shape):
                    raise Undecided("reshape to more dims than available")
                lead, rest = self.shape[: len(self.shape) - len(tail)], self.shape[len(self.shape) - len(tail):]
                same = z3.And(*[z3ify(x) == z3ify(y) for x, y in zip(rest, tail)]) if tail else z3.BoolVal(True)
                if ex.feasible(st, z3.Not(same)):
                    if not ex.decide(st, same):
                        raise PyRaise("RuntimeError", "shape is invalid for input size (trailing dimensions differ)")
                n = 1
                for x in lead:
                    n = n * z3ify(x) if not (isinstance(n, int) and isinstance(x, int)) else n * x
                return ShT((z3.simplify(z3ify(n)),) + tuple(tail), self.kind)
            return Fn(model=reshape, name=name)
        raise Undecided(f"array attribute {name}")


def expand_dims(ex, st, args, kwargs):
    a, axis = args[0], args[1]
    if axis != 0:
        raise Undecided("expand_dims of another axis")
    return ShT((1,) + a.shape, a.kind)


def shape_is(t, dims):
    if not isinstance(t, ShT) or len(t.shape) != len(dims):
        return z3.BoolVal(False)
    return z3.And(*[z3ify(a) == z3ify(b) for a, b in zip(t.shape, dims)]) if dims else z3.BoolVal(True)


def build(tier):
    P = Prop("C15")
    P.lib["numpy.expand_dims"] = expand_dims
    P.lib["numpy.shape"] = lambda ex, st, a, k: tuple(a[0].shape)
    P.trusted += ["numpy.expand_dims(x, 0) / Tensor.unsqueeze(0) prepend a dimension of size 1; reshape/view(-1, *s) of an array whose "
                  "trailing dimensions are s keeps them and multiplies the leading ones",
                  "gymnasium space attributes: Box.shape, MultiBinary.shape = (n,)"]
    P.specns.update(dict(shape_is=shape_is))
    B, T, E = z3.Ints("B T E")
    P.axioms += [B >= 1, T >= 1, E >= 1]
    dims = [z3.Int(f"d{i}") for i in range(4)]
    P.axioms += [d >= 1 for d in dims]
    AU = "agilerl.utils.algo_utils."
    for r in range(0, 4):
        sp = tuple(dims[:r])
        forms = {"unbatched": (sp, (1,) + sp), "batched": ((B,) + sp, (B,) + sp), "batch-of-one": ((1,) + sp, (1,) + sp),
                 "step-env": ((T, E) + sp, (z3.simplify(T * E),) + sp)}
        for (fname, (inshape, outshape)), kind in itertools.product(forms.items(), ("np", "torch")):
            P.specns[f"out_{r}_{fname.replace('-', '_')}"] = outshape
            P.contract(AU + "maybe_add_batch_dim", variant=f"rank{r}-{fname}-{kind}",
                       params={"obs": (lambda ex, st, l, s=inshape, k=kind: ShT(s, k)), "space_shape": (lambda ex, st, l, s=sp: s)},
                       requires=[], modifies=[],
                       ensures=[f"shape_is(result, out_{r}_{fname.replace('-', '_')})"], replay="c15:shapes")
        # wrong rank is rejected
        P.contract(AU + "maybe_add_batch_dim", variant=f"rank{r}-too-many-dims",
                   params={"obs": (lambda ex, st, l, s=(T, E, B) + sp: ShT(s, "np")), "space_shape": (lambda ex, st, l, s=sp: s)},
                   requires=[], modifies=[], raises={"ValueError": "True"}, raises_iff=True, ensures=[], replay="c15:shapes")

    # get_vect_dim: the leading dimension iff the observation has one more (or two more) dims than the space
    class Space:
        def __init__(self, cls, shape):
            self.cls, self.shape = cls, shape

        def isinstance(self, ex, st, names):
            return self.cls in names

        def getattr(self, ex, st, name):
            if name == "shape":
                return self.shape
            raise Undecided(f"space attribute {name}")
    for cls in ("Box", "MultiBinary", "MultiDiscrete", "Discrete"):
        ranks = range(0, 4) if cls == "Box" else ([0] if cls == "Discrete" else [1])
        for r in ranks:
            sp = tuple(dims[:r])
            for fname, inshape, want in (("single", sp, 1), ("vectorised", (E,) + sp, E)):
                P.specns[f"vd_{cls}_{r}_{fname}"] = want
                P.contract(AU + "get_vect_dim", variant=f"{cls}-rank{r}-{fname}",
                           params={"observation": (lambda ex, st, l, s=inshape: ShT(s, "np")),
                                   "observation_space": (lambda ex, st, l, c=cls, s=sp: Space(c, s))},
                           requires=[], modifies=[], ensures=[f"result == vd_{cls}_{r}_{fname}"], replay="c15:shapes")
    # ---- element maps on the exact N-d model (B symbolic; channel / class counts concrete)
    from . import ndt
    from .ndt import ND
    for k_, f_ in ndt.LIB.items():
        P.lib.setdefault(k_, f_)
    P.trusted.append(ndt.DOC + "; F.one_hot(x, n)[..., j] = 1 iff x = j; numpy.all over a tensor of concrete shape")
    Re_, I_ = z3.RealSort(), z3.IntSort()
    OBS = z3.Function("obs_pixel", I_, I_, I_, I_, Re_)
    LOW = z3.Function("space_low", I_, I_, I_, Re_)
    HIGH = z3.Function("space_high", I_, I_, I_, Re_)
    INF = z3.Real("np_inf")
    P.enums = dict(getattr(P, "enums", {}) or {}, **{"numpy.inf": INF})
    CH, HH, WW = 2, 2, 1

    class BoxImg:
        shape = (CH, HH, WW)

        def isinstance(self, ex, st, names):
            return "Box" in names

        def getattr(self, ex, st, name):
            if name == "shape":
                return self.shape
            if name in ("low", "high"):
                f = LOW if name == "low" else HIGH
                return ND([CH, HH, WW], lambda idx: f(z3ify(idx[0]), z3ify(idx[1]), z3ify(idx[2])), name, True)
            raise Undecided(f"space attribute {name}")
    c_, h_, w_, b_ = z3.Ints("c!im h!im w!im b!im")
    finite = z3.And(*[z3.And(LOW(c, h, w) > -INF, HIGH(c, h, w) < INF, LOW(c, h, w) < HIGH(c, h, w))
                      for c in range(CH) for h in range(HH) for w in range(WW)])           # quantifier-free: prunes the inf-bypass branches

    def img_post(res):
        if not (isinstance(res, ND) and len(res.shape) == 4 and ndt.same_dim(res.shape[0], B)):
            return z3.BoolVal(False)
        unit = z3.And(*[z3.And(HIGH(c, h, w) == 1, LOW(c, h, w) == 0) for c in range(CH) for h in range(HH) for w in range(WW)])
        out = []
        for c in range(CH):
            for h in range(HH):
                for w in range(WW):
                    x = OBS(b_, c, h, w)
                    want = z3.If(unit, x, (x - LOW(c, h, w)) / (HIGH(c, h, w) - LOW(c, h, w)))        # every pixel against ITS OWN bounds
                    out.append(z3.ForAll([b_], z3.Implies(z3.And(0 <= b_, b_ < B), res.at([b_, z3.IntVal(c), z3.IntVal(h), z3.IntVal(w)]) == want)))
        return z3.And(*out)
    P.specns.update(dict(img_post=img_post, finite_bounds=finite, np_inf=INF))
    for kind, is_np in (("torch", False), ("numpy", True)):
        P.contract(AU + "apply_image_normalization", variant=f"per-pixel-bounds-{kind}",
                   params={"observation": (lambda ex, st, l, is_np=is_np: ND([B, CH, HH, WW], lambda idx: OBS(*[z3ify(i) for i in idx]), "image", is_np)),
                           "observation_space": (lambda ex, st, l: BoxImg())},
                   requires=["finite_bounds", "np_inf > 0"], frame_fields=False, ensures=["img_post(result)"], replay="c15:values")

    # one-hot encodings through preprocess_observation: Discrete(n) and MultiDiscrete([2, 3])
    DOBS = z3.Function("discrete_obs", I_, I_, Re_)

    class SpaceK:
        def __init__(self, cls, **kw):
            self.cls, self.kw = cls, kw

        def isinstance(self, ex, st, names):
            return self.cls in names

        def getattr(self, ex, st, name):
            if name in self.kw:
                return self.kw[name]
            raise Undecided(f"space attribute {name}")
    class StartArr:
        """space.start of a MultiDiscrete space (all zeros here): np.asarray(...).reshape(-1)[i]"""

        def __init__(self, vals):
            self.vals = vals

        def getattr(self, ex, st, name):
            if name == "reshape":
                return Fn(model=lambda ex, st, a, k: self, name=name)
            raise Undecided(name)

        def getitem(self, ex, st, idx):
            return self.vals[idx]
    P.lib["numpy.asarray"] = lambda ex, st, a, k: a[0]
    P.lib[AU + "obs_to_tensor"] = lambda ex, st, a, k: (ND(a[0].shape, a[0].at, a[0].label, False) if isinstance(a[0], ND) else a[0])

    def onehot_post(nvec):
        def post(res):
            W_ = sum(nvec)
            if not (isinstance(res, ND) and len(res.shape) == 2 and ndt.cp(res.shape[1]) == (W_, None)):
                return z3.BoolVal(False)
            out, off = [z3ify(res.shape[0]) == B], 0
            for i, n_ in enumerate(nvec):
                for j in range(n_):
                    out.append(z3.ForAll([b_], z3.Implies(z3.And(0 <= b_, b_ < B), z3.simplify(res.at([b_, z3.IntVal(off + j)])) ==
                                                          z3.If(DOBS(b_, i) == j, z3.RealVal(1), z3.RealVal(0)))))
                off += n_
            return z3.And(*out)
        return post
    P.specns["onehot_discrete"] = onehot_post([3])
    P.specns["onehot_multi"] = onehot_post([2, 3])
    P.contract(AU + "preprocess_observation", variant="Discrete3-batch",
               params={"observation": (lambda ex, st, l: ND([B], lambda idx: DOBS(z3ify(idx[0]), z3.IntVal(0)), "obs", True)),
                       "observation_space": (lambda ex, st, l: SpaceK("Discrete", n=3, start=0)), "device": (lambda ex, st, l: "cpu"), "normalize_images": (lambda ex, st, l: True)},
               requires=[], frame_fields=False, ensures=["onehot_discrete(result)"], replay="c15:values")
    P.contract(AU + "preprocess_observation", variant="MultiDiscrete23-batch",
               params={"observation": (lambda ex, st, l: ND([B, 2], lambda idx: DOBS(z3ify(idx[0]), z3ify(idx[1])), "obs", True)),
                       "observation_space": (lambda ex, st, l: SpaceK("MultiDiscrete", nvec=[2, 3], shape=(2,), start=StartArr([0, 0]))), "device": (lambda ex, st, l: "cpu"),
                       "normalize_images": (lambda ex, st, l: True)},
               requires=[], frame_fields=False, ensures=["onehot_multi(result)"], replay="c15:values")
    # ---- multi-agent entry points: every agent's observation is prepared with ITS OWN space and results are ordered by agent_ids,
    # whatever the key order of the dict that is passed in (one contract per key order: given order, reversed, rotated)
    IDS = ["agent_0", "agent_1", "other_0"]
    OBS_ = {a: Opaque("obs-of-" + a) for a in IDS}
    SP_ = {a: Opaque("space-of-" + a) for a in IDS}
    MA_BASE = "agilerl.algorithms.core.base.MultiAgentRLAlgorithm"
    for tag, order in (("given-order", IDS), ("reversed", IDS[::-1]), ("rotated", IDS[1:] + IDS[:1]), ("one-absent", [IDS[2], IDS[0]])):
        def ma_self(ex, st, label):
            o = Obj(MA_BASE, label="self")
            o.fields.update(dict(agent_ids=list(IDS), observation_space=dict(SP_), device="cpu", normalize_images=True,
                                 shared_agent_ids=["agent", "other"], get_homo_id=Fn(model=lambda ex, st, a, k: a[0].rsplit("_", 1)[0], name="get_homo_id")))
            return o
        obs_arg = (lambda ex, st, l, order=order: {a: OBS_[a] for a in order})

        def ma_post(res, order=order):
            want = [a for a in IDS if a in order]
            ok = isinstance(res, dict) and list(res.keys()) == want and all(res[a] == ("prepared", OBS_[a], SP_[a]) for a in want)
            return z3.BoolVal(bool(ok))

        def ippo_post(res, order=order):
            present = [a for a in IDS if a in order]
            want = {"agent": ("concatenated", [("prepared", OBS_[a], SP_[a]) for a in present if a.startswith("agent")]),
                    "other": ("concatenated", [("prepared", OBS_[a], SP_[a]) for a in present if a.startswith("other")])}
            return z3.BoolVal(isinstance(res, dict) and res == want)
        P.specns[f"ma_post_{tag.replace('-', '_')}"] = ma_post
        P.specns[f"ippo_post_{tag.replace('-', '_')}"] = ippo_post
        P.contract(MA_BASE + ".preprocess_observation", variant=tag, params={"self": ma_self, "observation": obs_arg}, requires=[], frame_fields=False,
                   ensures=[f"ma_post_{tag.replace('-', '_')}(result)"], replay={"adapter": "demos:run", "payload": {"name": "C15b_demo_2"}})
        P.contract("agilerl.algorithms.ippo.IPPO.preprocess_observation", variant=tag, params={"self": ma_self, "observation": obs_arg}, requires=[], frame_fields=False,
                   ensures=[f"ippo_post_{tag.replace('-', '_')}(result)"], replay={"adapter": "demos:run", "payload": {"name": "C15b_demo_2"}})
    ma_pre = lambda ex, st, a, k: ("prepared", k.get("observation", a[0] if a else None), k.get("observation_space", a[1] if len(a) > 1 else None))
    P.lib[AU + "preprocess_observation"] = ma_pre          # at CALL sites only (the function itself is verified above from its own body)
    P.lib["agilerl.algorithms.ippo.concatenate_tensors"] = lambda ex, st, a, k: ("concatenated", list(a[0]))
    P.lib[AU + "concatenate_tensors"] = lambda ex, st, a, k: ("concatenated", list(a[0]))
    # ---- outputs of a shared policy go back to the agent they belong to: the policy sees the agents' batches concatenated agent-major
    # (row a*E + e), disassemble_homogeneous_outputs must hand row a*E + e to agent a as its row e (E symbolic, 2 and 3 agents, width 1 and 2)
    OUT = z3.Function("policy_output", I_, I_, Re_)
    EV = z3.Int("vect_dim")
    e_g = z3.Int("e!generic")
    P.axioms += [EV >= 1]
    P.lib.setdefault("numpy.reshape", lambda ex, st, a, k: a[0].reshape(ex, st, list(a[1])))
    for n_agents in (2, 3):
        for width in (1, 2):
            members = [f"agent_{i}" for i in range(n_agents)]

            def dis_self(ex, st, label, members=members):
                o = Obj(MA_BASE, label="self")
                o.fields.update(dict(shared_agent_ids=["agent"], homogeneous_agents={"agent": list(members)}))
                return o

            def dis_post(res, members=members, width=width):
                if not (isinstance(res, dict) and list(res.keys()) == members):
                    return z3.BoolVal(False)
                out = []
                for i, m in enumerate(members):
                    r = res[m]
                    if not (isinstance(r, ND) and len(r.shape) == 2 and ndt.same_dim(r.shape[0], EV) and ndt.cp(r.shape[1]) == (width, None)):
                        return z3.BoolVal(False)
                    out += [z3.Implies(z3.And(0 <= e_g, e_g < EV), z3ify(r.at([e_g, j])) == OUT(i * EV + e_g, j)) for j in range(width)]
                return z3.And(*out)
            tag = f"{n_agents}-agents-width{width}"
            P.specns["dis_post_" + tag.replace("-", "_")] = dis_post
            P.contract(MA_BASE + ".disassemble_homogeneous_outputs", variant=tag,
                       params={"self": dis_self, "vect_dim": (lambda ex, st, l: EV),
                               "homo_outputs": (lambda ex, st, l, n=n_agents, w=width: {"agent": ND([n * EV, w], lambda idx: OUT(z3ify(idx[0]), z3ify(idx[1])), "policy_out", True)})},
                       requires=[], frame_fields=False, ensures=[f"dis_post_{tag.replace('-', '_')}(result)"], replay="c15:values")

    # the way in: assemble_homogeneous_outputs stacks the agents' (E, w) arrays in the order of homogeneous_agents - whatever the key order
    # of the dict - into rows a*E + e
    AOUT = z3.Function("agent_output", I_, I_, I_, Re_)
    P.lib.setdefault("numpy.stack", ndt.stack)
    for n_agents in (2, 3):
        members = [f"agent_{i}" for i in range(n_agents)]
        for otag, order in (("given-order", members), ("reversed", members[::-1])):
            def asm_post(res, members=members):
                if not (isinstance(res, dict) and list(res.keys()) == ["agent"]):
                    return z3.BoolVal(False)
                r = res["agent"]
                if not (isinstance(r, ND) and len(r.shape) == 2 and ndt.same_dim(r.shape[0], len(members) * EV) and ndt.cp(r.shape[1]) == (2, None)):
                    return z3.BoolVal(False)
                return z3.And(*[z3.Implies(z3.And(0 <= e_g, e_g < EV), z3ify(r.at([i * EV + e_g, j])) == AOUT(i, e_g, j)) for i in range(len(members)) for j in range(2)])
            tag = f"{n_agents}-agents-{otag}"
            P.specns["asm_post_" + tag.replace("-", "_")] = asm_post
            P.contract(MA_BASE + ".assemble_homogeneous_outputs", variant=tag,
                       params={"self": (lambda ex, st, l, members=members: (lambda o: (o.fields.update(dict(shared_agent_ids=["agent"], homogeneous_agents={"agent": list(members)})), o)[1])(Obj(MA_BASE, label="self"))),
                               "vect_dim": (lambda ex, st, l: EV),
                               "agent_outputs": (lambda ex, st, l, order=order: {m: ND([EV, 2], (lambda idx, i=int(m.split("_")[1]): AOUT(i, z3ify(idx[0]), z3ify(idx[1]))), m, True) for m in order})},
                       requires=[], frame_fields=False, ensures=[f"asm_post_{tag.replace('-', '_')}(result)"], replay="c15:values")

    def wiring_eval_mode():
        """the value / greedy action of ONE observation must not depend on the rest of the batch: every single-agent get_action puts the
        networks it evaluates into eval mode before the forward pass (BatchNorm in the default image encoders) - AST obligation.
        RainbowDQN is exempt in training mode (its noisy layers explore through train-mode noise)."""
        from pyvc import front
        bad = []
        for q, nets in (("agilerl.algorithms.dqn.DQN.get_action", ["self.actor"]), ("agilerl.algorithms.cqn.CQN.get_action", ["self.actor"]),
                        ("agilerl.algorithms.ddpg.DDPG.get_action", ["self.actor"]), ("agilerl.algorithms.td3.TD3.get_action", ["self.actor"]),
                        ("agilerl.algorithms.ppo.PPO.get_action", ["self.actor", "self.critic"])):
            owner, m, fn = front.find_function(q)
            src = ast.unparse(fn)
            fwd = [src.find(pat) for pat in ("self.actor(", "self._get_action(", "self._get_action_and_values(") if src.find(pat) >= 0]
            if not fwd:
                bad.append(f"{q}: forward call not found")
                continue
            for n in nets:
                i = src.find(n + ".eval()")
                if i < 0 or i > min(fwd):
                    bad.append(f"{q}: `{n}.eval()` does not precede the forward pass")
        return not bad, "actor (and critic) switched to eval mode before the forward pass of every single-agent get_action" if not bad else "; ".join(bad)
    P.syntactic.append(("get_action.eval-mode-before-forward", wiring_eval_mode))
    P.native.append(dict(name="preprocess_values", adapter="c15:values", bound="Box rank 0-3, Discrete n in 1..4, MultiDiscrete, MultiBinary, Dict/Tuple; "
                         "unbatched / batched / batch-of-one / (step, env) inputs as numpy and torch; value maps and row-wise consistency",
                         payload={"mode": "search"}))
    P.assumptions += ["dimension values are positive integers; ranks 0..3 enumerated, dimension values symbolic"]
    P.uncovered += ["element maps of Dict/Tuple observations (member-wise recursion) and of MultiBinary - native adapter, bounded",
                    "greedy action / value independence of batch composition (needs row-wise nn forward)",
                    "assemble / disassemble_homogeneous_outputs with agents missing from the dict"]
    return P
