"""C16 — stochastic policies report the true log-probability and entropy (wiring; narrow; DESIGN.md section 5, C16).

torch.distributions densities are outside the technique (trusted library): what is proved is the wiring around them.
  * apply_action_mask_discrete (row-generic): masked logits are -1e8, unmasked logits unchanged, for every mask.
  * sum_independent_tensor: rank >= 2 tensors are summed over the component axis (dim 1), rank-1 tensors are returned as is.
  * TorchDistribution.log_prob / sample / entropy on expression trees with a recording handler mock:
      - without squashing: the handler is asked for the density of the GIVEN action, nothing is added;
      - with squashing: the correction  - sum_dim1 log(1 - action^2 + 1e-6)  is subtracted, entropy is None, sample() returns tanh(sample);
      - with squashing the density must be evaluated at atanh(action) (the pre-squash value of the given action): the real code uses
        the latest sample instead -> refuted obligation, recorded as KNOWN FINDING (not repaired: it changes PPO's update numerics).
"""
import ast

import z3

from pyvc.execu import z3ify
from pyvc.main import Prop
from pyvc.values import Fn, Obj, Opaque, PyRaise, Undecided
from . import C14  # noqa: F401  (installs the extra Vec methods: masked_fill, clip, device)
from . import tensors as TT
from .C17 import region
from .C19 import MX
from .tensors import Vec

NET = "agilerl.networks.distributions."


def mx_getattr(self, ex, st, name):
    if name == "pow":
        return Fn(model=lambda ex, st, a, k: MX(("pow", self.node, a[0])), name="pow")
    if name == "sum":
        return Fn(model=lambda ex, st, a, k: MX(("sum", self.node, k.get("dim", a[0] if a else None))), name="sum")
    if name == "shape":
        return ("B", "D")
    if name == "clamp":
        return Fn(model=lambda ex, st, a, k: MX(("clamp-open-unit", self.node)), name="clamp")      # clamp into (-1, 1): atanh stays finite
    if name == "dtype":
        return Opaque("dtype")
    if name == "reshape":
        # reshape to the distribution's own batch shape: the abstract action already has it (values and order are unchanged)
        return Fn(model=lambda ex, st, a, k: self, name="reshape")
    return MX._orig_getattr(self, ex, st, name)


if not hasattr(MX, "_orig_getattr"):
    MX._orig_getattr = MX.getattr
    MX.getattr = mx_getattr


def nd_contracts(P):
    """Handlers, get_distribution and apply_mask on the exact N-d model: B rows (symbolic), component counts concrete.
    A distribution object is opaque except for its defining tensors; log_prob/entropy/sample of distribution number i are the
    uninterpreted per-element functions LP(i, row, [component,] value), EN(i, row[, component]), SM(i, row[, component])."""
    from . import ndt
    from .ndt import ND
    I, Re = z3.IntSort(), z3.RealSort()
    B = z3.Int("B_rows")
    LP = z3.Function("dist_logp", I, I, I, Re, Re)      # (distribution id, row, component, value)
    EN = z3.Function("dist_entropy", I, I, I, Re)
    SM = z3.Function("dist_sample", I, I, I, Re)
    ACT = z3.Function("given_action", I, I, Re)
    LOG = z3.Function("net_logits", I, I, Re)
    MSK = z3.Function("given_mask", I, I, Re)
    LSTD = z3.Function("log_std", I, Re)
    EXP = z3.Function("exp", Re, Re)

    class Dist:
        """torch.distributions object: elementwise over its batch shape [B] (Categorical) or [B, D] (Normal, Bernoulli)"""

        def __init__(self, kind, did, shape, **defs):
            self.kind, self.did, self.shape, self.defs = kind, did, shape, defs

        def isinstance(self, ex, st, names):
            return self.kind in names or "Distribution" in names

        def _el(self, f, idx, *extra):
            comp = idx[1] if len(self.shape) == 2 else z3.IntVal(0)
            return f(z3.IntVal(self.did), z3ify(idx[0]), z3ify(comp), *extra)

        def getattr(self, ex, st, name):
            if name == "log_prob":
                def lp(ex, st, a, k):
                    x = a[0]
                    if not isinstance(x, ND):
                        raise Undecided("log_prob of a non-tensor")
                    if len(x.shape) == len(self.shape) and all(ndt.same_dim(p, q) for p, q in zip(x.shape, self.shape)):
                        return ND(self.shape, lambda idx: self._el(LP, idx, TT.toreal(x.at(idx))), "logp")
                    # torch broadcasts the value against the batch shape (trailing dimensions aligned, 1 repeats)
                    n = max(len(x.shape), len(self.shape))
                    sx, sd = [1] * (n - len(x.shape)) + list(x.shape), [1] * (n - len(self.shape)) + list(self.shape)
                    shape, mx, md = [], [], []
                    for p, q in zip(sx, sd):
                        if ndt.same_dim(p, q):
                            shape.append(p), mx.append(True), md.append(True)
                        elif ndt.cp(p) == (1, None):
                            shape.append(q), mx.append(False), md.append(True)
                        elif ndt.cp(q) == (1, None):
                            shape.append(p), mx.append(True), md.append(False)
                        else:
                            raise PyRaise("ValueError")

                    def at(idx):
                        fx = [idx[i] if mx[i] else z3.IntVal(0) for i in range(n)][n - len(x.shape):]
                        fd = [idx[i] if md[i] else z3.IntVal(0) for i in range(n)][n - len(self.shape):]
                        return self._el(LP, fd, TT.toreal(x.at(fx)))
                    return ND(shape, at, "logp.broadcast")
                return Fn(model=lp, name=name)
            if name == "entropy":
                return Fn(model=lambda ex, st, a, k: ND(self.shape, lambda idx: self._el(EN, idx), "entropy"), name=name)
            if name == "sample":
                return Fn(model=lambda ex, st, a, k: ND(self.shape, lambda idx: self._el(SM, idx), "sample"), name=name)
            if name == "batch_shape":
                return tuple(self.shape)
            raise Undecided(f"distribution attribute {name}")
    made = []

    def mk(kind, drop_last):
        def ctor(ex, st, a, k):
            t = k.get("logits", k.get("loc", a[0] if a else None))
            if not isinstance(t, ND):
                raise Undecided(f"{kind} over a non-tensor")
            d = Dist(kind, len(made), t.shape[:-1] if drop_last else list(t.shape), **k)
            made.append(d)
            return d
        return ctor
    for key, f in ndt.LIB.items():
        old = P.lib.get(key)

        def disp(ex, st, a, k, f=f, old=old):
            flat = list(a) + list(k.values())
            flat = [y for x in flat for y in (x if isinstance(x, (list, tuple)) else [x])]
            if old is None or any(isinstance(x, ND) for x in flat):
                return f(ex, st, a, k)
            return old(ex, st, a, k)
        P.lib[key] = disp
    P.lib.update({"torch.distributions.Normal": mk("Normal", False), "torch.distributions.Bernoulli": mk("Bernoulli", False),
                  "torch.distributions.Categorical": mk("Categorical", True),
                  "torch.exp": lambda ex, st, a, k: a[0].with_(at=lambda idx: EXP(a[0].at(idx)))})
    P.trusted.append(ndt.DOC)
    H = NET
    act2 = lambda D_: (lambda ex, st, l: ND([B, D_], lambda idx: ACT(z3ify(idx[0]), z3ify(idx[1])), "action"))

    def rows(f):
        b = z3.Int("b!row")
        return z3.ForAll([b], z3.Implies(z3.And(0 <= b, b < B), f(b)))

    def is_vec(r):
        return isinstance(r, ND) and len(r.shape) == 1 and ndt.same_dim(r.shape[0], B)
    # factorised distributions: joint log-probability / entropy = sum over the independent components, component i of the
    # action paired with component i of the distribution
    for kind, hname in (("Normal", "NormalHandler"), ("Bernoulli", "BernoulliHandler")):
        for D_ in (1, 3):
            d = Dist(kind, 7, [B, D_])
            P.specns[f"lp_{kind}_{D_}"] = (lambda r, D_=D_: z3.BoolVal(False) if not is_vec(r) else
                                           rows(lambda b: r.at([b]) == sum((LP(7, b, j, ACT(b, j)) for j in range(D_)), z3.RealVal(0))))
            P.specns[f"en_{kind}_{D_}"] = (lambda r, D_=D_: z3.BoolVal(False) if not is_vec(r) else
                                           rows(lambda b: r.at([b]) == sum((EN(7, b, j) for j in range(D_)), z3.RealVal(0))))
            P.contract(H + hname + ".log_prob", variant=f"D{D_}", params={"self": "opaque", "distribution": (lambda ex, st, l, d=d: d), "action": act2(D_)},
                       requires=[], modifies=[], ensures=[f"lp_{kind}_{D_}(result)"], replay="c16:logprob")
            P.contract(H + hname + ".entropy", variant=f"D{D_}", params={"self": "opaque", "distribution": (lambda ex, st, l, d=d: d)},
                       requires=[], modifies=[], ensures=[f"en_{kind}_{D_}(result)"], replay="c16:logprob")
    for K in (1, 2, 3):
        ds = [Dist("Categorical", 10 + i, [B]) for i in range(K)]
        P.specns[f"lp_multi_{K}"] = (lambda r, K=K: z3.BoolVal(False) if not is_vec(r) else
                                     rows(lambda b: r.at([b]) == sum((LP(10 + i, b, 0, ACT(b, i)) for i in range(K)), z3.RealVal(0))))
        P.specns[f"en_multi_{K}"] = (lambda r, K=K: z3.BoolVal(False) if not is_vec(r) else
                                     rows(lambda b: r.at([b]) == sum((EN(10 + i, b, 0) for i in range(K)), z3.RealVal(0))))
        P.specns[f"sm_multi_{K}"] = (lambda r, K=K: z3.BoolVal(False) if not (isinstance(r, ND) and len(r.shape) == 2 and ndt.cp(r.shape[1]) == (K, None)) else
                                     z3.And(*[rows(lambda b, i=i: r.at([b, z3.IntVal(i)]) == SM(10 + i, b, 0)) for i in range(K)]))
        P.contract(H + "MultiCategoricalHandler.log_prob", variant=f"K{K}", params={"self": "opaque", "distribution": (lambda ex, st, l, ds=ds: list(ds)), "action": act2(K)},
                   requires=[], modifies=[], ensures=[f"lp_multi_{K}(result)"], replay="c16:logprob")
        P.contract(H + "MultiCategoricalHandler.entropy", variant=f"K{K}", params={"self": "opaque", "distribution": (lambda ex, st, l, ds=ds: list(ds))},
                   requires=[], modifies=[], ensures=[f"en_multi_{K}(result)"], replay="c16:logprob")
        P.contract(H + "MultiCategoricalHandler.sample", variant=f"K{K}", params={"self": "opaque", "distribution": (lambda ex, st, l, ds=ds: list(ds))},
                   requires=[], modifies=[], ensures=[f"sm_multi_{K}(result)"], replay="c16:logprob")
    # a stored action of a ONE-component space comes back from the rollout buffer flattened to (B,): the log-probability of row b is
    # still the density of row b's distribution at row b's action (B = 3 concrete here; torch broadcasts (B,) against (B, 1))
    for kind, hname in (("Normal", "NormalHandler"), ("Bernoulli", "BernoulliHandler")):
        d1 = Dist(kind, 30, [3, 1])

        def td_self(ex, st, label, d1=d1, hname=hname):
            o = Obj(NET + "TorchDistribution", label="self")
            o.fields.update(dict(distribution=d1, squash_output=False, sampled_action=None, _handler=Obj(NET + hname, label="handler")))
            return o
        P.specns[f"lp_flat_{kind}"] = (lambda r: z3.BoolVal(False) if not (isinstance(r, ND) and len(r.shape) == 1 and ndt.cp(r.shape[0]) == (3, None)) else
                                       z3.And(*[r.at([z3.IntVal(b)]) == LP(30, b, 0, ACT(b, 0)) for b in range(3)]))
        P.contract(NET + "TorchDistribution.log_prob", variant=f"flat-action-{kind}", frame_fields=False,
                   params={"self": td_self, "action": (lambda ex, st, l: ND([3], lambda idx: ACT(z3ify(idx[0]), z3.IntVal(0)), "stored_action"))},
                   requires=[], ensures=[f"lp_flat_{kind}(result)"], replay={"adapter": "demos:run", "payload": {"name": "C16_demo_1"}})
    dc = Dist("Categorical", 20, [B])
    P.specns["lp_cat"] = lambda r: z3.BoolVal(False) if not is_vec(r) else rows(lambda b: r.at([b]) == LP(20, b, 0, ACT(b, 0)))
    P.contract(H + "CategoricalHandler.log_prob", params={"self": "opaque", "distribution": (lambda ex, st, l: dc),
                                                         "action": (lambda ex, st, l: ND([B], lambda idx: ACT(z3ify(idx[0]), z3.IntVal(0)), "action"))},
               requires=[], modifies=[], ensures=["lp_cat(result)"], replay="c16:logprob")

    # get_distribution: which tensors define the distribution of each space kind
    class Space:
        def __init__(self, cls, **kw):
            self.cls, self.kw = cls, kw

        def isinstance(self, ex, st, names):
            return self.cls in names

        def getattr(self, ex, st, name):
            if name in self.kw:
                return self.kw[name]
            raise Undecided(f"space attribute {name}")

    def ed_self(space, width):
        def mkself(ex, st, label):
            made.clear()
            o = Obj(NET + "EvolvableDistribution", label="self")
            lstd = ND([1, width], lambda idx: LSTD(z3ify(idx[1])), "log_std")
            lstd_get = lstd.getattr

            def ls_getattr(ex, st, name):
                if name == "expand_as":
                    return Fn(model=lambda ex, st, a, k: ND(a[0].shape, lambda idx: LSTD(z3ify(idx[-1])), "log_std.expanded"), name=name)
                return lstd_get(ex, st, name)
            lstd.getattr = ls_getattr
            o.fields.update(dict(action_space=space, squash_output=z3.Bool("squash_flag"), log_std=lstd, device="cpu"))
            return o
        return mkself
    logits = lambda W: (lambda ex, st, l: ND([B, W], lambda idx: LOG(z3ify(idx[0]), z3ify(idx[1])), "logits"))

    def defined_by(dist, key, f, width, off=0):
        t = dist.defs.get(key)
        if not (isinstance(t, ND) and len(t.shape) == 2 and ndt.same_dim(t.shape[0], B) and ndt.cp(t.shape[1]) == (width, None)):
            return z3.BoolVal(False)
        b, j = z3.Int("b!db"), z3.Int("j!db")
        return z3.ForAll([b, j], z3.Implies(z3.And(0 <= b, b < B, 0 <= j, j < width), t.at([b, j]) == f(b, j + off)))

    def gd_post(kind, nvec=None):
        def post(res):
            if not (isinstance(res, Obj) and res.cls.endswith("TorchDistribution")):
                return z3.BoolVal(False)
            d, out = res.fields.get("distribution"), []
            out.append(z3ify(res.fields.get("squash_output")) == z3.Bool("squash_flag"))
            hn = res.fields.get("_handler")
            want_h = {"Box": "NormalHandler", "Discrete": "CategoricalHandler", "MultiDiscrete": "MultiCategoricalHandler", "MultiBinary": "BernoulliHandler"}[kind]
            out.append(z3.BoolVal(isinstance(hn, Obj) and hn.cls.endswith(want_h)))
            if kind == "MultiDiscrete":
                if not (isinstance(d, list) and len(d) == len(nvec) and all(isinstance(x, Dist) and x.kind == "Categorical" for x in d)):
                    return z3.BoolVal(False)
                off = 0
                for x, n_ in zip(d, nvec):
                    out.append(defined_by(x, "logits", LOG, n_, off))
                    off += n_
                return z3.And(*out)
            want = {"Box": "Normal", "Discrete": "Categorical", "MultiBinary": "Bernoulli"}[kind]
            if not (isinstance(d, Dist) and d.kind == want):
                return z3.BoolVal(False)
            out.append(defined_by(d, "loc" if kind == "Box" else "logits", LOG, 3))
            if kind == "Box":
                out.append(defined_by(d, "scale", lambda b, j: EXP(LSTD(j)), 3))
            return z3.And(*out)
        return post
    for kind, space, W in (("Box", Space("Box", shape=(3,)), 3), ("Discrete", Space("Discrete", n=3), 3), ("MultiBinary", Space("MultiBinary", n=3), 3),
                           ("MultiDiscrete", Space("MultiDiscrete", nvec=[2, 3]), 5)):
        P.specns[f"gd_{kind}"] = gd_post(kind, [2, 3])
        P.contract(NET + "EvolvableDistribution.get_distribution", variant=kind, params={"self": ed_self(space, W), "logits": logits(W)},
                   requires=[], frame_fields=False, ensures=[f"gd_{kind}(result)"], replay="c16:logprob")
    # apply_mask: every masked logit becomes -1e8, every other logit is unchanged, component by component
    def mask_post_nd(res, W):
        if not (isinstance(res, ND) and len(res.shape) == 2 and ndt.same_dim(res.shape[0], B) and ndt.cp(res.shape[1]) == (W, None)):
            return z3.BoolVal(False)
        b = z3.Int("b!mp")
        return z3.And(*[z3.ForAll([b], z3.Implies(z3.And(0 <= b, b < B), z3.simplify(res.at([b, z3.IntVal(j)])) ==
                                                  z3.If(MSK(b, j) != 0, LOG(b, j), z3.RealVal("-100000000")))) for j in range(W)])
    maskp = lambda W: (lambda ex, st, l: ND([B, W], lambda idx: MSK(z3ify(idx[0]), z3ify(idx[1])), "mask", True))
    for kind, space, W in (("Discrete", Space("Discrete", n=3), 3), ("MultiBinary", Space("MultiBinary", n=3), 3), ("MultiDiscrete", Space("MultiDiscrete", nvec=[2, 3]), 5),
                           ("MultiDiscrete3", Space("MultiDiscrete", nvec=[1, 2, 2]), 5)):
        P.specns[f"am_{kind}"] = (lambda r, W=W: mask_post_nd(r, W))
        P.contract(NET + "EvolvableDistribution.apply_mask", variant=kind, params={"self": ed_self(space, W), "logits": logits(W), "mask": maskp(W)},
                   requires=[], frame_fields=False, ensures=[f"am_{kind}(result)"], replay="c16:logprob", inline=(NET + "apply_action_mask_discrete",))
    P.axioms += [B >= 1]


class _Tok:
    def __init__(self, name):
        self.name = name

    def __repr__(self):
        return f"<{self.name}>"


Opaque_obs, Opaque_act = _Tok("stored-observation"), _Tok("stored-action")


class CriticNet:
    """critic called as a function: critic(obs)"""

    def __init__(self, obj):
        self.obj = obj

    def call(self, ex, st, args, kwargs):
        class _S:
            def getattr(s, ex, st, name):
                if name == "squeeze":
                    return Fn(model=lambda ex, st, a, k: ("squeezed", ("critic", args[0])), name="squeeze")
                raise Undecided(f"value attribute {name}")
        return _S()

    def getattr(self, ex, st, name):
        raise Undecided(f"critic attribute {name}")


def build(tier):
    P = Prop("C16")
    TT.install(P)
    n = z3.Int("n_logits")
    LG, MK = z3.Const("logits", TT.A1), z3.Const("maskv", TT.A1)
    P.axioms += [n >= 1]

    def where(ex, st, a, k):
        c, x, y = a
        if isinstance(c, Vec):
            kk = z3.Int("k!wh")
            return Vec(x.n, z3.Lambda([kk], z3.If(c.arr[kk] != 0, x.arr[kk], y.arr[kk])), "where")
        raise Undecided("torch.where on non-vector")
    P.lib["torch.where"] = where
    P.lib["torch.full_like"] = lambda ex, st, a, k: Vec(a[0].n, z3.K(z3.IntSort(), TT.toreal(a[1])), "full")
    P.lib["torch.log"] = lambda ex, st, a, k: MX(("log", a[0].node))
    P.lib["torch.tanh"] = lambda ex, st, a, k: MX(("tanh", a[0].node))
    P.lib["torch.atanh"] = lambda ex, st, a, k: MX(("atanh", a[0].node))
    P.lib["torch.finfo"] = lambda ex, st, a, k: Obj("model.finfo", {"eps": z3.Real("float_eps")}, label="finfo")

    def mask_post(result):
        kk = z3.Int("k!mp")
        return z3.ForAll([kk], z3.Implies(z3.And(0 <= kk, kk < n),
                                          result.arr[kk] == z3.If(MK[kk] != 0, LG[kk], z3.RealVal("-100000000"))))
    P.specns["mask_post"] = mask_post
    P.contract(NET + "apply_action_mask_discrete",
               params={"logits": lambda ex, st, l: Vec(n, LG, "logits"), "mask": lambda ex, st, l: Vec(n, MK, "mask")},
               requires=[], modifies=[], ensures=["mask_post(result)"], replay="c16:logprob")

    # sum over the component axis
    class ShapeOnly:
        def __init__(self, rank):
            self.rank = rank
            self.summed = None

        def getattr(self, ex, st, name):
            if name == "shape":
                return tuple(f"d{i}" for i in range(self.rank))
            if name == "sum":
                def s(ex, st, a, k):
                    self.summed = k.get("dim", a[0] if a else None)
                    return ("summed", self)
                return Fn(model=s, name="sum")
            raise Undecided(name)
    for rank in (1, 2, 3):
        t = ShapeOnly(rank)
        P.specns[f"sum_post_{rank}"] = (lambda r, t=t, rank=rank: z3.BoolVal((r is t and t.summed is None) if rank == 1 else (r == ("summed", t) and t.summed == 1)))
        P.contract(NET + "sum_independent_tensor", variant=f"rank{rank}", params={"tensor": (lambda ex, st, l, t=t: t)}, requires=[], modifies=[],
                   ensures=[f"sum_post_{rank}(result)"], replay="c16:logprob")

    # TorchDistribution wiring with a recording handler
    class Handler:
        def __init__(self):
            self.calls = []

        def getattr(self, ex, st, name):
            if name in ("log_prob", "sample", "entropy"):
                def f(ex, st, a, k, name=name):
                    self.calls.append((name, a[1].node if len(a) > 1 and isinstance(a[1], MX) else None))
                    return MX((name + "-of-handler",))
                return Fn(model=f, name=name)
            raise Undecided(name)
    for squash in (False, True):
        h = Handler()

        def setup(ex, st, fr, h=h, squash=squash):
            h.calls.clear()
            st.locals["self"] = Obj("model.TorchDistribution", {"squash_output": squash, "sampled_action": MX("latest_sample"), "_handler": h,
                                                                 "distribution": Obj("model.Distribution", {"batch_shape": ("B", "D")}, label="dist")}, label="self")
            st.locals["action"] = MX("action")
        tag = "squash" if squash else "plain"
        corr = ("sum", ("log", ("add", ("sub", ("scalar", 1), ("pow", "action", 2)), ("scalar", z3.RealVal("1/1000000")))), 1)

        def lp_wiring(result, h=h, squash=squash, corr=corr):
            if len(h.calls) != 1 or h.calls[0][0] != "log_prob" or not isinstance(result, MX):
                return z3.BoolVal(False)
            if not squash:
                return z3.BoolVal(h.calls[0][1] == "action" and result.node == ("log_prob-of-handler",))
            ok = result.node[0] == "sub" and result.node[1] == ("log_prob-of-handler",)
            got = result.node[2] if ok else None
            # tolerate the representation of the constant 1e-6
            ok = ok and got[0] == "sum" and got[2] == 1 and got[1][0] == "log" and got[1][1][0] == "add" and got[1][1][1] == ("sub", ("scalar", 1), ("pow", "action", 2))
            return z3.BoolVal(bool(ok))

        def lp_argument(result, h=h, squash=squash):
            # the density has to be evaluated at the pre-squash value of the GIVEN action
            # (the given action may be clamped into the open interval (-1, 1) first so that atanh stays finite)
            want = [("atanh", "action"), ("atanh", ("clamp-open-unit", "action"))] if squash else ["action"]
            return z3.BoolVal(len(h.calls) == 1 and h.calls[0][1] in want)
        P.specns[f"lp_wiring_{tag}"], P.specns[f"lp_argument_{tag}"] = lp_wiring, lp_argument
        P.contract(NET + "TorchDistribution.log_prob", variant=tag, setup=setup, params={}, requires=[], frame_fields=False,
                   ensures=[f"lp_wiring_{tag}(result)", f"lp_argument_{tag}(result)"], replay="c16:squash" if squash else "c16:logprob")
        P.specns[f"ent_{tag}"] = (lambda result, squash=squash: z3.BoolVal(result is None if squash else (isinstance(result, MX) and result.node == ("entropy-of-handler",))))
        P.contract(NET + "TorchDistribution.entropy", variant=tag, setup=setup, params={}, requires=[], frame_fields=False,
                   ensures=[f"ent_{tag}(result)"], replay="c16:logprob")
        P.specns[f"smp_{tag}"] = (lambda result, squash=squash: z3.BoolVal(isinstance(result, MX) and result.node == (("tanh", ("sample-of-handler",)) if squash else ("sample-of-handler",))))
        P.contract(NET + "TorchDistribution.sample", variant=tag, setup=setup, params={}, requires=[], frame_fields=False,
                   ensures=[f"smp_{tag}(result)"], replay="c16:logprob")
    nd_contracts(P)
    P.native.append(dict(name="logprob", adapter="c16:logprob", payload={"mode": "search"},
                         bound="StochasticActor over Discrete(4), MultiDiscrete([2,3]), MultiBinary(4), MultiBinary(1), Box(3), Box(1); random masks incl. an all-False "
                               "MultiBinary row; log-prob / entropy vs. torch.distributions on the raw outputs; re-evaluation of stored actions"))
    P.trusted += ["torch.distributions (densities, sampling, entropy) - outside the technique", "expression-tree execution (C19) and the row-generic Vec model (C14)"]
    P.assumptions += ["'masked actions have zero probability' relies on float underflow of exp(-1e8): not claimed (DESIGN 6)"]
    # ---- PPO.evaluate_actions (+ _get_action_and_values inlined): the log-probability returned for a STORED action is the head's
    # log_prob of exactly that action, taken after the forward pass of the same (prepared) observation set the distribution - never the
    # log-prob of the action sampled by that forward pass, never a stale distribution; values come from the critic on the same observation
    LPM = z3.Function("mean_log_prob", z3.IntSort(), z3.IntSort(), z3.RealSort())
    ids = {}
    ident = lambda tok: ids.setdefault(repr(tok), len(ids) + 1)

    class LogProb:
        def __init__(self, dist, action):
            self.dist, self.action = dist, action

        def __eq__(self, other):
            return isinstance(other, LogProb) and (other.dist, other.action) == (self.dist, self.action)

        def __hash__(self):
            return hash(("LogProb", repr(self.dist), repr(self.action)))

        def getattr(self, ex, st, name):
            if name == "mean":
                return Fn(model=lambda ex, st, a, k: LPM(ident(self.dist), ident(self.action)), name="mean")
            raise Undecided(f"log-prob attribute {name}")

    class Squeezable:
        def __init__(self, what):
            self.what = what

        def getattr(self, ex, st, name):
            if name == "squeeze":
                return Fn(model=lambda ex, st, a, k: ("squeezed", self.what), name="squeeze")
            raise Undecided(f"value attribute {name}")
    for share in (False, True):
        for ent_tag, ent in (("entropy", Opaque("entropy-of-forward")), ("squashed", None)):
            def eval_self(ex, st, label, share=share, ent=ent):
                head = Obj("model.Head", label="head_net")
                head.fields["dist"] = "stale"
                head.fields["log_prob"] = Fn(model=lambda ex, st, a, k: LogProb(head.fields["dist"], a[0]), name="log_prob")

                def forward_head(ex, st, a, k):
                    head.fields["dist"] = ("dist-of", a[0], k.get("action_mask"))
                    return (Opaque("sampled-action"), LogProb(head.fields["dist"], "sampled-action"), ent)
                actor = Obj("model.Actor", label="actor")
                actor.fields.update(dict(head_net=head, extract_features=Fn(model=lambda ex, st, a, k: ("latent", a[0]), name="extract_features"),
                                         forward_head=Fn(model=forward_head, name="forward_head")))
                critic = Obj("model.Critic", label="critic")
                critic.fields.update(dict(forward_head=Fn(model=lambda ex, st, a, k: Squeezable(("critic-head", a[0])), name="forward_head")))
                critic.call = None
                o = Obj("agilerl.algorithms.ppo.PPO", label="self")
                o.fields.update(dict(actor=actor, critic=CriticNet(critic) if not share else critic, share_encoders=share,
                                     preprocess_observation=Fn(model=lambda ex, st, a, k: ("prepared", a[0]), name="preprocess_observation")))
                return o

            def eval_post(res, share=share, ent=ent):
                if not (isinstance(res, tuple) and len(res) == 3):
                    return z3.BoolVal(False)
                lp, entropy, values = res
                obs = ("prepared", Opaque_obs)
                dist = ("dist-of", ("latent", obs), None)
                want_v = ("squeezed", ("critic-head", ("latent", obs))) if share else ("squeezed", ("critic", obs))
                ok = lp == LogProb(dist, Opaque_act) and values == want_v
                if not ok:
                    return z3.BoolVal(False)
                if ent is not None:
                    return z3.BoolVal(entropy is ent)
                return z3ify(entropy) == -LPM(ident(dist), ident(Opaque_act))
            tag = f"{'shared' if share else 'separate'}-{ent_tag}"
            P.specns["eval_post_" + tag.replace("-", "_")] = eval_post
            P.contract("agilerl.algorithms.ppo.PPO.evaluate_actions", variant=tag,
                       params={"self": eval_self, "obs": (lambda ex, st, l: Opaque_obs), "actions": (lambda ex, st, l: Opaque_act)},
                       inline=("agilerl.algorithms.ppo.PPO._get_action_and_values",),
                       requires=[], frame_fields=False, ensures=[f"eval_post_{tag.replace('-', '_')}(result)"],
                       replay={"adapter": "demos:run", "payload": {"name": "C16_demo_1"}})
    # IPPO: the same re-evaluation inside the minibatch loop of _learn_individual
    class ActorM:
        def __init__(self):
            self.dist = "stale"

        def call(self, ex, st, args, kwargs):
            self.dist = ("dist-of", args[0], kwargs.get("action_mask"))
            return (Opaque("sampled-action"), LogProb(self.dist, "sampled-action"), Opaque("entropy-of-forward"))

        def getattr(self, ex, st, name):
            if name == "action_log_prob":
                return Fn(model=lambda ex, st, a, k: LogProb(self.dist, a[0]), name=name)
            if name in ("train", "eval"):
                return Fn(model=lambda ex, st, a, k: None, name=name)
            raise Undecided(f"actor attribute {name}")

    class CriticM:
        def call(self, ex, st, args, kwargs):
            return Squeezable(("critic", args[0]))

        def getattr(self, ex, st, name):
            if name in ("train", "eval"):
                return Fn(model=lambda ex, st, a, k: None, name=name)
            raise Undecided(f"critic attribute {name}")
    BS_, OSP_ = _Tok("batch-states"), _Tok("observation-space-of-the-group")
    P.lib["agilerl.utils.algo_utils.preprocess_observation"] = lambda ex, st, a, k: ("prepared", a[0], a[1])
    from pyvc import front as _front16
    _o16, _m16, _f16 = _front16.find_function("agilerl.algorithms.ippo.IPPO._learn_individual")

    def ippo_reeval(log_prob, value):
        prepared = ("prepared", BS_, OSP_)
        return z3.BoolVal(bool(log_prob == LogProb(("dist-of", prepared, None), Opaque_act) and value == ("squeezed", ("critic", prepared))))
    P.specns["ippo_reeval"] = ippo_reeval
    P.contract("agilerl.algorithms.ippo.IPPO._learn_individual", variant="re-evaluation",
               region=region("batch_states = ", "log_prob = "),
               params={**{a_.arg: "opaque" for a_ in _f16.args.args + _f16.args.kwonlyargs},
                       "self": (lambda ex, st, l: Obj("model.IPPO", {"device": "cpu", "normalize_images": True}, label="self")),
                       "actor": (lambda ex, st, l: ActorM()), "critic": (lambda ex, st, l: CriticM()), "batch_states": (lambda ex, st, l: BS_),
                       "obs_space": (lambda ex, st, l: OSP_), "batch_actions": (lambda ex, st, l: Opaque_act)},
               requires=[], frame_fields=False, ensures=["ippo_reeval(log_prob, value)"],
               replay={"adapter": "demos:run", "payload": {"name": "C16_demo_1"}})
    P.uncovered += ["values of the densities (torch.distributions)", "masks at re-evaluation (known finding); StochasticActor.scale_action is under contract in C14"]
    return P
