"""C16 — stochastic policies report the true log-probability and entropy (wiring; narrow; DESIGN.md section 5, C16).

torch.distributions densities are outside the technique (trusted library): what is proved is the wiring around them.
  * apply_action_mask_discrete (row-generic): masked logits are -1e8, unmasked logits unchanged, for every mask.
  * sum_independent_tensor: rank >= 2 tensors are summed over the component axis (dim 1), rank-1 tensors are returned as is.
  * TorchDistribution.log_prob / sample / entropy on expression trees with a recording handler mock:
      - without squashing: the handler is asked for the density of the GIVEN action, nothing is added;
      - with squashing: the correction  - sum_dim1 log(1 - action^2 + 1e-6)  is subtracted, entropy is None, sample() returns tanh(sample);
      - with squashing the density must be evaluated at atanh(action) (the pre-squash value of the given action): the real code uses
        the latest sample instead -> refuted obligation, recorded as KNOWN FINDING (not repaired: it changes PPO's update numerics).
"""
import ast

import z3

from pyvc.main import Prop
from pyvc.values import Fn, Obj, Opaque, Undecided
from . import C14  # noqa: F401  (installs the extra Vec methods: masked_fill, clip, device)
from . import tensors as TT
from .C19 import MX
from .tensors import Vec

NET = "agilerl.networks.distributions."


def mx_getattr(self, ex, st, name):
    if name == "pow":
        return Fn(model=lambda ex, st, a, k: MX(("pow", self.node, a[0])), name="pow")
    if name == "sum":
        return Fn(model=lambda ex, st, a, k: MX(("sum", self.node, k.get("dim", a[0] if a else None))), name="sum")
    if name == "shape":
        return ("B", "D")
    return MX._orig_getattr(self, ex, st, name)


if not hasattr(MX, "_orig_getattr"):
    MX._orig_getattr = MX.getattr
    MX.getattr = mx_getattr


def build(tier):
    P = Prop("C16")
    TT.install(P)
    n = z3.Int("n_logits")
    LG, MK = z3.Const("logits", TT.A1), z3.Const("maskv", TT.A1)
    P.axioms += [n >= 1]

    def where(ex, st, a, k):
        c, x, y = a
        if isinstance(c, Vec):
            kk = z3.Int("k!wh")
            return Vec(x.n, z3.Lambda([kk], z3.If(c.arr[kk] != 0, x.arr[kk], y.arr[kk])), "where")
        raise Undecided("torch.where on non-vector")
    P.lib["torch.where"] = where
    P.lib["torch.full_like"] = lambda ex, st, a, k: Vec(a[0].n, z3.K(z3.IntSort(), TT.toreal(a[1])), "full")
    P.lib["torch.log"] = lambda ex, st, a, k: MX(("log", a[0].node))
    P.lib["torch.tanh"] = lambda ex, st, a, k: MX(("tanh", a[0].node))

    def mask_post(result):
        kk = z3.Int("k!mp")
        return z3.ForAll([kk], z3.Implies(z3.And(0 <= kk, kk < n),
                                          result.arr[kk] == z3.If(MK[kk] != 0, LG[kk], z3.RealVal("-100000000"))))
    P.specns["mask_post"] = mask_post
    P.contract(NET + "apply_action_mask_discrete",
               params={"logits": lambda ex, st, l: Vec(n, LG, "logits"), "mask": lambda ex, st, l: Vec(n, MK, "mask")},
               requires=[], modifies=[], ensures=["mask_post(result)"], replay="c16:logprob")

    # sum over the component axis
    class ShapeOnly:
        def __init__(self, rank):
            self.rank = rank
            self.summed = None

        def getattr(self, ex, st, name):
            if name == "shape":
                return tuple(f"d{i}" for i in range(self.rank))
            if name == "sum":
                def s(ex, st, a, k):
                    self.summed = k.get("dim", a[0] if a else None)
                    return ("summed", self)
                return Fn(model=s, name="sum")
            raise Undecided(name)
    for rank in (1, 2, 3):
        t = ShapeOnly(rank)
        P.specns[f"sum_post_{rank}"] = (lambda r, t=t, rank=rank: z3.BoolVal((r is t and t.summed is None) if rank == 1 else (r == ("summed", t) and t.summed == 1)))
        P.contract(NET + "sum_independent_tensor", variant=f"rank{rank}", params={"tensor": (lambda ex, st, l, t=t: t)}, requires=[], modifies=[],
                   ensures=[f"sum_post_{rank}(result)"], replay="c16:logprob")

    # TorchDistribution wiring with a recording handler
    class Handler:
        def __init__(self):
            self.calls = []

        def getattr(self, ex, st, name):
            if name in ("log_prob", "sample", "entropy"):
                def f(ex, st, a, k, name=name):
                    self.calls.append((name, a[1].node if len(a) > 1 and isinstance(a[1], MX) else None))
                    return MX((name + "-of-handler",))
                return Fn(model=f, name=name)
            raise Undecided(name)
    for squash in (False, True):
        h = Handler()

        def setup(ex, st, fr, h=h, squash=squash):
            h.calls.clear()
            st.locals["self"] = Obj("model.TorchDistribution", {"squash_output": squash, "sampled_action": MX("latest_sample"), "_handler": h,
                                                                 "distribution": Opaque("dist")}, label="self")
            st.locals["action"] = MX("action")
        tag = "squash" if squash else "plain"
        corr = ("sum", ("log", ("add", ("sub", ("scalar", 1), ("pow", "action", 2)), ("scalar", z3.RealVal("1/1000000")))), 1)

        def lp_wiring(result, h=h, squash=squash, corr=corr):
            if len(h.calls) != 1 or h.calls[0][0] != "log_prob" or not isinstance(result, MX):
                return z3.BoolVal(False)
            if not squash:
                return z3.BoolVal(h.calls[0][1] == "action" and result.node == ("log_prob-of-handler",))
            ok = result.node[0] == "sub" and result.node[1] == ("log_prob-of-handler",)
            got = result.node[2] if ok else None
            # tolerate the representation of the constant 1e-6
            ok = ok and got[0] == "sum" and got[2] == 1 and got[1][0] == "log" and got[1][1][0] == "add" and got[1][1][1] == ("sub", ("scalar", 1), ("pow", "action", 2))
            return z3.BoolVal(bool(ok))

        def lp_argument(result, h=h, squash=squash):
            # the density has to be evaluated at the pre-squash value of the GIVEN action
            want = ("atanh", "action") if squash else "action"
            return z3.BoolVal(len(h.calls) == 1 and h.calls[0][1] == want)
        P.specns[f"lp_wiring_{tag}"], P.specns[f"lp_argument_{tag}"] = lp_wiring, lp_argument
        P.contract(NET + "TorchDistribution.log_prob", variant=tag, setup=setup, params={}, requires=[], frame_fields=False,
                   ensures=[f"lp_wiring_{tag}(result)", f"lp_argument_{tag}(result)"], replay="c16:squash" if squash else "c16:logprob")
        P.specns[f"ent_{tag}"] = (lambda result, squash=squash: z3.BoolVal(result is None if squash else (isinstance(result, MX) and result.node == ("entropy-of-handler",))))
        P.contract(NET + "TorchDistribution.entropy", variant=tag, setup=setup, params={}, requires=[], frame_fields=False,
                   ensures=[f"ent_{tag}(result)"], replay="c16:logprob")
        P.specns[f"smp_{tag}"] = (lambda result, squash=squash: z3.BoolVal(isinstance(result, MX) and result.node == (("tanh", ("sample-of-handler",)) if squash else ("sample-of-handler",))))
        P.contract(NET + "TorchDistribution.sample", variant=tag, setup=setup, params={}, requires=[], frame_fields=False,
                   ensures=[f"smp_{tag}(result)"], replay="c16:logprob")
    P.native.append(dict(name="logprob", adapter="c16:logprob", payload={"mode": "search"},
                         bound="StochasticActor over Discrete(4), MultiDiscrete([2,3]), MultiBinary(4), MultiBinary(1), Box(3), Box(1); random masks incl. an all-False "
                               "MultiBinary row; log-prob / entropy vs. torch.distributions on the raw outputs; re-evaluation of stored actions"))
    P.trusted += ["torch.distributions (densities, sampling, entropy) - outside the technique", "expression-tree execution (C19) and the row-generic Vec model (C14)"]
    P.assumptions += ["'masked actions have zero probability' relies on float underflow of exp(-1e8): not claimed (DESIGN 6)"]
    P.uncovered += ["values of the densities; split of masks per MultiDiscrete component (native adapter only)", "StochasticActor.scale_action, PPO/IPPO call sites"]
    return P
