"""C17 — GAE follows its definition, respects episode boundaries, rows stay aligned (DESIGN.md section 5, C17)."""
import ast

import z3

from pyvc.execu import z3ify
from pyvc.main import Prop
from pyvc.values import Fn, Obj, Opaque, Seq, Undecided, fresh_name
from . import tensors as TT
from .tensors import Mat, Vec

I, Re = z3.IntSort(), z3.RealSort()
T_, E_ = z3.Int("T"), z3.Int("E")
R_ = z3.Const("rewards", TT.A2)
V_ = z3.Const("values", TT.A2)
D_ = z3.Const("dones", TT.A2)
ND_ = z3.Const("next_done", TT.A1)
NV_ = z3.Const("next_value", TT.A1)      # critic(next_state), per env
G_, L_ = z3.Real("gamma"), z3.Real("lam")
A_ = z3.Function("A", I, I, Re)          # the GAE recursion of the property statement (defined by unfoldA)


def nn(t, e):      # 1 - d_{t+1}
    return z3.If(t == T_ - 1, 1 - ND_[e], 1 - D_[t + 1][e])


def nv(t, e):      # V_{t+1}
    return z3.If(t == T_ - 1, NV_[e], V_[t + 1][e])


def unfoldA(t):
    """A_t = delta_t + gamma*lambda*(1-d_{t+1})*A_{t+1},  delta_t = r_t + gamma*V_{t+1}*(1-d_{t+1}) - V_t,  A_T = 0."""
    e = z3.Int("e!uA")
    t = z3ify(t)
    nxt = z3.If(t == T_ - 1, z3.RealVal(0), A_(t + 1, e))
    return z3.ForAll([e], A_(t, e) == R_[t][e] + G_ * nv(t, e) * nn(t, e) - V_[t][e] + G_ * L_ * nn(t, e) * nxt,
                     patterns=[A_(t, e)])


def rows_done(adv, lo):
    s, e = z3.Int("s!rd"), z3.Int("e!rd")
    return z3.ForAll([s, e], z3.Implies(z3.And(z3ify(lo) <= s, s < T_, 0 <= e, e < E_), adv.arr[s][e] == A_(s, e)))


def last_is(last, k):
    e = z3.Int("e!li")
    k = z3ify(k)
    return z3.ForAll([e], z3.Implies(z3.And(0 <= e, e < E_), last.arr[e] == z3.If(k == 0, z3.RealVal(0), A_(T_ - k, e))))


def returns_ok(ret, adv):
    s, e = z3.Int("s!ro"), z3.Int("e!ro")
    return z3.ForAll([s, e], z3.Implies(z3.And(0 <= s, s < T_, 0 <= e, e < E_), ret.arr[s][e] == A_(s, e) + V_[s][e]))


def region(first, last):
    """Statement range of the real function body, selected mechanically by source-text prefixes; `with` blocks are
    searched too (the statements keep their order; nothing is rewritten)."""
    def flat(body):
        for s in body:
            yield s
    def pick(body):
        lists = [body]
        for w in ast.walk(ast.Module(body=body, type_ignores=[])):
            for fld in ("body", "orelse", "finalbody"):
                v = getattr(w, fld, None)
                if isinstance(v, list) and v and isinstance(v[0], ast.stmt) and v is not body:
                    lists.append(v)
        for cand in lists:
            out, on = [], False
            for s in flat(cand):
                txt = ast.unparse(s)
                if not on and txt.startswith(first):
                    on = True
                if on:
                    out.append(s)
                    if txt.startswith(last):
                        return out
        raise Undecided(f"region {first!r} .. {last!r} not found in the function body")
    return pick


def no_leak_lemmas():
    """Two rollouts (R1,V1,D1 / R2,V2,D2 with their own bootstrap) that agree on steps <= t0 and whose step t0+1 starts a new
    episode (d_{t0+1} = 1, or next_done = 1 when t0 = T-1) have equal A(s, e) for every s <= t0: downward induction on s."""
    out = []
    A2_ = z3.Function("A2", I, I, Re)
    R2, V2, D2 = z3.Const("rewards2", TT.A2), z3.Const("values2", TT.A2), z3.Const("dones2", TT.A2)
    ND2, NV2 = z3.Const("next_done2", TT.A1), z3.Const("next_value2", TT.A1)
    e, t0, s = z3.Int("e!nl"), z3.Int("t0!nl"), z3.Int("s!nl")

    def nn2(t):
        return z3.If(t == T_ - 1, 1 - ND2[e], 1 - D2[t + 1][e])

    def nv2(t):
        return z3.If(t == T_ - 1, NV2[e], V2[t + 1][e])

    def unf1(t):
        return A_(t, e) == R_[t][e] + G_ * nv(t, e) * nn(t, e) - V_[t][e] + G_ * L_ * nn(t, e) * z3.If(t == T_ - 1, z3.RealVal(0), A_(t + 1, e))

    def unf2(t):
        return A2_(t, e) == R2[t][e] + G_ * nv2(t) * nn2(t) - V2[t][e] + G_ * L_ * nn2(t) * z3.If(t == T_ - 1, z3.RealVal(0), A2_(t + 1, e))
    k = z3.Int("k!nl")
    agree = z3.ForAll([k], z3.Implies(z3.And(0 <= k, k <= t0), z3.And(R_[k][e] == R2[k][e], V_[k][e] == V2[k][e], D_[k][e] == D2[k][e])))
    boundary = z3.And(0 <= t0, t0 < T_, T_ >= 1,
                      z3.If(t0 == T_ - 1, z3.And(ND_[e] == 1, ND2[e] == 1), z3.And(D_[t0 + 1][e] == 1, D2[t0 + 1][e] == 1)))
    out.append(("gae_no_leak.base", lambda: ([agree, boundary, unf1(t0), unf2(t0)], A_(t0, e) == A2_(t0, e))))
    out.append(("gae_no_leak.step", lambda: ([agree, boundary, 0 <= s, s < t0, A_(s + 1, e) == A2_(s + 1, e), unf1(s), unf2(s)],
                                             A_(s, e) == A2_(s, e))))
    return out


def ippo_pipeline(P, tier):
    """IPPO._learn_individual from its first statement to the tuple handed to the minibatch loop, on the exact N-d tensor
    model (contracts/ndt.py): A agents sharing the policy and E environments concrete (enumerated), rollout length T symbolic.
    Agent a's rollout is column block a*E .. a*E+E-1 of the arrays of the GAE definition, so the postcondition reads:
    flat row a*T*E + t*E + e of EVERY training tensor belongs to (agent a, step t, env e)."""
    from . import ndt
    from .ndt import ND
    LP_ = z3.Const("log_probs", TT.A2)
    S_ = z3.Function("S_obs", I, I, I, I, Re)          # observation feature j of (agent, step, env)
    ACT_ = z3.Function("S_act", I, I, I, Re)           # action of (agent, step, env)
    NS_ = z3.Function("S_next_obs", I, I, I, Re)       # final next observation feature j of (agent, env)
    CR_ = z3.Function("critic", Re, Re, Re)            # the critic: an arbitrary function of an observation row (D = 2 features)
    D = 2

    class Space:
        def __init__(self, cls, shape):
            self.cls, self.shape = cls, shape

        def isinstance(self, ex, st, names):
            return self.cls in names

        def getattr(self, ex, st, name):
            if name == "shape":
                return self.shape
            raise Undecided(f"space attribute {name}")

    def critic(ex, st, a, k):
        x = a[0]
        if not isinstance(x, ND) or not x.shape or ndt.cp(x.shape[-1]) != (D, None):
            raise Undecided("critic on something that is not a batch of observation rows")
        return ND(x.shape[:-1] + [1], lambda idx: CR_(x.at(list(idx[:-1]) + [z3.IntVal(0)]), x.at(list(idx[:-1]) + [z3.IntVal(1)])), "critic-out")

    combos = [(1, 1), (2, 1), (1, 2), (2, 2), (3, 2)] if tier == "quick" else [(a, e) for a in (1, 2, 3) for e in (1, 2, 3)]
    for (A, E) in combos:
        for act_kind in (("Discrete",) if (A, E) != (2, 2) and tier == "quick" else ("Discrete", "Box1")):
            C = A * E
            tag = f"A{A}E{E}{act_kind}"

            def setup(ex, st, fr, A=A, E=E, C=C, act_kind=act_kind):
                agents = [f"agent_{a}" for a in range(A)]

                def per(arr):
                    return {ag: ND([T_, E], (lambda idx, a=a: arr[z3ify(idx[0])][a * E + z3ify(idx[1])]), "in", True) for a, ag in enumerate(agents)}
                states = {ag: ND([T_, E, D], (lambda idx, a=a: S_(z3.IntVal(a), z3ify(idx[0]), z3ify(idx[1]), z3ify(idx[2]))), "obs", True) for a, ag in enumerate(agents)}
                if act_kind == "Discrete":
                    actions = {ag: ND([T_, E], (lambda idx, a=a: ACT_(z3.IntVal(a), z3ify(idx[0]), z3ify(idx[1]))), "act", True) for a, ag in enumerate(agents)}
                    aspace = Space("Discrete", ())
                else:
                    actions = {ag: ND([T_, E, 1], (lambda idx, a=a: ACT_(z3.IntVal(a), z3ify(idx[0]), z3ify(idx[1]))), "act", True) for a, ag in enumerate(agents)}
                    aspace = Space("Box", (1,))
                next_state = {ag: ND([E, D], (lambda idx, a=a: NS_(z3.IntVal(a), z3ify(idx[0]), z3ify(idx[1]))), "next_obs", True) for a, ag in enumerate(agents)}
                next_done = {ag: ND([E], (lambda idx, a=a: ND_[a * E + z3ify(idx[0])]), "next_done", True) for a, ag in enumerate(agents)}
                o = Obj("model.IPPO", label="self")
                o.fields.update(dict(gamma=G_, gae_lambda=L_, device="cpu", normalize_images=True))
                st.locals.update(dict(self=o, experiences=(states, actions, per(LP_), per(R_), per(D_), per(V_), next_state, next_done),
                                      actor=Opaque("actor"), critic=Fn(model=critic, name="critic"), actor_optimizer=Opaque("opt"), critic_optimizer=Opaque("opt"),
                                      obs_space=Space("Box", (D,)), action_space=aspace))
                # the bootstrap value of column (a, e) IS the critic's value of that agent's final next observation in that env
                e = z3.Int("e!nv")
                for a in range(A):
                    st.assume(z3.ForAll([e], z3.Implies(z3.And(0 <= e, e < E), NV_[a * E + e] == CR_(NS_(a, e, 0), NS_(a, e, 1)))))
                st.assume(E_ == C)
                st.assume(T_ * C >= 2)          # a rollout of a single sample is never used for an update (len(minibatch_idxs) > 1)

            def rows_done_nd(adv, lo, C=C):
                s_, c_ = z3.Int("s!rn"), z3.Int("c!rn")
                if not (isinstance(adv, ND) and len(adv.shape) == 2 and ndt.cp(adv.shape[1]) == (C, None)):
                    return z3.BoolVal(False)
                return z3.And(z3ify(adv.shape[0]) == T_,
                              *[z3.ForAll([s_], z3.Implies(z3.And(z3ify(lo) <= s_, s_ < T_), z3.simplify(adv.at([s_, z3.IntVal(c)])) == A_(s_, c))) for c in range(C)])

            def last_is_nd(last, k, C=C):
                k = z3ify(k)
                if not isinstance(last, ND):
                    return z3.BoolVal(False)
                if ndt.prod(last.shape) != (C, None):
                    return z3.BoolVal(False)
                return z3.And(*[last.flat(z3.IntVal(c)) == z3.If(k == 0, z3.RealVal(0), A_(T_ - k, c)) for c in range(C)])

            def zero_nd(v, C=C):
                return ND([C], lambda idx: z3.RealVal(0), "last") if (isinstance(v, int) and v == 0) else v

            def rows_post(exps, A=A, E=E, act_kind=act_kind):
                if not (isinstance(exps, tuple) and len(exps) == 6 and all(isinstance(x, ND) for x in exps)):
                    return z3.BoolVal(False)
                st_, ac, lp, adv, ret, val = exps
                N = A * E * T_
                t, e, j = z3.Int("t!rp"), z3.Int("e!rp"), z3.Int("j!rp")
                out = [z3ify(st_.numel()) == N * D] + [z3ify(x.numel()) == N for x in (ac, lp, adv, ret, val)]
                # one row per sample: the minibatch indices address the first dimension of every tensor
                for x in exps:
                    out.append(z3.Or(N == 1, z3ify(x.shape[0]) == N) if x.shape else (N == 1))
                for a in range(A):
                    row = a * E * T_ + t * E + e
                    col = a * E + e
                    rng = z3.And(0 <= t, t < T_, 0 <= e, e < E)
                    out.append(z3.ForAll([t, e, j], z3.Implies(z3.And(rng, 0 <= j, j < D), st_.flat(row * D + j) == S_(a, t, e, j))))
                    out.append(z3.ForAll([t, e], z3.Implies(rng, ac.flat(row) == ACT_(a, t, e))))
                    out.append(z3.ForAll([t, e], z3.Implies(rng, lp.flat(row) == LP_[t][col])))
                    out.append(z3.ForAll([t, e], z3.Implies(rng, val.flat(row) == V_[t][col])))
                    out.append(z3.ForAll([t, e], z3.Implies(rng, adv.flat(row) == A_(t, col))))
                    out.append(z3.ForAll([t, e], z3.Implies(rng, ret.flat(row) == A_(t, col) + V_[t][col])))
                return z3.And(*out)
            P.specns.update({f"rows_done_{tag}": rows_done_nd, f"last_is_{tag}": last_is_nd, f"zero_{tag}": zero_nd, f"rows_post_{tag}": rows_post})
            P.contract("agilerl.algorithms.ippo.IPPO._learn_individual", variant=f"rows-{tag}",
                       region=region("states, actions, log_probs, rewards", "experiences = (states, actions"),
                       setup=setup, params={}, requires=[], frame_fields=False,
                       loops={0: dict(invariant=[f"rows_done_{tag}(advantages, T - _k)", f"last_is_{tag}(last_gae_lambda, _k)"],
                                      coerce={"last_gae_lambda": f"zero_{tag}"},
                                      ghost_pre=["use(unfoldA(T - 1 - _k))"])},
                       ensures=[f"rows_post_{tag}(experiences)"], replay="c17:ippo_align")
    ndt.install(P)


def build(tier):
    P = Prop("C17")
    TT.install(P)
    P.axioms += [T_ >= 1, E_ >= 1]
    P.specns.update(dict(unfoldA=unfoldA, rows_done=rows_done, last_is=last_is, returns_ok=returns_ok, T=T_, E=E_))
    for nm, mk in no_leak_lemmas():
        P.lemmas.append((nm, mk))

    def ppo_self(ex, st, label):
        o = Obj("model.PPO", label="self")
        o.fields.update(dict(gamma=G_, gae_lambda=L_,
                             critic=Fn(model=lambda ex, st, a, k: Vec(E_, NV_, "next_value"), name="critic"),
                             preprocess_observation=Fn(model=lambda ex, st, a, k: a[0], name="preprocess_observation")))
        return o
    P.contract("agilerl.algorithms.ppo.PPO.learn", variant="gae",
               region=region("dones = dones.long()", "with torch.no_grad()"),
               params={"self": ppo_self, "experiences": "opaque",
                       "rewards": lambda ex, st, l: Mat(T_, E_, R_, "rewards"), "values": lambda ex, st, l: Mat(T_, E_, V_, "values"),
                       "dones": lambda ex, st, l: Mat(T_, E_, D_, "dones"), "next_done": lambda ex, st, l: Vec(E_, ND_, "next_done"),
                       "next_state": "opaque"},
               requires=[], frame_fields=False,
               loops={0: dict(invariant=["rows_done(advantages, T - _k)", "last_is(last_gae_lambda, _k)",
                                         "advantages.R == T", "advantages.C == E"],
                              coerce={"last_gae_lambda": "zero_vec"},
                              ghost_pre=["use(unfoldA(T - 1 - _k))"])},
               ensures=["rows_done(advantages, 0)", "returns_ok(returns, advantages)"],
               replay="c17:ppo_gae")
    def flat_ok(adv, ret, vals):
        k = z3.Int("k!fo")
        r, c = TT.rowof(k, T_, E_), TT.colof(k, T_, E_)
        return z3.ForAll([k], z3.Implies(z3.And(0 <= k, k < T_ * E_),
                                         z3.And(adv.arr[k] == A_(r, c), ret.arr[k] == A_(r, c) + V_[r][c], vals.arr[k] == V_[r][c])))
    P.specns["flat_ok"] = flat_ok

    def ippo_self(ex, st, label):
        o = Obj("model.IPPO", label="self")
        o.fields.update(dict(gamma=G_, gae_lambda=L_, device="cpu", normalize_images=True))
        return o
    P.lib["agilerl.utils.algo_utils.preprocess_observation"] = lambda ex, st, a, k: a[0]
    # any number of columns (agents x envs): the recursion itself, from the reshape of the stacked rollout to the end of the loop
    P.contract("agilerl.algorithms.ippo.IPPO._learn_individual", variant="gae",
               region=region("rewards = rewards.reshape(num_steps", "for t in reversed(range(num_steps))"),
               params={"self": ippo_self, "experiences": "opaque", "actor": "opaque", "actor_optimizer": "opaque",
                       "critic_optimizer": "opaque", "obs_space": "opaque", "action_space": "opaque",
                       "critic": lambda ex, st, l: Fn(model=lambda ex, st, a, k: Vec(E_, NV_, "next_value"), name="critic"),
                       "num_steps": lambda ex, st, l: T_,
                       "rewards": lambda ex, st, l: Mat(T_, E_, R_, "rewards"), "values": lambda ex, st, l: Mat(T_, E_, V_, "values"),
                       "dones": lambda ex, st, l: Mat(T_, E_, D_, "dones"), "next_done": lambda ex, st, l: Vec(E_, ND_, "next_done"),
                       "next_state": "opaque"},
               requires=[], frame_fields=False,
               loops={0: dict(invariant=["rows_done(advantages, T - _k)", "last_is(last_gae_lambda, _k)",
                                         "advantages.R == T", "advantages.C == E"],
                              coerce={"last_gae_lambda": "zero_vec"},
                              ghost_pre=["use(unfoldA(T - 1 - _k))"])},
               ensures=["rows_done(advantages, 0)"],
               replay="c17:ippo_gae")
    ippo_pipeline(P, tier)
    P.specns["zero_vec"] = lambda v: Vec(E_, z3.K(I, z3.RealVal(0)), "last") if (isinstance(v, int) and v == 0) else v
    # ---- row alignment for PPO: one flattening map and one index vector for all six tensors
    def flat_same_map(outs, ins):
        k = z3.Int("k!fm")
        cl = []
        for o, i in zip(outs, ins):
            cl.append(z3ify(o.n) == T_ * E_)
            cl.append(z3.ForAll([k], z3.Implies(z3.And(0 <= k, k < T_ * E_),
                                                o.arr[k] == i.arr[TT.colof(k, E_, T_)][TT.rowof(k, E_, T_)])))
        return z3.And(*cl)

    def gathered(outs, ins, idx):
        k = z3.Int("k!ga")
        return z3.And(*[z3.And(z3ify(o.n) == z3ify(idx.len),
                               z3.ForAll([k], z3.Implies(z3.And(0 <= k, k < z3ify(idx.len)), o.arr[k] == i.arr[idx.arr[k]])))
                        for o, i in zip(outs, ins)])
    P.specns.update(dict(flat_same_map=flat_same_map, gathered=gathered))
    six = lambda ex, st, l: tuple(Mat.fresh(f"exp{j}", T_, E_) for j in range(6))
    P.contract("agilerl.utils.algo_utils.flatten_experiences",
               params={"experiences": six}, requires=[], modifies=[],
               ensures=["len(result) == 6", "flat_same_map(result, experiences)"], replay="c17:ppo_gae")
    six_v = lambda ex, st, l: tuple(Vec.fresh(f"flat{j}", z3.Int("n_rows")) for j in range(6))
    P.contract("agilerl.utils.algo_utils.get_experiences_samples",
               params={"minibatch_indices": "seq[int]", "experiences": six_v},
               requires=["forall(k, 0, len(minibatch_indices), 0 <= minibatch_indices[k] and minibatch_indices[k] < n_rows)"],
               modifies=[], ensures=["len(result) == 6", "gathered(result, experiences, minibatch_indices)"], replay="c17:ppo_gae")
    P.specns["n_rows"] = z3.Int("n_rows")
    def wiring_ppo():
        from pyvc import front
        owner, m, fn = front.find_function("agilerl.algorithms.ppo.PPO.learn")
        tup = [x for x in ast.walk(fn) if isinstance(x, ast.Assign) and ast.unparse(x.targets[0]) == "experiences"
               and isinstance(x.value, ast.Tuple)]
        names = [ast.unparse(e) for e in tup[0].value.elts] if tup else []
        calls = [ast.unparse(x) for x in ast.walk(fn) if isinstance(x, ast.Call)]
        ok = (names == ["states", "actions", "log_probs", "advantages", "returns", "values"]
              and "flatten_experiences(*experiences)" in calls and "get_experiences_samples(minibatch_idxs, *experiences)" in calls)
        return ok, f"experiences tuple = {names}; one flatten call and one sampling call over *experiences: {ok}"
    P.syntactic.append(("ppo.learn.six-tensors-one-map", wiring_ppo))
    # bounded stand-in (never counted as proved): row alignment of the six training tensors of IPPO, real function driven natively
    P.native.append(dict(name="ippo_align", adapter="c17:ippo_align", bound="T<=3, agents<=3, envs<=2, coded values",
                         payload={"mode": "search"}))
    P.native.append(dict(name="ppo_rows", adapter="c17:ppo_gae", bound="41 rollouts T<=5, E<=2, every placement of 1-2 episode ends",
                         payload={"mode": "search"}, thorough_only=True))
    P.assumptions += ["A-REAL: rewards, values, advantages are reals", "the critic is an arbitrary function of next_state (its output is a free vector)",
                      "an int 0 that is later multiplied into a vector is the zero vector (torch broadcasting)"]
    P.uncovered += ["advantage normalisation, clipping and the loss value (not in the statement)", "float rounding"]
    return P
