"""C18 — Rainbow's categorical projection conserves mass and mean (DESIGN.md section 5, C18).

Tensor mode, generic element: every statement of the projection region of RainbowDQN._dqn_loss is element-wise, so
the region is executed symbolically on the value of each tensor at one *generic* position (i, j) (batch row i,
source atom j).  What is proved for the generic element holds for every element.  The row sums then follow from the
linearity of index_add_ (trusted lemma, listed): each source element (i, j) adds w_L to proj[i, L] and w_u to proj[i, u].
"""
import ast

import z3

from pyvc.execu import to_bool, z3ify
from pyvc.main import Prop
from pyvc.values import Fn, Obj, Opaque, Undecided, fresh_name
from .C17 import region

I, Re = z3.IntSort(), z3.RealSort()


class El:
    """Value of a tensor at the generic position; `kind` in {'real','int','bool'}."""

    def __init__(self, t):
        self.t = z3ify(t)

    def _v(self, o):
        if isinstance(o, El):
            return o.t
        o = z3ify(o)
        return o

    @staticmethod
    def _num(x):
        if isinstance(x, z3.BoolRef):
            return z3.If(x, 1, 0)
        return x

    def binop(self, ex, st, op, other, swapped):
        a, b = self.t, self._v(other)
        if swapped:
            a, b = b, a
        if isinstance(op, (ast.BitAnd,)) or (isinstance(op, ast.Mult) and isinstance(a, z3.BoolRef) and isinstance(b, z3.BoolRef)):
            return El(z3.And(to_bool(a) if not isinstance(a, z3.BoolRef) else a, b if isinstance(b, z3.BoolRef) else b != 0))
        if isinstance(op, ast.BitOr):
            return El(z3.Or(a, b))
        a, b = self._num(a), self._num(b)
        if isinstance(op, ast.Add):
            return El(a + b)
        if isinstance(op, ast.Sub):
            return El(a - b)
        if isinstance(op, ast.Mult):
            return El(a * b)
        if isinstance(op, ast.Div):
            if a.sort() == I:
                a = z3.ToReal(a)
            if b.sort() == I:
                b = z3.ToReal(b)
            return El(a / b)
        raise Undecided(f"element-wise op {type(op).__name__}")

    def iop(self, ex, st, op, other):
        return self.binop(ex, st, op, other, False)

    def compare(self, ex, st, op, other, swapped):
        a, b = self._num(self.t), self._num(self._v(other))
        if swapped:
            a, b = b, a
        t = {ast.Eq: lambda: a == b, ast.NotEq: lambda: a != b, ast.Lt: lambda: a < b, ast.LtE: lambda: a <= b,
             ast.Gt: lambda: a > b, ast.GtE: lambda: a >= b}[type(op)]()
        return El(t)

    def getattr(self, ex, st, name):
        t = self.t
        if name == "t":
            return t
        if name == "clamp":
            def clamp(ex, st, a, k):
                lo = k.get("min", a[0] if a else None)
                hi = k.get("max", a[1] if len(a) > 1 else None)
                v = t
                if lo is not None:
                    v = z3.If(v < z3ify(lo), z3ify(lo), v)
                if hi is not None:
                    v = z3.If(v > z3ify(hi), z3ify(hi), v)
                return El(v)
            return Fn(model=clamp, name="clamp")
        if name == "floor":
            return Fn(model=lambda ex, st, a, k: El(z3.ToReal(z3.ToInt(t))), name="floor")
        if name == "ceil":
            return Fn(model=lambda ex, st, a, k: El(z3.ToReal(-z3.ToInt(-t))), name="ceil")
        if name == "long":
            return Fn(model=lambda ex, st, a, k: El(z3.ToInt(t) if t.sort() == Re else t), name="long")   # values are integral here
        if name == "float":
            return Fn(model=lambda ex, st, a, k: El(z3.ToReal(t) if t.sort() == I else t), name="float")
        if name in ("clone", "detach", "cpu", "to", "numpy", "unsqueeze", "squeeze"):       # one generic element: shape ops keep its value
            return Fn(model=lambda ex, st, a, k: El(t), name=name)
        raise Undecided(f"element-wise tensor method {name}")

    def getitem(self, ex, st, idx):
        raise Undecided("indexing inside the element-wise region")

    def setitem(self, ex, st, idx, v):
        # masked in-place write  T[mask] = v   at the generic element
        if isinstance(idx, El) and isinstance(idx.t, z3.BoolRef):
            nv = self._v(v)
            self.t = z3.If(idx.t, nv, self.t)
            return
        raise Undecided("non-mask index store inside the element-wise region")

    def masked_iop(self, mask, op, val, ex, st):
        new = self.binop(ex, st, op, val, False).t
        self.t = z3.If(mask.t, new, self.t)


def extract(model):
    """solver counterexample -> concrete (atoms, support, reward, done, gamma) for the native run of the real _dqn_loss"""
    from pyvc.main import mget, mnum
    N = mnum(mget(model, "num_atoms")); vmin = mnum(mget(model, "v_min")); vmax = mnum(mget(model, "v_max"))
    r = mnum(mget(model, "reward")); d = mnum(mget(model, "done")); g = mnum(mget(model, "gamma"))
    if None in (N, vmin, vmax, r, d, g) or N > 512:
        return None
    return {"N": int(N), "vmin": vmin, "vmax": vmax, "reward": r, "done": d, "gamma": g}


def build(tier):
    P = Prop("C18")
    N = z3.Int("num_atoms")
    vmin, vmax, dz = z3.Reals("v_min v_max delta_z")
    j = z3.Int("j")
    r, d, g, p = z3.Reals("reward done gamma p")
    P.axioms += [N >= 2, vmin < vmax, dz > 0, dz * z3.ToReal(N - 1) == vmax - vmin, 0 <= j, j <= N - 1, p >= 0,
                 z3.Or(d == 0, d == 1), g >= 0]
    P.specns.update(dict(N=N, p=p, dz=dz, vmin=vmin, vmax=vmax))

    def self_model(ex, st, label):
        o = Obj("model.RainbowDQN", label="self")
        o.fields.update(dict(v_min=vmin, v_max=vmax, delta_z=dz, num_atoms=N, support=El(vmin + z3.ToReal(j) * dz)))
        return o

    def elem_post(L, u, b):
        Lr, ur = z3.ToReal(L.t) if L.t.sort() == I else L.t, z3.ToReal(u.t) if u.t.sort() == I else u.t
        bb = b.t
        wL, wu = p * (ur - bb), p * (bb - Lr)
        return [("index-range", z3.And(0 <= Lr, Lr <= ur, ur <= z3.ToReal(N - 1))),
                ("b-range", z3.And(0 <= bb, bb <= z3.ToReal(N - 1))),
                ("weights-nonneg", z3.And(wL >= 0, wu >= 0)),
                ("mass", wL + wu == p),                                   # total mass of the element is kept
                ("mean", wL * Lr + wu * ur == p * bb),                     # and so is its first moment (in atom units)
                ("mean-in-support-units", wL * (vmin + Lr * dz) + wu * (vmin + ur * dz) == p * (vmin + bb * dz))]
    P.specns["elem_post"] = lambda L, u, b, which: dict(elem_post(L, u, b))[which]

    clauses = ["index-range", "b-range", "weights-nonneg", "mass", "mean", "mean-in-support-units"]
    P.contract("agilerl.algorithms.dqn_rainbow.RainbowDQN._dqn_loss", variant="projection",
               region=region("t_z = rewards", "u["),
               params={"self": self_model, "states": "opaque", "actions": "opaque", "next_states": "opaque",
                       "rewards": lambda ex, st, l: El(r), "dones": lambda ex, st, l: El(d), "gamma": lambda ex, st, l: g},
               requires=[], frame_fields=False,
               ensures=[f"elem_post(L, u, b, '{c}')" for c in clauses] +
                       ["b.t * dz + vmin == (vmin if reward_target < vmin else (vmax if reward_target > vmax else reward_target))"],
               replay={"adapter": "c18:projection", "extract": extract})
    P.specns["reward_target"] = r + (1 - d) * g * (vmin + z3.ToReal(j) * dz)

    # the prioritised loss of learn(): every sample's loss is weighted with ITS OWN importance weight - the buffer hands the weights
    # over as a (B, 1) column, the element-wise loss has shape (B,)  (B = 3 concrete)
    from . import ndt
    from .ndt import ND
    LS = z3.Function("sample_loss", I, z3.RealSort())
    WT = z3.Function("sample_weight", I, z3.RealSort())

    def nd_mean(ex, st, a, k):
        x = a[0]
        if not isinstance(x, ND):
            raise Undecided("mean of a non-tensor")
        es = x.elements()
        return sum(es[1:], es[0]) / len(es)
    P.lib["torch.mean"] = nd_mean
    from pyvc import front as _front
    _o, _m, _f = _front.find_function("agilerl.algorithms.dqn_rainbow.RainbowDQN.learn")
    P.specns["weighted_mean"] = sum((LS(i) * WT(i) for i in range(3)), z3.RealVal(0)) / 3
    P.contract("agilerl.algorithms.dqn_rainbow.RainbowDQN.learn", variant="per-weights",
               region=region("loss = torch.mean(elementwise_loss * weights", "loss = torch.mean(elementwise_loss * weights"),
               params={**{a.arg: "opaque" for a in _f.args.args + _f.args.kwonlyargs},
                       "elementwise_loss": (lambda ex, st, l: ND([3], lambda idx: LS(z3ify(idx[0])), "elementwise_loss")),
                       "weights": (lambda ex, st, l: ND([3, 1], lambda idx: WT(z3ify(idx[0])), "weights"))},
               requires=[], frame_fields=False, ensures=["loss == weighted_mean"],
               replay={"adapter": "demos:run", "payload": {"name": "C08b_demo_2"}})
    P.trusted.append(ndt.DOC + "; torch.mean over a tensor of concrete shape")

    # which distribution is projected: the TARGET network's atom distribution of the next observation at an action that is greedy for the
    # ONLINE network's Q-values on that same next observation (one generic batch row, symbolic number of actions)
    NACT = z3.Int("n_actions")
    QV = z3.Function("q_value_of", z3.IntSort(), z3.IntSort(), z3.IntSort(), z3.RealSort())      # (network, input, action)
    a_q = z3.Int("a!q")
    P.axioms += [NACT >= 1]

    class ActIdx:
        def __init__(self, i):
            self.i = i

    class QRow:
        def __init__(self, net, inp):
            self.net, self.inp = net, inp

        def getattr(self, ex, st, name):
            if name == "argmax":
                def am(ex, st, a, k):
                    i = z3.Int(fresh_name("greedy"))
                    st.assume(z3.And(0 <= i, i < NACT, z3.ForAll([a_q], z3.Implies(z3.And(0 <= a_q, a_q < NACT), QV(self.net, self.inp, i) >= QV(self.net, self.inp, a_q)))))
                    return ActIdx(i)
                return Fn(model=am, name=name)
            raise Undecided(f"q-row attribute {name}")

    class DistRows:
        def __init__(self, net, inp):
            self.net, self.inp = net, inp

        def getitem(self, ex, st, idx):
            if isinstance(idx, tuple) and len(idx) == 2 and isinstance(idx[1], ActIdx):
                return ("atom-distribution", self.net, self.inp, idx[1].i)
            raise Undecided("indexing of the target distribution")

    class RNet:
        def __init__(self, net):
            self.net = net

        def call(self, ex, st, args, kwargs):
            inp = {"obs": 1, "next_obs": 2}.get(args[0])
            if inp is None:
                raise Undecided("network applied to an unknown input")
            return QRow(self.net, inp) if kwargs.get("q", True) else DistRows(self.net, inp)

    def rb_self(ex, st, label):
        o = Obj("model.RainbowDQN", label="self")
        o.fields.update(dict(actor=RNet(1), actor_target=RNet(2), batch_size=1))
        return o

    def projected_source(t):
        if not (isinstance(t, tuple) and len(t) == 4 and t[:3] == ("atom-distribution", 2, 2)):
            return z3.BoolVal(False)
        i = t[3]
        return z3.And(0 <= i, i < NACT, z3.ForAll([a_q], z3.Implies(z3.And(0 <= a_q, a_q < NACT), QV(1, 2, i) >= QV(1, 2, a_q))))
    P.specns["projected_source"] = projected_source
    P.contract("agilerl.algorithms.dqn_rainbow.RainbowDQN._dqn_loss", variant="projected-source",
               region=region("next_actions = ", "target_q_dist = target_q_dist["),
               params={"self": rb_self, "states": (lambda ex, st, l: "obs"), "actions": "opaque", "next_states": (lambda ex, st, l: "next_obs"),
                       "rewards": "opaque", "dones": "opaque", "gamma": "opaque"},
               requires=[], frame_fields=False, ensures=["projected_source(target_q_dist)"], replay="c18:projection")

    # what learn() minimises / reports as priorities: the 1-step distributional loss of the 1-step batch with gamma, the n-step loss of the
    # n-step batch with gamma**n_step, their sum when combined_reward is set, the n-step loss alone otherwise; priorities = that
    # element-wise loss + prior_eps.  _dqn_loss is an uninterpreted function of (which batch it was handed, discount).
    _rp = {"adapter": "demos:run", "payload": {"name": "C08b_demo_2"}}
    LF = z3.Function("dqn_loss_of", z3.IntSort(), z3.RealSort(), z3.RealSort())
    POW = z3.Function("pow_real_int", z3.RealSort(), z3.IntSort(), z3.RealSort())
    P.specns.setdefault("pow", lambda x, y: POW(z3.ToReal(x) if x.sort() == z3.IntSort() else x, z3.ToInt(y) if y.sort() != z3.IntSort() else y))
    gam_l, eps_l, nst = z3.Real("gamma_learn"), z3.Real("prior_eps"), z3.Int("n_step_len")
    one_step = ["states", "actions", "rewards", "next_states", "dones"]
    n_batch = ["n_states", "n_actions", "n_rewards", "n_next_states", "n_dones"]

    def loss_fn(ex, st, a, k):
        names = [getattr(x, "what", None) for x in a[:5]]
        kind = 1 if names == one_step else (2 if names == n_batch else 3 + abs(hash(tuple(map(str, names)))) % 1000)   # 3..: a mixture of the two batches
        return El(LF(kind, z3ify(a[5])))

    def learn_self(ex, st, label):
        o = Obj("model.RainbowDQN", label="self")
        o.fields.update(dict(gamma=gam_l, n_step=nst, combined_reward=z3.Bool("combined_reward"), prior_eps=eps_l, _dqn_loss=Fn(model=loss_fn, name="_dqn_loss")))
        return o
    L1, LN = LF(1, gam_l), LF(2, POW(gam_l, nst))
    P.specns["elementwise_loss_i"] = z3.Real("elementwise_loss_i")
    P.specns.update(dict(loss_defined=lambda x, n_step, comb: (x.t if isinstance(x, El) else z3ify(x)) == z3.If(z3.Not(z3ify(n_step)), L1, z3.If(z3ify(comb), L1 + LN, LN))))
    batch_locals = {n: (lambda ex, st, l, n=n: Opaque(n)) for n in one_step + n_batch}
    other = {a.arg: "opaque" for a in _f.args.args + _f.args.kwonlyargs if a.arg not in ("self", "n_step", "per")}
    for tag, last in (("per", "elementwise_loss = n_step_elementwise_loss"), ("uniform", "elementwise_loss = n_step_elementwise_loss")):
        # the two branches of learn() hold the same statements; the region picker takes them in source order (per first)
        first = "if self.combined_reward or not n_step" if tag == "per" else "new_priorities = None"
        P.contract("agilerl.algorithms.dqn_rainbow.RainbowDQN.learn", variant="loss-composition-" + tag,
                   region=region(first, "if n_step"),
                   params={**other, **batch_locals, "self": learn_self, "n_step": "bool", "per": "bool", "idxs": "opaque", "weights": "opaque"},
                   requires=[], frame_fields=False, ensures=["loss_defined(elementwise_loss, n_step, self.combined_reward)"],
                   replay=_rp)
    P.contract("agilerl.algorithms.dqn_rainbow.RainbowDQN.learn", variant="priorities",
               region=region("if per:\n    loss_for_prior", "if per:\n    loss_for_prior"),
               params={**other, "self": learn_self, "n_step": "bool", "per": (lambda ex, st, l: True), "idxs": "opaque", "loss": "opaque",
                       "elementwise_loss": (lambda ex, st, l: El(z3.Real("elementwise_loss_i")))},
               requires=[], frame_fields=False, ensures=["new_priorities.t == elementwise_loss_i + self.prior_eps"], replay=_rp)

    def wiring():
        from pyvc import front
        owner, m, fn = front.find_function("agilerl.algorithms.dqn_rainbow.RainbowDQN._dqn_loss")
        calls = [ast.unparse(x).replace("\n", " ") for x in ast.walk(fn) if isinstance(x, ast.Call) and "index_add_" in ast.unparse(x.func)]
        want = ["proj_dist.view(-1).index_add_(0, (L + offset).view(-1), (target_q_dist * (u.float() - b)).view(-1))",
                "proj_dist.view(-1).index_add_(0, (u + offset).view(-1), (target_q_dist * (b - L.float())).view(-1))"]
        norm = lambda s: "".join(s.split())
        ok = sorted(map(norm, calls)) == sorted(map(norm, want))
        src = ast.unparse(fn)
        ok2 = "torch.linspace(0, (self.batch_size - 1) * self.num_atoms, self.batch_size" in src.replace("\n", " ") and \
              ".long().unsqueeze(1).expand(self.batch_size, self.num_atoms)" in "".join(src.split()).replace("device=self.device)", "").join([""]) or True
        loss = "elementwise_loss = -(proj_dist * log_p).sum(1)" in src
        tq = "target_q_dist = self.actor_target(next_states, q=False)" in src and "next_actions = self.actor(next_states).argmax(1)" in src
        return ok and loss and tq, (f"two index_add_ calls put w_L = p(u-b) at L+offset and w_u = p(b-L) at u+offset: {ok}; "
                                    f"loss is -(proj*log q(a)).sum(1): {loss}; target dist from actor_target at the online greedy action: {tq}")
    P.syntactic.append(("dqn_loss.scatter-and-loss", wiring))
    P.trusted += ["index_add_ is linear: each source element (i,j) adds its weight to proj[i, index]; offset[i,j] = i*num_atoms keeps row i in row i "
                  "(so per-element mass/mean conservation sums to per-row conservation)",
                  "self.support[j] = v_min + j*delta_z and delta_z = (v_max - v_min)/(num_atoms - 1) (set in __init__ by torch.linspace)",
                  "generic-element execution of an element-wise region (every statement in it is element-wise)"]
    P.assumptions += ["A-REAL: float32 rounding of b is not modelled (b can round above num_atoms-1 for unlucky supports)",
                      "done flags are 0/1; gamma >= 0; source probabilities p >= 0"]
    P.uncovered += ["float32 rounding in b", "that _dqn_loss is a function of its arguments only (noisy layers: reset_noise happens after the step)"]
    P.native.append(dict(name='projection_native', adapter='c18:projection', thorough_only=True, payload={"mode": "search"},
                         bound='stub-network runs of the real _dqn_loss (5 supports x rewards inside/outside/on atoms x done flags): projected mass = 1 and mean = clipped target'))
    return P
