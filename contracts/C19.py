"""C19 — neural bandits keep the exact inverse of their regularised Gram matrix (DESIGN.md section 5, C19).

Division of labour:
  * pyvc executes the Sherman–Morrison region of NeuralUCB/NeuralTS.get_action on *matrix expression trees* (uninterpreted
    matrix algebra: @, .T, /, +, -) and proves that the value stored in self.sigma_inv is, node for node,
        S - (S·v·vᵀ·S) / (1 + vᵀ·S·v)      with  v = g[action] as a column  and S the previous sigma_inv,
    i.e. exactly the term of the Lean theorem `sm_inverse`; init_params is executed the same way: sigma_inv = I(numel)/lambda
    with numel = number of elements of the parameters of the output layer returned by actor.get_output_dense().
  * Lean 4 + Mathlib (lean/ShermanMorrison.lean, compiled by the check) proves the mathematics for every dimension over
    every field: that term is (M + v vᵀ)⁻¹ when S = M⁻¹ and the denominator is non-zero; (1/λ)I = (λI)⁻¹; over ℝ a
    positive definite M stays positive definite, the denominator is ≥ 1 and every bonus gᵀM⁻¹g is ≥ 0.
  * induction over the sequence of decisions (ghost M := λI + Σ g gᵀ) then gives the invariant; the hook wiring (init_params is
    registered as mutation hook, so mutation / clone / load re-establish the size) is an AST obligation.
"""
import ast
import os
import subprocess

import z3

from pyvc.main import Prop
from pyvc.values import Fn, Obj, Opaque, Undecided
from .C17 import region

HERE = os.path.dirname(os.path.dirname(os.path.abspath(__file__)))


class MX:
    """matrix-valued expression tree"""

    def __init__(self, node):
        self.node = node

    def binop(self, ex, st, op, other, swapped):
        o = other.node if isinstance(other, MX) else ("scalar", other)
        a, b = (o, self.node) if swapped else (self.node, o)
        name = {ast.MatMult: "mm", ast.Div: "div", ast.Add: "add", ast.Sub: "sub", ast.Mult: "mul"}.get(type(op))
        if name is None:
            raise Undecided("matrix op")
        return MX((name, a, b))

    def iop(self, ex, st, op, other):
        return self.binop(ex, st, op, other, False)

    def getattr(self, ex, st, name):
        if name == "T":
            return MX(("T", self.node))
        if name == "unsqueeze":
            return Fn(model=lambda ex, st, a, k: MX(("col", self.node)) if a[0] == -1 else MX(("unsq", self.node, a[0])), name=name)
        if name == "to":
            return Fn(model=lambda ex, st, a, k: self, name=name)
        raise Undecided(f"matrix attribute {name}")

    def getitem(self, ex, st, idx):
        return MX(("row", self.node, idx if isinstance(idx, str) else getattr(idx, "label", str(idx))))


def build(tier):
    P = Prop("C19")
    for cls, mod in (("NeuralUCB", "neural_ucb_bandit"), ("NeuralTS", "neural_ts_bandit")):
        qual = f"agilerl.algorithms.{mod}.{cls}"
        S, G = MX("S"), MX("g")

        def setup(ex, st, fr, S=S, G=G):
            st.locals["self"] = Obj("model.bandit", {"sigma_inv": S}, label="self")
            st.locals["g"] = G
            st.locals["action"] = "action"

        def sm_post(obj):
            v = ("col", ("row", "g", "action"))
            want = ("sub", "S", ("div", ("mm", ("mm", ("mm", "S", v), ("T", v)), "S"), ("add", ("scalar", 1), ("mm", ("mm", ("T", v), "S"), v))))
            got = obj.fields["sigma_inv"]
            return z3.BoolVal(isinstance(got, MX) and got.node == want)
        P.specns[f"sm_post_{cls}"] = sm_post
        P.contract(qual + ".get_action", variant="sherman-morrison", setup=setup,
                   region=region("v = g[action]", "self.sigma_inv -="), params={"obs": "opaque", "action_mask": "opaque"}, requires=[], frame_fields=False,
                   ensures=[f"sm_post_{cls}(self)"], replay="c19:gram")

        # init_params: sigma_inv = I(numel)/lambda with numel = sum of numel of the output layer's trainable parameters
        def init_setup(ex, st, fr):
            class Layer:
                def getattr(self, ex, st, name):
                    if name == "parameters":
                        return Fn(model=lambda ex, st, a, k: [Param("w"), Param("b")], name=name)
                    raise Undecided(name)

            class Param:
                def __init__(self, n):
                    self.n = n

                def getattr(self, ex, st, name):
                    if name == "numel":
                        return Fn(model=lambda ex, st, a, k: z3.Int("numel_" + self.n), name=name)
                    if name == "requires_grad":
                        return True
                    if name == "flatten":
                        return Fn(model=lambda ex, st, a, k: Opaque("flat"), name=name)
                    raise Undecided(name)
            actor = Obj("model.actor", {"get_output_dense": Fn(model=lambda ex, st, a, k: Layer(), name="get_output_dense")}, label="actor")
            st.locals["self"] = Obj("model.bandit", {"actor": actor, "lamb": z3.Real("lamb"), "device": "cpu"}, label="self")
        P.lib["torch.eye"] = lambda ex, st, a, k: MX(("eye", a[0]))
        class CatT:
            """flattened parameter vector: detach() keeps the values"""

            def getattr(self, ex, st, name):
                if name in ("detach", "clone"):
                    return Fn(model=lambda ex, st, a, k: self, name=name)
                raise Undecided(name)
        P.lib["torch.cat"] = lambda ex, st, a, k: CatT()

        def init_post(obj):
            got = obj.fields.get("sigma_inv")
            n = obj.fields.get("numel")
            ok = isinstance(got, MX) and got.node[0] == "div" and got.node[1][0] == "eye" and got.node[2] == ("scalar", z3.Real("lamb"))
            if not ok:
                return z3.BoolVal(False)
            dim = got.node[1][1]
            return z3.And(dim == z3.Int("numel_w") + z3.Int("numel_b"), n == dim)
        P.specns[f"init_post_{cls}"] = init_post
        P.contract(qual + ".init_params", setup=init_setup, params={}, requires=[], frame_fields=False,
                   ensures=[f"init_post_{cls}(self)"], replay="c19:gram")

    def lean():
        r = subprocess.run([os.path.join(HERE, "lean", "check_lean.sh")], capture_output=True, text=True, timeout=1500)
        thms = ["sherman_morrison_mul", "sm_inverse", "init_inverse", "posdef_update", "bonus_nonneg", "denominator_pos"]
        src = open(os.path.join(HERE, "lean", "ShermanMorrison.lean")).read()
        present = all(f"theorem {t}" in src for t in thms)
        return r.returncode == 0 and present, f"lean 4 + Mathlib: {(r.stdout or r.stderr).strip().splitlines()[-1] if (r.stdout or r.stderr).strip() else ''}; theorems {thms} present: {present}"
    P.syntactic.append(("lean.sherman-morrison-lemmas", lean))

    def wiring():
        from pyvc import front
        bad = []
        for cls, mod in (("NeuralUCB", "neural_ucb_bandit"), ("NeuralTS", "neural_ts_bandit")):
            owner, m, init = front.find_function(f"agilerl.algorithms.{mod}.{cls}.__init__")
            s = " ".join(ast.unparse(init).split())
            if "self.register_mutation_hook(self.init_params)" not in s or "self.init_params()" not in s:
                bad.append(f"{cls}.__init__ does not call/register init_params")
            owner, m, ga = front.find_function(f"agilerl.algorithms.{mod}.{cls}.get_action")
            g = " ".join(ast.unparse(ga).split())
            # gradient features: zero the grads BEFORE each backward, features are the grads of exp_layer
            loop = [x for x in ast.walk(ga) if isinstance(x, ast.For) and "enumerate(mu)" in ast.unparse(x.iter)]
            if not loop:
                bad.append(f"{cls}.get_action: per-arm gradient loop not found")
            else:
                body = [ast.unparse(b) for b in loop[0].body]
                zi = [i for i, b in enumerate(body) if b.startswith("self.optimizer.zero_grad()")]
                bi = [i for i, b in enumerate(body) if b.startswith("fx.backward(")]
                if not zi or not bi or min(zi) > min(bi):
                    bad.append(f"{cls}.get_action: gradients are not cleared before each arm's backward()")
                if not any(b.startswith("g[k] = torch.cat(") and "self.exp_layer.parameters()" in b for b in body):
                    bad.append(f"{cls}.get_action: g[k] is not built from the output layer's gradients")
        mut = front.find_function("agilerl.hpo.mutation.Mutations.mutation")[2]
        if "mutation_hook()" not in ast.unparse(mut) and "mutation_hook" not in ast.unparse(front.find_function("agilerl.hpo.mutation.Mutations.architecture_mutate")[2]):
            bad.append("Mutations does not run the mutation hooks")
        clone = ast.unparse(front.find_function("agilerl.algorithms.core.base.EvolvableAlgorithm.clone")[2])
        if "clone.mutation_hook()" not in clone:
            bad.append("clone() does not run the mutation hooks")
        return not bad, "hooks registered and run after mutation/clone; per-arm gradients cleared before backward" if not bad else "; ".join(bad)
    P.syntactic.append(("bandits.hooks-and-gradient-features", wiring))
    P.native.append(dict(name="gram", adapter="c19:gram", thorough_only=False, payload={"mode": "search"},
                         bound="NeuralUCB/NeuralTS, lambda in {1, 0.5, 2}, 30 decisions interleaved with learn steps, masks, a mutation and a clone; tolerance 1e-3"))
    P.trusted += ["Lean 4.33 kernel + Mathlib (lean/ShermanMorrison.lean compiled on every run, cached by source hash)",
                  "matrix expression-tree execution: @ .T / + - unsqueeze(-1) build the tree; g[action] is row `action` of the feature matrix",
                  "induction over the sequence of decisions from the proved init and step lemmas"]
    P.assumptions += ["exact real arithmetic (float32 drift of sigma_inv is explicitly outside, DESIGN 6)",
                      "g[k] is the gradient of arm k's output w.r.t. the output layer (autograd trusted)"]
    P.uncovered += ["numerical drift in float32", "checkpoint reload path (exp_layer after load) - native only"]
    return P
