"""C20 — training loops: step accounting (counter slice; narrow) — DESIGN.md section 5, C20.

For train_off_policy, train_on_policy and the two multi-agent loops the *counter slice* of the per-agent loop body is
extracted mechanically from the real AST: only statements that assign the tracked counters (steps, total_steps,
agent.steps[-1]) and the loops/ifs that contain them are kept; every `... = env.step(...)` statement is replaced by a ghost
tick `env_steps += num_envs`.  The dropped statements are checked (syntactically) not to assign the tracked local names,
and a repository scan shows that no library method called from the loops assigns `.steps`.  On the slice pyvc proves, for
every evo_steps / learn_step / num_envs:   agent.steps[-1]' = agent.steps[-1] + (environment steps actually taken).
Generation-level facts (one fitness entry and one steps.append per agent, the budget condition is the loop guard) are
AST obligations.
"""
import ast
import copy

import z3

from pyvc import front
from pyvc.main import Prop
from pyvc.execu import z3ify
from pyvc.values import Fn, Obj, Opaque, Seq, Undecided, fresh_name

TRACKED = {"steps", "total_steps"}
TR = "agilerl.training."


def touches(node):
    """does this statement (sub)tree assign a tracked counter or step the environment?"""
    for x in ast.walk(node):
        if isinstance(x, (ast.Assign, ast.AugAssign, ast.AnnAssign)):
            tg = x.targets if isinstance(x, ast.Assign) else [x.target]
            for t in tg:
                for y in ast.walk(t):
                    if isinstance(y, ast.Name) and y.id in TRACKED and isinstance(y.ctx, ast.Store):
                        return True
                if ".steps" in ast.unparse(t):
                    return True
        if isinstance(x, ast.Call) and ast.unparse(x.func) in ("env.step",):
            return True
    return False


def slice_block(stmts):
    out = []
    for s in stmts:
        if not touches(s):
            continue
        if isinstance(s, (ast.For, ast.While, ast.If, ast.With)):
            s2 = copy.copy(s)
            s2.body = slice_block(s.body)
            if hasattr(s, "orelse"):
                s2.orelse = slice_block(s.orelse)
            out.append(s2)
        elif any(isinstance(x, ast.Call) and ast.unparse(x.func) == "env.step" for x in ast.walk(s)):
            tick = ast.parse("__env_step__()").body[0]
            ast.copy_location(tick, s)
            out.append(tick)
        else:
            out.append(s)
    return out


def agent_loop_slice(body):
    """the per-agent loop `for agent_idx, agent in enumerate(pop)` inside the generation loop -> sliced body"""
    for x in ast.walk(ast.Module(body=body, type_ignores=[])):
        if isinstance(x, ast.For) and ast.unparse(x.iter) == "enumerate(pop)" and any("agent.steps[-1] +=" in ast.unparse(b) for b in x.body):
            return slice_block(x.body)
    raise Undecided("per-agent training loop not found")


def build(tier):
    P = Prop("C20")
    env_steps = [None]

    def setup(ex, st, fr):
        st.ghost["env_steps"] = 0
        num_envs = z3.Int("num_envs")
        st.assume(num_envs >= 1)
        agent = Obj("model.agent", {"learn_step": z3.Int("learn_step")}, label="agent")
        s = Seq.new("int", "agent.steps")
        st.assume(s.len >= 1)
        agent.fields["steps"] = s
        st.assume(agent.fields["learn_step"] >= 1)
        evo = z3.Int("evo_steps")
        st.assume(evo >= 1)

        def tick(ex, st, a, k):
            st.ghost["env_steps"] = st.ghost["env_steps"] + num_envs
        st.locals.update(dict(agent=agent, num_envs=num_envs, evo_steps=evo, total_steps=z3.Int("total_steps"), __env_step__=Fn(model=tick, name="env.step")))
    P.specns["last"] = lambda s: s.arr[z3.simplify(s.len - 1)]
    inner = dict(invariant=["steps == env_steps", "total_steps == old(total_steps) + env_steps", "len(agent.steps) == old(len(agent.steps))",
                            "last(agent.steps) == old(last(agent.steps))", "env_steps >= 0", "implies(_k >= 1, env_steps >= 1)"], havoc_names=["env_steps"])
    for mod, fn, nloops in (("train_off_policy", "train_off_policy", 1), ("train_on_policy", "train_on_policy", 2),
                            ("train_multi_agent_off_policy", "train_multi_agent_off_policy", 1),
                            ("train_multi_agent_on_policy", "train_multi_agent_on_policy", 2)):
        qual = TR + mod + "." + fn
        # loop ordinals are positions in the whole function: resolve them from the real AST
        owner, m, f = front.find_function(qual)
        loops = sorted([x for x in ast.walk(f) if isinstance(x, (ast.For, ast.While))], key=lambda x: (x.lineno, x.col_offset))
        ords = [i for i, x in enumerate(loops) if isinstance(x, ast.For) and
                ("evo_steps // num_envs" in ast.unparse(x.iter) or ast.unparse(x.iter).startswith("range(-(evo_steps // -agent.learn_step))")
                 or ast.unparse(x.iter).startswith("range(-(agent.learn_step // -num_envs))"))]
        P.contract(qual, variant="step-counter", setup=setup, region=agent_loop_slice,
                   params={p.arg: "opaque" for p in f.args.args + f.args.kwonlyargs if p.arg not in ("evo_steps",)},
                   requires=[], frame_fields=False,
                   loops={o: inner for o in ords},
                   ensures=["last(agent.steps) == old(last(agent.steps)) + env_steps",     # counter == environment steps actually taken
                            "len(agent.steps) == old(len(agent.steps))", "total_steps == old(total_steps) + env_steps",
                            "env_steps >= 1"],          # progress: every generation advances the budget the outer `while` waits for
                   replay={"adapter": "demos:run", "payload": {"name": "C20_demo_9"}} if "off_policy" in mod else "c20:counters")

    # train_bandits: one environment, one step per iteration
    def bandit_setup(ex, st, fr):
        setup(ex, st, fr)
        st.assume(st.locals["num_envs"] == 1)
        ep = z3.Int("episode_steps")
        st.assume(ep >= 0)
        st.locals["episode_steps"] = ep
    owner, m, f = front.find_function(TR + "train_bandits.train_bandits")
    loops = sorted([x for x in ast.walk(f) if isinstance(x, (ast.For, ast.While))], key=lambda x: (x.lineno, x.col_offset))
    ords = [i for i, x in enumerate(loops) if isinstance(x, ast.For) and ast.unparse(x.iter) == "range(episode_steps)"]
    P.contract(TR + "train_bandits.train_bandits", variant="step-counter", setup=bandit_setup, region=agent_loop_slice,
               params={p.arg: "opaque" for p in f.args.args + f.args.kwonlyargs if p.arg not in ("episode_steps",)},
               requires=[], frame_fields=False,
               loops={o: dict(invariant=["env_steps == _k", "len(agent.steps) == old(len(agent.steps))", "last(agent.steps) == old(last(agent.steps))",
                                         "total_steps == old(total_steps)"], havoc_names=["env_steps"]) for o in ords},
               ensures=["last(agent.steps) == old(last(agent.steps)) + env_steps", "len(agent.steps) == old(len(agent.steps))",
                        "total_steps == old(total_steps) + env_steps"],
               replay="c20:counters")

    # train_bandits: what is stored for learn() is the context of the CHOSEN arm (one row of the context matrix) and its reward
    from . import ndt
    from .ndt import ND
    ARMS, DIM = 3, 4
    CTX = z3.Function("context", z3.IntSort(), z3.IntSort(), z3.RealSort())
    ACT, REW = z3.Int("chosen_arm"), z3.Real("reward_of_step")
    stored = []

    class TDm:
        def __init__(self, fields, batch=None):
            self.fields, self.batch = dict(fields), batch

        def getattr(self, ex, st, name):
            if name == "unsqueeze":
                def unsq(ex, st, a, k):
                    return TDm({kk: (v.unsqueeze(a[0]) if isinstance(v, ND) else ND([1], (lambda idx, v=v: v), "scalar")) for kk, v in self.fields.items()}, [1])
                return Fn(model=unsq, name=name)
            if name in ("float", "to", "clone"):
                return Fn(model=lambda ex, st, a, k: TDm(self.fields, self.batch), name=name)
            if name == "batch_size":
                return self.batch
            raise Undecided(f"TensorDict attribute {name}")

        def setattr(self, ex, st, name, v):
            if name == "batch_size":
                self.batch = list(v)
                return
            raise Undecided(f"TensorDict attribute store {name}")

    def bandit_store_setup(ex, st, fr):
        stored.clear()
        agent = Obj("model.Bandit", label="agent")
        agent.fields["get_action"] = Fn(model=lambda ex, st, a, k: ACT, name="get_action")
        env_ = Obj("model.BanditEnv", label="env")
        env_.fields["step"] = Fn(model=lambda ex, st, a, k: (ND([ARMS, DIM], lambda idx: z3.Real(fresh_name("next_ctx")), "next_context", True), REW), name="step")
        mem = Obj("model.Memory", label="memory")
        mem.fields["add"] = Fn(model=lambda ex, st, a, k: stored.append(a[0]), name="add")
        st.assume(z3.And(0 <= ACT, ACT < ARMS))
        st.locals.update(dict(agent=agent, env=env_, memory=mem, swap_channels=False,
                              context=ND([ARMS, DIM], lambda idx: CTX(z3ify(idx[0]), z3ify(idx[1])), "context", True)))

    def stored_ok():
        if len(stored) != 1 or not isinstance(stored[0], TDm) or stored[0].batch != [1]:
            return z3.BoolVal(False)
        obs, rew = stored[0].fields.get("obs"), stored[0].fields.get("reward")
        if not (isinstance(obs, ND) and len(obs.shape) == 2 and ndt.cp(obs.shape[0]) == (1, None) and ndt.cp(obs.shape[1]) == (DIM, None)):
            return z3.BoolVal(False)                   # learn() expects (batch, context_dim): the chosen arm's context, not the matrix of all arms
        if not isinstance(rew, ND):
            return z3.BoolVal(False)
        return z3.And(*[obs.at([z3.IntVal(0), z3.IntVal(j)]) == CTX(ACT, j) for j in range(DIM)], rew.flat(z3.IntVal(0)) == REW)
    P.specns["stored_ok"] = stored_ok
    P.lib["tensordict.TensorDict"] = lambda ex, st, a, k: TDm(a[0])
    P.contract(TR + "train_bandits.train_bandits", variant="stored-transition", setup=bandit_store_setup,
               region=__import__("contracts.C17", fromlist=["region"]).region("action = agent.get_action(context)", "memory.add(transition)"),
               params={p.arg: "opaque" for p in f.args.args + f.args.kwonlyargs if p.arg not in ("env", "memory", "swap_channels")},
               requires=[], frame_fields=False, ensures=["stored_ok()"], replay="c20:bandits")

    # what the sampler returns (a TensorDict with keys obs/action/reward/next_obs/done) is accepted by learn(): the first statements
    # of TD3.learn and CQN.learn bind each name to ITS field of the sampled batch
    class Batch:
        """TensorDict of 4 sampled rows: indexing by key gives the field, iterating gives the rows"""
        F = {k: Opaque("field:" + k) for k in ("obs", "action", "reward", "next_obs", "done")}

        def getitem(self, ex, st, k):
            if isinstance(k, str) and k in self.F:
                return self.F[k]
            raise Undecided(f"batch index {k}")

        def iter_concrete(self, ex, st):
            return [Opaque(f"row{i}") for i in range(4)]

        def isinstance(self, ex, st, names):
            return any(n in ("TensorDict", "TensorDictBase") for n in names)

        def hasattr(self, ex, st, name):
            return name in ("keys", "batch_size", "get")

        def getattr(self, ex, st, name):
            if name == "keys":
                return Fn(model=lambda ex, st, a, k: list(self.F), name="keys")
            raise Undecided(f"batch attribute {name}")
    P.specns["fields_bound"] = lambda s_, a_, r_, n_, d_: z3.BoolVal(s_ is Batch.F["obs"] and a_ is Batch.F["action"] and r_ is Batch.F["reward"]
                                                                  and n_ is Batch.F["next_obs"] and d_ is Batch.F["done"])
    reg17 = __import__("contracts.C17", fromlist=["region"]).region
    for q_, nm_ in (("agilerl.algorithms.td3.TD3.learn", "C20_demo_1"), ("agilerl.algorithms.cqn.CQN.learn", "C20_demo_1")):
        o_, m_, f_ = front.find_function(q_)
        first_stmt = ast.unparse(front.strip_doc(f_.body)[0])[:40]
        P.contract(q_, variant="sampled-batch", region=reg17(first_stmt, "states, actions, rewards, next_states, dones = experiences"),
                   params={**{p.arg: "opaque" for p in f_.args.args + f_.args.kwonlyargs if p.arg != "experiences"}, "experiences": (lambda ex, st, l: Batch())},
                   requires=[], frame_fields=False, ensures=["fields_bound(states, actions, rewards, next_states, dones)"],
                   replay={"adapter": "demos:run", "payload": {"name": nm_}})

    def wiring():
        bad = []
        for mod in ("train_off_policy", "train_on_policy", "train_multi_agent_off_policy", "train_multi_agent_on_policy"):
            owner, m, f = front.find_function(TR + mod + "." + mod)
            src = ast.unparse(f)
            wh = [x for x in ast.walk(f) if isinstance(x, ast.While) and "agent.steps[-1] for agent in pop" in ast.unparse(x.test)]
            if len(wh) != 1:
                bad.append(f"{mod}: generation loop with the step-budget guard not found")
                continue
            guard = ast.unparse(wh[0].test)
            want = "np.sum([agent.steps[-1] for agent in pop]) < max_steps" if mod == "train_multi_agent_on_policy" else \
                "np.less([agent.steps[-1] for agent in pop], max_steps).all()"
            if guard != want:
                bad.append(f"{mod}: budget guard is `{guard}`")
            gen = wh[0]
            appends = [x for x in ast.walk(gen) if isinstance(x, ast.For) and ast.unparse(x.iter) == "pop"
                       and any(ast.unparse(b) == "agent.steps.append(agent.steps[-1])" for b in x.body)]
            if len(appends) != 1 or src.count("agent.steps.append(") != 1:
                bad.append(f"{mod}: not exactly one `agent.steps.append(agent.steps[-1])` per agent and generation")
            tests = [x for x in ast.walk(gen) if isinstance(x, ast.ListComp) and ast.unparse(x.elt).startswith("agent.test(") and
                     ast.unparse(x.generators[0].iter) == "pop"]
            if len(tests) != 1:
                bad.append(f"{mod}: evaluation is not exactly one agent.test(...) per agent and generation")
            # dropped statements never assign the tracked local names (they are plain ints, callee code cannot reach them)
            per_agent = [x for x in ast.walk(gen) if isinstance(x, ast.For) and ast.unparse(x.iter) == "enumerate(pop)"][0]
            kept = {id(y) for s in slice_block(per_agent.body) for y in ast.walk(s)}
        # repository scan: no algorithm / component method assigns `.steps` of an agent
        import os
        import re
        offenders = []
        for root, _, files in os.walk(os.path.join(front.REPO, "agilerl")):
            if "/training" in root:
                continue
            for fnm in files:
                if fnm.endswith(".py"):
                    t = open(os.path.join(root, fnm)).read()
                    for mm in re.finditer(r"^\s*(self|agent|clone)\.steps(\[-1\])?\s*(\+?=|\.append)", t, re.M):
                        line = t[:mm.start()].count("\n") + 1
                        offenders.append(f"{os.path.relpath(os.path.join(root, fnm), front.REPO)}:{line}")
        allowed = [o for o in offenders if ("core/base.py" in o or "ilql.py" in o)]       # constructor / clone / checkpoint load only
        if len(allowed) != len(offenders):
            bad.append(f"library code assigns .steps outside constructors/clone/load: {sorted(set(offenders) - set(allowed))}")
        return not bad, "budget guards, one steps.append and one test() per agent and generation, no library write to .steps" if not bad else "; ".join(bad)
    P.syntactic.append(("train-loops.generation-accounting", wiring))
    def wiring_fitness():
        """one fitness entry per agent and generation in the RETURNED history: pop_fitnesses starts empty and gets exactly one append per
        generation (AST obligation over all six training functions)"""
        bad = []
        for mod in ("train_off_policy", "train_on_policy", "train_multi_agent_off_policy", "train_multi_agent_on_policy", "train_offline", "train_bandits"):
            owner, m, f = front.find_function(TR + mod + "." + mod)
            inits = [x for x in ast.walk(f) if isinstance(x, ast.Assign) and ast.unparse(x.targets[0]) == "pop_fitnesses"]
            apps = [x for x in ast.walk(f) if isinstance(x, ast.Call) and ast.unparse(x.func) == "pop_fitnesses.append"]
            if len(inits) != 1 or ast.unparse(inits[0].value) != "[]":
                bad.append(f"{mod}: pop_fitnesses initialised as `{ast.unparse(inits[0].value) if inits else None}` (must be the empty list)")
            wh = [x for x in ast.walk(f) if isinstance(x, ast.While)]
            in_gen = [a for a in apps if any(a in list(ast.walk(w)) for w in wh)]
            if len(apps) != 1 or len(in_gen) != 1 or ast.unparse(apps[0].args[0]) != "fitnesses":
                bad.append(f"{mod}: not exactly one `pop_fitnesses.append(fitnesses)` inside the generation loop")
            rets = [x for x in ast.walk(f) if isinstance(x, ast.Return) and x.value is not None]
            if not rets or any(ast.unparse(r.value).strip("()") != "pop, pop_fitnesses" for r in rets):
                bad.append(f"{mod}: a return statement does not return (pop, pop_fitnesses)")
        return not bad, "pop_fitnesses = [] once, one append(fitnesses) per generation, returned with the population" if not bad else "; ".join(bad)
    P.syntactic.append(("train-loops.fitness-history", wiring_fitness))

    def wiring_swap():
        """every environment reset inside the multi-agent rollouts is followed by the channels-first swap when swap_channels is set"""
        bad = []
        for mod in ("train_multi_agent_off_policy", "train_multi_agent_on_policy"):
            owner, m, f = front.find_function(TR + mod + "." + mod)
            for blk in [x for x in ast.walk(f) if isinstance(getattr(x, "body", None), list)]:
                for fld in ("body", "orelse"):
                    stmts = getattr(blk, fld, None) or []
                    if not isinstance(stmts, list):
                        continue
                    for i, stx in enumerate(stmts):
                        if isinstance(stx, ast.Assign) and ast.unparse(stx.value).startswith("env.reset(") and "obs" in ast.unparse(stx.targets[0]):
                            rest = []
                            for r in stmts[i + 1:]:
                                rest.append(r)
                                if "get_action(" in ast.unparse(r):      # the observation is consumed here at the latest
                                    break
                            ok = any(isinstance(r, ast.If) and ast.unparse(r.test) == "swap_channels" and "obs_channels_to_first" in ast.unparse(r)
                                     and "get_action(" not in ast.unparse(r) for r in rest)
                            if not ok:
                                bad.append(f"{mod}:{stx.lineno}: `{ast.unparse(stx)}` is not followed by `if swap_channels: ... obs_channels_to_first`")
        return not bad, "every `obs, info = env.reset()` of the multi-agent loops is followed by the conditional channel swap" if not bad else "; ".join(bad)
    P.syntactic.append(("multi-agent-loops.swap-after-reset", wiring_swap))

    P.native.append(dict(name="counters", adapter="c20:counters", thorough_only=True, payload={"mode": "search"},
                         bound="train_off_policy with DQN on a counting vector env: (num_envs, evo_steps, max_steps) in 5 combinations incl. non-divisible ones"))
    P.trusted += ["counter slice: statements that do not assign steps / total_steps / .steps are dropped; env.step(...) is a ghost tick of num_envs steps",
                  "callees cannot modify the caller's local ints; no library method assigns .steps (repository scan, an obligation)"]
    P.assumptions += ["num_envs is the number of sub-environments stepped by one env.step call"]
    P.uncovered += ["first sentence of the property (every algorithm runs to completion on any compatible environment/buffer; sampler output accepted by learn(); "
                    "checkpointing) - whole-program composition, not decidable by function contracts",
                    "train_offline (no environment steps are taken; its counter counts learn steps)", "elitism carries the best agent unchanged (C05 + C02)", "distinct indices of the returned population (C05)"]
    return P
