"""Trusted library contracts (models of torch / numpy / stdlib calls) — DESIGN.md 2.5.

Each model is a small Python function `model(ex, st, args, kwargs) -> value` operating on the executor's value
domain.  They are *assumptions*: every module that uses one lists it in its evidence `trusted_base`.
"""
import z3

from pyvc.execu import to_bool, z3ify
from pyvc.values import Fn, ModRef, Obj, Opaque, Opt, Seq, Undecided, fresh_name, is_sym

TRUSTED = {}


def lib(name, doc):
    def deco(f):
        f.doc = doc
        TRUSTED[name] = f
        return f
    return deco


@lib("operator.add", "operator.add(a, b) == a + b")
def operator_add(ex, st, args, kwargs):
    return args[0] + args[1]


@lib("torch.zeros", "torch.zeros(n, dtype=...) is a length-n 1-D tensor of zeros (int64 dtype -> integers)")
def torch_zeros(ex, st, args, kwargs):
    n = args[0]
    dt = kwargs.get("dtype")
    elem = "int" if isinstance(dt, ModRef) and dt.dotted.endswith("int64") else "real"
    s = Seq.new(elem, "zeros", n)
    k = z3.Int(fresh_name("k"))
    st.assume(z3.ForAll([k], s.arr[k] == (0 if elem == "int" else z3.RealVal(0))))
    return s


@lib("torch.rand", "torch.rand(1).item() is some float u with 0 <= u < 1 (every draw is covered)")
def torch_rand(ex, st, args, kwargs):
    u = z3.Real(fresh_name("rand"))
    st.assume(u >= 0)
    st.assume(u < 1)
    return u


@lib("numpy.random.uniform", "np.random.uniform(lo, hi) in [lo, hi)")
def np_uniform(ex, st, args, kwargs):
    lo, hi = (list(args) + [0, 1])[:2] if args else (0, 1)
    u = z3.Real(fresh_name("unif"))
    st.assume(u >= z3ify(lo))
    st.assume(u < z3ify(hi))
    return u


def pow_axioms(powf):
    x, y, e = z3.Reals("x!pw y!pw e!pw")
    return [
        z3.ForAll([x, e], z3.Implies(x > 0, powf(x, e) > 0), patterns=[powf(x, e)]),
        # monotone in the base for a non-negative exponent, antitone for a non-positive one
        z3.ForAll([x, y, e], z3.Implies(z3.And(0 < x, x <= y, e >= 0), powf(x, e) <= powf(y, e)),
                  patterns=[z3.MultiPattern(powf(x, e), powf(y, e))]),
        z3.ForAll([x, y, e], z3.Implies(z3.And(0 < x, x <= y, e <= 0), powf(x, e) >= powf(y, e)),
                  patterns=[z3.MultiPattern(powf(x, e), powf(y, e))]),
    ]


def install(P, names):
    for n in names:
        P.lib[n] = TRUSTED[n]
        P.trusted.append(f"library contract {n}: {TRUSTED[n].doc}")
