"""Exact N-d tensor model (trusted library contract for torch / numpy shape operations).

A tensor is (shape, at): `shape` a list of dimensions (python ints or z3 Int terms, at most ONE symbolic factor, e.g.
[T, 2, 3] or [2*T, 3]); `at(idx)` a python closure mapping a list of index terms to the z3 term of that element.
Every operation is the row-major (C-contiguous) semantics of torch/numpy, written so that all index arithmetic stays
LINEAR: strides that contain the symbolic factor only ever multiply indices of a concrete dimension, and such products
are expanded into If-chains.  Modelled: stack, cat(dim=0), reshape/view (with -1), transpose, squeeze, unsqueeze /
expand_dims(0), element-wise + - * / with scalars and same-shape tensors, x[i], x[i] = row, size/shape/ndim,
zeros_like, dtype/device no-ops (long, float, cpu, to, detach, clone).  Elements are reals (A-REAL).
"""
import ast

import z3

from pyvc.execu import z3ify
from pyvc.values import Fn, PyRaise, Undecided, fresh_name

I, Re = z3.IntSort(), z3.RealSort()


def cp(d):
    """d == c * base  (base None for a concrete dimension)"""
    if isinstance(d, bool):
        raise Undecided("bool dimension")
    if isinstance(d, int):
        return d, None
    s = z3.simplify(z3ify(d))
    if z3.is_int_value(s):
        return s.as_long(), None
    if z3.is_const(s) and s.decl().kind() == z3.Z3_OP_UNINTERPRETED:
        return 1, s
    if z3.is_mul(s) and s.num_args() == 2:
        a, b = s.children()
        if z3.is_int_value(a) and z3.is_const(b) and b.decl().kind() == z3.Z3_OP_UNINTERPRETED:
            return a.as_long(), b
    raise Undecided(f"dimension {s} is not c or c*T")


def mk(c, base):
    return c if base is None else (base if c == 1 else c * base)


def prod(dims):
    c, base = 1, None
    for d in dims:
        c2, b2 = cp(d)
        c *= c2
        if b2 is not None:
            if base is not None:
                raise Undecided("two symbolic dimensions")
            base = b2
    return c, base


def same_dim(a, b):
    ca, ba = cp(a)
    cb, bb = cp(b)
    return ca == cb and ((ba is None and bb is None) or (ba is not None and bb is not None and ba.eq(bb)))


def times(idx, dimsize, stride):
    """idx * stride, linear: stride = (c, base)"""
    sc, sb = stride
    if sb is None:
        return idx * sc
    S = mk(sc, sb)
    if isinstance(idx, int):
        return idx * S
    s = z3.simplify(z3ify(idx))
    if z3.is_int_value(s):
        return s.as_long() * S
    dc, db = cp(dimsize)
    if db is not None:
        raise Undecided("symbolic index times symbolic stride")
    out = z3.IntVal(0)
    for j in range(dc - 1, 0, -1):
        out = z3.If(s == j, j * S, out)
    return out


def ravel(idx, shape):
    flat = z3.IntVal(0)
    for i, x in enumerate(idx):
        flat = flat + times(x, shape[i], prod(shape[i + 1:]))
    return z3.simplify(flat)


def unravel(flat, shape):
    idx, rem = [], z3ify(flat)
    for i, d in enumerate(shape):
        if i == len(shape) - 1:
            idx.append(rem)
            break
        sc, sb = prod(shape[i + 1:])
        if sb is None:
            if sc == 1:
                idx.append(rem)
                rem = z3.IntVal(0)
            else:
                idx.append(rem / sc)
                rem = rem % sc
        else:
            dc, db = cp(d)
            if db is not None:
                raise Undecided("two symbolic dimensions")
            S = mk(sc, sb)
            a, sub = z3.IntVal(dc - 1), (dc - 1) * S
            for j in range(dc - 2, -1, -1):
                a = z3.If(rem < (j + 1) * S, z3.IntVal(j), a)
                sub = z3.If(rem < (j + 1) * S, j * S, sub)
            idx.append(a)
            rem = rem - sub
    return idx


def reshape_at(old, new, at):
    """element map of a row-major reshape; equal leading dimensions pass through unchanged"""
    if old and new and same_dim(old[0], new[0]) and _same_cp(prod(old[1:]), prod(new[1:])):
        return lambda idx: reshape_at(old[1:], new[1:], lambda r: at([idx[0]] + list(r)))(idx[1:])
    if not old and not new:
        return lambda idx: at([])
    return lambda idx: at(unravel(ravel(idx, new), old) if old else [])


def _same_cp(a, b):
    return a[0] == b[0] and ((a[1] is None and b[1] is None) or (a[1] is not None and b[1] is not None and a[1].eq(b[1])))


class ND:
    def __init__(self, shape, at, label="nd", is_np=False):
        self.shape, self.at, self.label, self.is_np = list(shape), at, label, is_np

    # ---- construction helpers
    @staticmethod
    def of_fn(shape, f, label="nd", is_np=False):
        """elements f(*idx) of a z3 function / python callable"""
        return ND(shape, lambda idx: f(*[z3ify(i) for i in idx]), label, is_np)

    def with_(self, shape=None, at=None):
        return ND(self.shape if shape is None else shape, self.at if at is None else at, self.label, self.is_np)

    def numel(self):
        return mk(*prod(self.shape))

    def flat(self, k):
        return self.at(unravel(k, self.shape)) if self.shape else self.at([])

    # ---- executor protocol
    def isinstance(self, ex, st, names):
        return ("ndarray" in names) if self.is_np else ("Tensor" in names)

    def length(self, ex, st):
        if not self.shape:
            raise PyRaise("TypeError")
        return self.shape[0]

    def getattr(self, ex, st, name):
        if name in ("cpu", "float", "long", "detach", "clone", "to", "double", "contiguous", "int", "bool", "astype"):
            return Fn(model=lambda ex, st, a, k: self.with_(), name=name)
        if name == "numpy":
            return Fn(model=lambda ex, st, a, k: ND(self.shape, self.at, self.label, True), name=name)
        if name == "shape":
            return tuple(self.shape)
        if name in ("ndim",):
            return len(self.shape)
        if name == "dim":
            return Fn(model=lambda ex, st, a, k: len(self.shape), name=name)
        if name == "size":
            def size(ex, st, a, k):
                if not a:
                    return tuple(self.shape)
                i = a[0]
                if not isinstance(i, int) or not (-len(self.shape) <= i < len(self.shape)):
                    raise PyRaise("IndexError")
                return self.shape[i]
            return Fn(model=size, name=name)
        if name in ("reshape", "view"):
            def reshape(ex, st, a, k):
                dims = list(a[0]) if (len(a) == 1 and isinstance(a[0], (tuple, list))) else list(a)
                return self.reshape(ex, st, dims)
            return Fn(model=reshape, name=name)
        if name in ("transpose", "swapaxes"):
            def tr(ex, st, a, k):
                i, j = a
                n = len(self.shape)
                if not (isinstance(i, int) and isinstance(j, int) and -n <= i < n and -n <= j < n):
                    raise PyRaise("IndexError")
                i, j = i % n, j % n
                sh = list(self.shape)
                sh[i], sh[j] = sh[j], sh[i]

                def at(idx, i=i, j=j):
                    idx = list(idx)
                    idx[i], idx[j] = idx[j], idx[i]
                    return self.at(idx)
                return self.with_(sh, at)
            return Fn(model=tr, name=name)
        if name == "squeeze":
            return Fn(model=lambda ex, st, a, k: self.squeeze(ex, st, a[0] if a else k.get("dim")), name=name)
        if name == "unsqueeze":
            return Fn(model=lambda ex, st, a, k: self.unsqueeze(a[0]), name=name)
        if name == "sum":
            return Fn(model=lambda ex, st, a, k: self.sum(k.get("dim", a[0] if a else None)), name=name)
        if name in ("min", "max") :
            def ext(ex, st, a, k, name=name):
                from .tensors import toreal
                es = [toreal(e) for e in self.elements()]
                r = es[0]
                for e in es[1:]:
                    r = z3.If(e < r, e, r) if name == "min" else z3.If(e > r, e, r)
                return r
            return Fn(model=ext, name=name)
        if name in ("device", "dtype"):
            from pyvc.values import Opaque
            return Opaque(name)
        raise Undecided(f"tensor attribute {name}")

    def sum(self, d):
        """sum over one concrete dimension (expanded)"""
        n = len(self.shape)
        if d is None or not isinstance(d, int) or not (-n <= d < n):
            raise Undecided("sum over all / unknown dimensions")
        d %= n
        c, b = cp(self.shape[d])
        if b is not None:
            raise Undecided("sum over a symbolic dimension")
        from .tensors import toreal

        def at(idx):
            tot = z3.RealVal(0)
            for j in range(c):
                tot = tot + toreal(self.at(list(idx[:d]) + [z3.IntVal(j)] + list(idx[d:])))
            return tot
        return self.with_(self.shape[:d] + self.shape[d + 1:], at)

    def unsqueeze(self, d):
        n = len(self.shape) + 1
        if not isinstance(d, int) or not (-n <= d < n):
            raise PyRaise("IndexError")
        d %= n
        return self.with_(self.shape[:d] + [1] + self.shape[d:], lambda idx: self.at(list(idx[:d]) + list(idx[d + 1:])))

    def is_one(self, ex, st, d):
        """True / False: is this dimension 1 on the current path (branches when both are possible)"""
        c, b = cp(d)
        if b is None:
            return c == 1
        if c != 1:
            return False          # c*T with c >= 2 and T >= 1 is never 1
        one = z3ify(d) == 1
        if not ex.feasible(st, z3.Not(one)):
            return True
        if not ex.feasible(st, one):
            return False
        return ex.decide(st, one)

    def squeeze(self, ex, st, dim=None):
        n = len(self.shape)
        if dim is not None:
            if not isinstance(dim, int) or not (-max(n, 1) <= dim < max(n, 1)):
                raise PyRaise("IndexError")
            if n == 0:
                return self.with_()
            dims = [dim % n]
        else:
            dims = list(range(n))
        drop = [i for i in dims if self.is_one(ex, st, self.shape[i])]
        keep = [i for i in range(n) if i not in drop]

        def at(idx):
            full = [z3.IntVal(0)] * n
            for p, i in enumerate(keep):
                full[i] = idx[p]
            return self.at(full)
        return self.with_([self.shape[i] for i in keep], at)

    def reshape(self, ex, st, dims):
        def norm(d):
            # a symbolic dimension that the path condition pins to 1 (after a squeeze branch) is the concrete 1
            if isinstance(d, int):
                return d
            c, b = cp(d)
            if b is not None and not ex.feasible(st, b != 1):
                return c
            return d
        dims = [norm(d) for d in dims]
        if any(not isinstance(d, int) for d in self.shape) and any(norm(d) is not d for d in self.shape):
            return self.with_([norm(d) for d in self.shape]).reshape(ex, st, dims)
        total = prod(self.shape)
        known = [d for d in dims if not (isinstance(d, int) and d == -1)]
        if len(known) < len(dims) - 1:
            raise PyRaise("RuntimeError")
        kc, kb = prod(known)
        if len(known) < len(dims):
            # infer the -1 dimension
            tc, tb = total
            if kb is not None and (tb is None or not kb.eq(tb)):
                raise Undecided("reshape: cannot infer -1 against a different symbolic dimension")
            if kc == 0 or tc % kc != 0:
                # divisibility can depend on the symbolic factor: not decided here
                if tb is not None and kb is None:
                    raise Undecided("reshape: -1 with a total that is divisible only for some T")
                raise PyRaise("RuntimeError")
            inferred = mk(tc // kc, tb if kb is None else None)
            dims = [inferred if (isinstance(d, int) and d == -1) else d for d in dims]
        else:
            if not _same_cp((kc, kb), total):
                # totals that differ syntactically may still be equal on this path (e.g. T == 1)
                if ex.feasible(st, z3ify(mk(kc, kb)) != z3ify(mk(*total))):
                    raise Undecided(f"reshape of {self.shape} to {dims}: element counts may differ")
        return self.with_(list(dims), reshape_at(list(self.shape), list(dims), self.at))

    def binop(self, ex, st, op, other, swapped):
        from .tensors import arith, toreal
        if isinstance(other, ND):
            a, b = (other, self) if swapped else (self, other)
            # numpy/torch broadcasting: align trailing dimensions; equal dimensions pair up, a dimension of 1 repeats
            n = max(len(a.shape), len(b.shape))
            sa, sb = [1] * (n - len(a.shape)) + list(a.shape), [1] * (n - len(b.shape)) + list(b.shape)
            shape, ma, mb = [], [], []
            for x, y in zip(sa, sb):
                if same_dim(x, y) or not ex.feasible(st, z3ify(x) != z3ify(y)):
                    shape.append(x), ma.append(True), mb.append(True)
                elif cp(x) == (1, None):
                    shape.append(y), ma.append(False), mb.append(True)
                elif cp(y) == (1, None):
                    shape.append(x), ma.append(True), mb.append(False)
                else:
                    raise Undecided(f"broadcasting {a.shape} with {b.shape}")

            def pick(t, m, idx):
                full = [idx[i] if m[i] else z3.IntVal(0) for i in range(n)]
                return t.at(full[n - len(t.shape):])
            return self.with_(shape, lambda idx: arith(op, toreal(pick(a, ma, idx)), toreal(pick(b, mb, idx))))
        if hasattr(other, "getattr") or isinstance(other, (list, tuple, dict, str)) or other is None:
            raise Undecided(f"tensor op with {type(other).__name__}")
        y = toreal(other)
        if swapped:
            return self.with_(at=lambda idx: arith(op, y, toreal(self.at(idx))))
        return self.with_(at=lambda idx: arith(op, toreal(self.at(idx)), y))

    def iop(self, ex, st, op, other):
        return self.binop(ex, st, op, other, False)

    def compare(self, ex, st, op, other, swapped):
        """element-wise comparison with a scalar or a same-shape tensor: a tensor of z3 Booleans"""
        from .tensors import toreal
        ops = {ast.Eq: lambda a, b: a == b, ast.NotEq: lambda a, b: a != b, ast.Lt: lambda a, b: a < b, ast.LtE: lambda a, b: a <= b,
               ast.Gt: lambda a, b: a > b, ast.GtE: lambda a, b: a >= b}
        f = ops.get(type(op))
        if f is None:
            raise Undecided("tensor comparison operator")
        if isinstance(other, ND):
            if not (len(other.shape) == len(self.shape) and all(same_dim(p, q) for p, q in zip(other.shape, self.shape))):
                raise Undecided("comparison of tensors of different shapes")
            g = lambda idx: (toreal(other.at(idx)), toreal(self.at(idx))) if swapped else (toreal(self.at(idx)), toreal(other.at(idx)))
        else:
            o = toreal(other)
            g = lambda idx: (o, toreal(self.at(idx))) if swapped else (toreal(self.at(idx)), o)
        return self.with_(at=lambda idx: f(*g(idx)))

    def elements(self):
        """all elements of a tensor whose dimensions are concrete"""
        import itertools
        dims = []
        for d in self.shape:
            c, b = cp(d)
            if b is not None:
                raise Undecided("enumeration over a symbolic dimension")
            dims.append(range(c))
        return [self.at([z3.IntVal(i) for i in idx]) for idx in itertools.product(*dims)]

    def contains(self, ex, st, item):
        from .tensors import toreal
        it = toreal(item)
        return z3.Or(*[toreal(e) == it for e in self.elements()])

    def _index(self, ex, st, idx):
        if not self.shape:
            raise PyRaise("IndexError")
        if isinstance(idx, (slice, tuple, list)) or hasattr(idx, "getattr"):
            raise Undecided("tensor slicing / fancy indexing")
        i = z3ify(idx)
        if isinstance(idx, int) and idx < 0:
            i = z3ify(self.shape[0]) + idx
        inb = z3.And(i >= 0, i < z3ify(self.shape[0]))
        if not getattr(ex, "in_spec", 0) and ex.feasible(st, z3.Not(inb)):
            if not ex.decide(st, inb):
                raise PyRaise("IndexError")
        return i

    def getitem(self, ex, st, idx):
        i = self._index(ex, st, idx)
        return self.with_(self.shape[1:], lambda r: self.at([i] + list(r)))

    def setitem(self, ex, st, idx, v):
        from .tensors import toreal
        i = self._index(ex, st, idx)
        old = self.at
        if isinstance(v, ND):
            while len(v.shape) > len(self.shape) - 1 and cp(v.shape[0]) == (1, None):       # leading 1-dimensions are dropped on assignment
                v = v.with_(v.shape[1:], (lambda r, v=v: v.at([z3.IntVal(0)] + list(r))))
            if len(v.shape) != len(self.shape) - 1 or not all(same_dim(x, y) for x, y in zip(v.shape, self.shape[1:])):
                raise Undecided(f"row assignment of {v.shape} into {self.shape}")
            self.at = lambda ix: z3.If(z3ify(ix[0]) == i, toreal(v.at(list(ix[1:]))), old(ix))
        else:
            val = toreal(v)
            self.at = lambda ix: z3.If(z3ify(ix[0]) == i, val, old(ix))

    def _fresh(self, name):
        srt = Re
        for _ in self.shape:
            srt = z3.ArraySort(I, srt)
        arr = z3.Const(fresh_name(name), srt)

        def at(idx):
            t = arr
            for x in idx:
                t = t[z3ify(x)]
            return t
        return at

    def havoc(self, ex, st, name):
        self.at = self._fresh(self.label)

    def havoc_copy(self, ex, st, name):
        return ND(self.shape, self._fresh(name), self.label, self.is_np)


def _nds(xs):
    xs = list(xs)
    if not xs or not all(isinstance(x, ND) for x in xs):
        raise Undecided("stack/cat of non-tensors")
    return xs


def stack(ex, st, a, k):
    xs = _nds(a[0])
    d = k.get("dim", a[1] if len(a) > 1 else k.get("axis", 0))
    sh = xs[0].shape
    for x in xs[1:]:
        if len(x.shape) != len(sh) or not all(same_dim(p, q) for p, q in zip(x.shape, sh)):
            raise PyRaise("RuntimeError")
    n = len(sh) + 1
    if not isinstance(d, int) or not (-n <= d < n):
        raise PyRaise("IndexError")
    d %= n

    def at(idx):
        sel, rest = idx[d], list(idx[:d]) + list(idx[d + 1:])
        if isinstance(sel, int):
            return xs[sel].at(rest)
        s = z3.simplify(z3ify(sel))
        if z3.is_int_value(s):
            return xs[s.as_long()].at(rest)
        out = xs[-1].at(rest)
        for j in range(len(xs) - 2, -1, -1):
            out = z3.If(s == j, xs[j].at(rest), out)
        return out
    return ND(sh[:d] + [len(xs)] + sh[d:], at, "stack", False)


def cat(ex, st, a, k):
    xs = _nds(a[0])
    d = k.get("dim", a[1] if len(a) > 1 else k.get("axis", 0))
    if d != 0:
        raise Undecided("cat along a dimension other than 0")
    sh = xs[0].shape
    if not sh:
        raise PyRaise("RuntimeError")
    for x in xs[1:]:
        if len(x.shape) != len(sh) or not all(same_dim(p, q) for p, q in zip(x.shape[1:], sh[1:])):
            raise PyRaise("RuntimeError")
    c, b = 0, None
    bounds = []
    for x in xs:
        c2, b2 = cp(x.shape[0])
        if b2 is not None and b is not None and not b.eq(b2):
            raise Undecided("cat of different symbolic lengths")
        if (b2 is None) != (b is None) and bounds:
            raise Undecided("cat of symbolic and concrete lengths")
        c, b = c + c2, b2
        bounds.append(mk(c, b))

    def at(idx):
        r, rest = z3ify(idx[0]), list(idx[1:])
        out = xs[-1].at([r - (bounds[-2] if len(xs) > 1 else 0)] + rest)
        for j in range(len(xs) - 2, -1, -1):
            lo = bounds[j - 1] if j > 0 else 0
            out = z3.If(r < bounds[j], xs[j].at([r - lo] + rest), out)
        return out
    return ND([bounds[-1]] + sh[1:], at, "cat", False)


def unbind(ex, st, a, k):
    x = a[0]
    d = k.get("dim", a[1] if len(a) > 1 else 0)
    n = len(x.shape)
    d %= n
    c, b = cp(x.shape[d])
    if b is not None:
        raise Undecided("unbind along a symbolic dimension")
    return tuple(x.with_(x.shape[:d] + x.shape[d + 1:], (lambda idx, j=j: x.at(list(idx[:d]) + [z3.IntVal(j)] + list(idx[d:])))) for j in range(c))


def split(ex, st, a, k):
    x, sizes = a[0], a[1]
    d = k.get("dim", a[2] if len(a) > 2 else 0)
    n = len(x.shape)
    d %= n
    c, b = cp(x.shape[d])
    if b is not None:
        raise Undecided("split along a symbolic dimension")
    if isinstance(sizes, int):
        sizes = [sizes] * (c // sizes) + ([c % sizes] if c % sizes else [])
    sizes = [int(z) for z in sizes]
    if sum(sizes) != c:
        raise PyRaise("RuntimeError")
    out, off = [], 0
    for sz in sizes:
        out.append(x.with_(x.shape[:d] + [sz] + x.shape[d + 1:], (lambda idx, off=off: x.at(list(idx[:d]) + [z3ify(idx[d]) + off] + list(idx[d + 1:])))))
        off += sz
    return tuple(out)


def cat_any(ex, st, a, k):
    xs = _nds(a[0])
    d = k.get("dim", a[1] if len(a) > 1 else k.get("axis", 0))
    n = len(xs[0].shape)
    if not isinstance(d, int) or not (-n <= d < n):
        raise PyRaise("IndexError")
    d %= n
    if d == 0:
        return cat(ex, st, a, dict(k, dim=0))
    sizes = []
    for x in xs:
        if len(x.shape) != n or not all(same_dim(p, q) for i, (p, q) in enumerate(zip(x.shape, xs[0].shape)) if i != d):
            raise PyRaise("RuntimeError")
        c, b = cp(x.shape[d])
        if b is not None:
            raise Undecided("cat along a symbolic inner dimension")
        sizes.append(c)
    offs = [sum(sizes[:i]) for i in range(len(xs) + 1)]

    def at(idx):
        j = z3ify(idx[d])
        out = xs[-1].at(list(idx[:d]) + [j - offs[-2]] + list(idx[d + 1:]))
        for i in range(len(xs) - 2, -1, -1):
            out = z3.If(j < offs[i + 1], xs[i].at(list(idx[:d]) + [j - offs[i]] + list(idx[d + 1:])), out)
        return out
    return ND(xs[0].shape[:d] + [offs[-1]] + xs[0].shape[d + 1:], at, "cat", False)


def where(ex, st, a, k):
    c, x, y = a
    if not isinstance(c, ND):
        raise Undecided("torch.where on a non-tensor condition")
    from .tensors import toreal

    def el(v, idx):
        return toreal(v.at(idx)) if isinstance(v, ND) else toreal(v)
    for v in (x, y):
        if isinstance(v, ND) and not (len(v.shape) == len(c.shape) and all(same_dim(p, q) for p, q in zip(v.shape, c.shape))):
            raise Undecided("torch.where with broadcasting")
    return c.with_(at=lambda idx: z3.If(toreal(c.at(idx)) != 0, el(x, idx), el(y, idx)))


def full_like(ex, st, a, k):
    from .tensors import toreal
    v = toreal(a[1])
    return a[0].with_(at=lambda idx: v)


def np_all(ex, st, a, k):
    x = a[0]
    if isinstance(x, ND):
        es = x.elements()
        return z3.And(*[e if isinstance(e, z3.BoolRef) else e != 0 for e in es])
    raise Undecided("numpy.all of a non-tensor")


def one_hot(ex, st, a, k):
    x, n = a[0], k.get("num_classes", a[1] if len(a) > 1 else None)
    if not isinstance(x, ND) or not isinstance(n, int):
        raise Undecided("one_hot with symbolic class count")
    return x.with_(list(x.shape) + [n], lambda idx: z3.If(x.at(list(idx[:-1])) == z3.ToReal(z3ify(idx[-1])), z3.RealVal(1), z3.RealVal(0)))


def as_np(ex, st, a, k):
    x = a[0]
    if isinstance(x, ND):
        return ND(x.shape, x.at, x.label, True)
    raise Undecided("np.array of a non-tensor")


def as_torch(ex, st, a, k):
    x = a[0]
    if isinstance(x, ND):
        return ND(x.shape, x.at, x.label, False)
    raise Undecided("torch tensor of a non-tensor")


def zeros_like(ex, st, a, k):
    x = a[0]
    if isinstance(x, ND):
        return x.with_(at=lambda idx: z3.RealVal(0))
    from . import tensors
    return tensors.zeros_like(ex, st, a, k)


def expand_dims(ex, st, a, k):
    return a[0].unsqueeze(a[1] if len(a) > 1 else k["axis"])


LIB = {"numpy.all": np_all, "torch.nn.functional.one_hot": one_hot, "torch.tensor": lambda ex, st, a, k: as_torch(ex, st, a, k), "torch.stack": stack, "torch.cat": cat_any, "torch.unbind": unbind, "torch.split": split, "torch.where": where, "torch.full_like": full_like,
       "torch.as_tensor": as_torch, "numpy.array": as_np, "torch.Tensor": as_torch, "torch.from_numpy": as_torch,
       "torch.zeros_like": zeros_like, "numpy.expand_dims": expand_dims}
DOC = ("exact N-d tensor model (contracts/ndt.py): torch.stack, torch.cat, unbind, split, where, full_like, sum over a concrete dimension, reshape/view incl. -1, transpose, squeeze, unsqueeze/expand_dims, "
       "row indexing and row assignment, element-wise arithmetic with scalars/same-shape tensors, zeros_like - all with row-major index maps; "
       "np.array / torch.Tensor / from_numpy / dtype and device moves keep values")


def install(P):
    P.lib.update(LIB)
    P.trusted.append(DOC)
