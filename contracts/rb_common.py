"""Shared model and contracts for agilerl.components.replay_buffer.ReplayBuffer (used by C09, C10, C11).

Trusted TensorDict row contract (`Rows`): a TensorDict of batch size n is a sequence of n abstract rows (sort
Row: one row = all fields of one transition).  Slicing is a view with the same rows, `td[a:b] = src` copies rows
src[0..b-a) into positions a..b-1 and leaves the others, `td[index_tensor]` is a fresh TensorDict whose k-th row
is td[index[k]], `.clone()` / `.to(device)` keep the rows.
"""
import ast

import z3

from pyvc.execu import z3ify
from pyvc.values import Fn, ModRef, Obj, Opaque, Opt, PyRaise, Seq, Undecided, fresh_name, is_sym

Row = z3.DeclareSort("Row")
ZERO_ROW = z3.Const("ZERO_ROW", Row)
RB = "agilerl.components.replay_buffer."


class FieldView:
    """One (generic) tensor field of a Rows value: enough to run the shape-normalisation loop of add()."""

    def __init__(self, rows, key, nested=False):
        self.rows, self.key, self.nested = rows, key, nested

    def getattr(self, ex, st, name):
        if name == "ndim":
            v = z3.Int(fresh_name("ndim"))
            st.assume(v >= 1)
            return v
        if name == "reshape":
            def reshape(ex, st, args, kwargs):
                n = args[0]
                if ex.feasible(st, z3ify(n) != z3ify(self.rows.seq.len)):
                    raise Undecided("reshape to a different leading dimension")
                return self   # (n,) -> (n,1): same rows (trusted: reshape keeps row k's values)
            return Fn(model=reshape, name="reshape")
        if name == "items" and self.nested:
            return Fn(model=lambda ex, st, a, k: [("subkey", FieldView(self.rows, self.key + ".subkey"))], name="items")
        raise Undecided(f"tensor field attribute {name}")

    def setitem(self, ex, st, idx, v):
        if isinstance(v, FieldView) and v.rows is self.rows:
            return
        raise Undecided("nested field overwritten with a foreign value")


class Rows:
    def __init__(self, seq, extra=None):
        self.seq = seq
        self.extra = extra or {}

    def length(self, ex, st):
        return self.seq.len

    def getattr(self, ex, st, name):
        if name == "shape":
            return (self.seq.len,)
        if name in ("to", "clone", "detach", "cpu", "contiguous"):
            return Fn(model=lambda ex, st, a, k: Rows(Seq(self.seq.len, self.seq.arr, "Row", self.seq.label), dict(self.extra))
                      if name == "clone" else self, name=name)
        if name == "items":
            # two generic items: a plain tensor field and a nested tensor collection
            return Fn(model=lambda ex, st, a, k: [("field", FieldView(self, "field")),
                                                    ("nested", FieldView(self, "nested", nested=True))], name="items")
        if name == "expand":
            return Fn(model=lambda ex, st, a, k: ExpandSpec(a[0]), name="expand")
        if name == "batch_size":
            return (self.seq.len,)
        if name == "seq":
            return self.seq
        raise Undecided(f"TensorDict attribute {name}")

    def getitem(self, ex, st, idx):
        if isinstance(idx, str):
            if idx in self.extra:
                return self.extra[idx]
            return FieldView(self, idx)
        if isinstance(idx, slice):
            return Rows(ex.seq_slice(self.seq, idx, st), dict(self.extra))
        if isinstance(idx, Seq):
            # advanced indexing: a fresh copy, row k = self[idx[k]]; indices must be in range (torch raises)
            k = z3.Int(fresh_name("k"))
            n = z3ify(self.seq.len)
            inb = z3.ForAll([k], z3.Implies(z3.And(k >= 0, k < z3ify(idx.len)),
                                            z3.And(idx.arr[k] >= -n, idx.arr[k] < n)))
            ex.oblige(st, f"{ex.prop}.{ex.current.short if ex.current else '?'}.index-in-range", inb, "lib-pre", None,
                      "advanced indexing: every index within [-len, len)")
            out = Seq.new("Row", "gather", idx.len)
            st.assume(z3.ForAll([k], z3.Implies(z3.And(k >= 0, k < z3ify(idx.len)),
                                                out.arr[k] == self.seq.arr[z3.If(idx.arr[k] < 0, idx.arr[k] + n, idx.arr[k])])))
            return Rows(out, {})
        if isinstance(idx, int) or is_sym(idx):
            return RowOne(self.seq.get(z3ify(idx)))
        raise Undecided(f"TensorDict index {type(idx).__name__}")

    def setitem(self, ex, st, idx, v):
        if isinstance(idx, str):
            if isinstance(v, FieldView) and v.rows is self:
                return   # data[key] = (reshaped) data[key]: rows unchanged
            if idx in ("idxs", "weights") or idx in self.extra:
                self.extra[idx] = v
                return
            raise Undecided(f"field '{idx}' of a TensorDict overwritten with another value")
        if isinstance(idx, slice):
            if not isinstance(v, Rows):
                raise Undecided("slice store of a non-TensorDict")
            n = z3ify(self.seq.len)
            lo = z3ify(0 if idx.start is None else idx.start)
            hi = z3ify(self.seq.len if idx.stop is None else idx.stop)
            if ex.feasible(st, z3.Not(z3.And(0 <= lo, lo <= n, 0 <= hi))):
                raise Undecided("slice store with possibly negative bounds")
            hi_c = z3.If(hi > n, n, hi)
            width = z3.If(hi_c > lo, hi_c - lo, 0)
            ok = width == z3ify(v.seq.len)
            if not ex.feasible(st, ok):
                raise PyRaise("RuntimeError", "shape mismatch in slice assignment")
            if ex.feasible(st, z3.Not(ok)):
                if not ex.decide(st, ok):
                    raise PyRaise("RuntimeError", "shape mismatch in slice assignment")
            j = z3.Int(fresh_name("j"))
            new = z3.Const(fresh_name(self.seq.label), self.seq.arr.sort())
            st.assume(z3.ForAll([j], new[j] == z3.If(z3.And(lo <= j, j < hi_c), v.seq.arr[j - lo], self.seq.arr[j])))
            self.seq.arr = new
            return
        raise Undecided("TensorDict store")

    def havoc(self, ex, st, name):
        self.seq.arr = z3.Const(fresh_name(self.seq.label), self.seq.arr.sort())

    def havoc_copy(self, ex, st, name):
        s = Seq.new("Row", self.seq.label)
        st.assume(s.len >= 0)
        return Rows(s)

    def same_value(self, ex, other):
        if not isinstance(other, Rows):
            return False
        return ex.same_value(self.seq, other.seq)

    def witness_eq(self, ex, val):
        return z3.And(z3ify(self.seq.len) == len(val), self.seq.arr == z3.K(z3.IntSort(), ZERO_ROW))


class RowOne:
    def __init__(self, row):
        self.row = row

    def getattr(self, ex, st, name):
        if name == "shape":
            return ()
        if name == "expand":
            return Fn(model=lambda ex, st, a, k: ExpandSpec(a[0]), name="expand")
        raise Undecided(f"row attribute {name}")


class ExpandSpec:
    def __init__(self, shape):
        self.shape = shape


def zeros_like(ex, st, args, kwargs):
    """torch.zeros_like(row.expand((n, *shape))) -> n rows, all the zero row."""
    e = args[0]
    if not isinstance(e, ExpandSpec):
        raise Undecided("zeros_like of unknown value")
    n = e.shape[0]
    s = Seq.new("Row", "storage", n)
    j = z3.Int(fresh_name("j"))
    st.assume(z3.ForAll([j], s.arr[j] == ZERO_ROW))
    return Rows(s)


def is_tensor_collection(ex, st, args, kwargs):
    v = args[0]
    return isinstance(v, FieldView) and v.nested


def randperm(ex, st, args, kwargs):
    """torch.randperm(n): a permutation of 0..n-1 (every draw covered): length n, in range, pairwise distinct."""
    n = args[0]
    s = Seq.new("int", "perm", n)
    a, b = z3.Int(fresh_name("a")), z3.Int(fresh_name("b"))
    nz = z3ify(n)
    st.assume(z3.ForAll([a], z3.Implies(z3.And(0 <= a, a < nz), z3.And(s.arr[a] >= 0, s.arr[a] < nz))))
    st.assume(z3.ForAll([a, b], z3.Implies(z3.And(0 <= a, a < b, b < nz), s.arr[a] != s.arr[b])))
    return s


def make_rows(ex, st, label):
    s = Seq.new("Row", label)
    st.assume(s.len >= 0)
    return Rows(s)


def make_storage(ex, st, label):
    return Opt(z3.Bool(fresh_name(label + ".isnone")), make_rows(ex, st, label))


LIBS = {
    "torch.zeros_like": (zeros_like, "torch.zeros_like(td.expand((n, ...))) is a TensorDict of n zero rows"),
    "tensordict.is_tensor_collection": (is_tensor_collection, "is_tensor_collection(v) is true exactly for nested tensor collections"),
    "torch.randperm": (randperm, "torch.randperm(n) is a permutation of range(n)"),
}


def install(P):
    for k, (f, doc) in LIBS.items():
        P.lib[k] = f
        P.trusted.append(f"library contract {k}: {doc}")
    P.trusted.append("TensorDict row contract (rb_common.Rows): slicing views, slice assignment copies rows, "
                     "advanced indexing returns a fresh copy, clone/to keep rows, reshape (n,)->(n,1) keeps rows")


# ------------------------------------------------------------------------------------------------ ReplayBuffer
def rb_fields(extra=None):
    f = {"max_size": "int", "device": "opaque", "dtype": "opaque", "counter": "int", "initialized": "bool",
         "_cursor": "int", "_size": "int", "_storage": make_storage,
         # ghost history (never touched by the code): all rows ever added, and how many
         "gH": lambda ex, st, label: z3.Const(fresh_name("H"), z3.ArraySort(z3.IntSort(), Row)),
         "gtot": "int"}
    f.update(extra or {})
    return f


def RB_INV(b):
    """Representation invariant of the ring buffer (linear form, DESIGN 2.6): with tot rows ever added (ghost),
    slot i holds history item  tot-cur+i  (i < cur)  or  tot-cur-N+i  (i >= cur)  whenever that index is >= 0."""
    f = b.fields
    N, cur, size, tot, stg = f["max_size"], f["_cursor"], f["_size"], f["gtot"], f["_storage"]
    H = f["gH"]
    i = z3.Int("i!rb")
    last = z3.If(i < cur, tot - cur + i, tot - cur - N + i)
    if stg is None:
        return z3.And(N >= 1, 0 <= cur, cur < N, tot == 0, size == 0)
    if isinstance(stg, Rows):
        stg = Opt(z3.BoolVal(False), stg)
    return z3.And(
        N >= 1, 0 <= cur, cur < N, tot >= 0,
        size == z3.If(tot < N, tot, N),
        z3.Implies(tot < N, cur == tot),
        z3.Implies(stg.isnone, tot == 0),
        z3.Implies(z3.Not(stg.isnone), stg.val.seq.len == N),
        z3.Implies(z3.Not(stg.isnone), RBq(stg.val.seq.arr, H, tot, cur, N)),
    )


RBq = z3.Function("RBq", z3.ArraySort(z3.IntSort(), Row), z3.ArraySort(z3.IntSort(), Row), z3.IntSort(), z3.IntSort(),
                  z3.IntSort(), z3.BoolSort())    # opaque content clause, revealed inside ReplayBuffer's own functions


def rb_content(arr, H, tot, cur, N):
    i = z3.Int("i!rb")
    last = z3.If(i < cur, tot - cur + i, tot - cur - N + i)
    return z3.ForAll([i], z3.Implies(z3.And(0 <= i, i < N, last >= 0), arr[i] == H[last]))


def reveal_rb(b):
    """RBq(...) is *defined* as rb_content(...) for the current storage/history of buffer b."""
    f = b.fields
    stg = f["_storage"]
    if stg is None:
        return z3.BoolVal(True)
    if isinstance(stg, Rows):
        stg = Opt(z3.BoolVal(False), stg)
    a = (stg.val.seq.arr, f["gH"], f["gtot"], f["_cursor"], f["max_size"])
    return RBq(*a) == rb_content(*a)


def happend(H, tot, data):
    """History after appending the rows of `data`:  H' = H[0..tot) ++ data."""
    t = z3.Int("t!h")
    return z3.Lambda([t], z3.If(t < tot, H[t], data.seq.arr[t - tot]))


def extract_add(model):
    """counterexample of ReplayBuffer.add -> a history that reaches the same capacity / cursor / fill level, then the same batch width"""
    from pyvc.main import mget, mnum
    N, cur, tot, n = (mnum(mget(model, k)) for k in ("self.max_size", "self._cursor", "self.gtot", "data.len"))
    if None in (N, cur, tot, n) or not (1 <= N <= 64 and 0 <= tot <= 256 and 1 <= n <= N):
        return None
    N, tot, n = int(N), int(tot), int(n)
    widths = [1] * tot + [n, 1]           # tot single adds put the cursor at tot mod N, then the offending width, then one more add
    return {"N": N, "widths": widths, "clear_at": None}


def rb_contracts(P, verify, cls="ReplayBuffer", shape="RB"):
    """Contracts of ReplayBuffer.add / sample / clear / __len__ (verified in C09; used modularly by C10/C11)."""
    q = RB + cls + "."
    P.specns.update(dict(RB_INV=RB_INV, happend=happend, reveal_rb=reveal_rb))
    P.contract(RB + "ReplayBuffer.add", verify=verify,
               params={"self": "obj:" + shape, "data": make_rows},
               requires=["RB_INV(self)", "len(data) >= 1", "len(data) <= self.max_size"],
               modifies=["self._storage", "self._cursor", "self._size", "self.counter", "self.initialized",
                         "self.gH", "self.gtot"],
               ghost_entry=["use(reveal_rb(self))"] if verify else [],
               ghost_exit=["self.gH = happend(old(self.gH), old(self.gtot), old(data))",
                           "self.gtot = old(self.gtot) + len(old(data))", "use(reveal_rb(self))"],
               ensures=["RB_INV(self)",
                        "self.gtot == old(self.gtot) + len(old(data))",
                        "self.gH == happend(old(self.gH), old(self.gtot), old(data))",
                        "self._cursor == (old(self._cursor) + len(old(data)) if old(self._cursor) + len(old(data)) < self.max_size"
                        " else old(self._cursor) + len(old(data)) - self.max_size)",
                        "self.counter == old(self.counter) + len(old(data))",
                        "self._storage is not None"],
               witness={"self.max_size": 4, "self._cursor": 0, "self._size": 0, "self.gtot": 0, "self._storage": None,
                        "data": [0, 0]},
               replay={"adapter": "c09:rb_add", "extract": extract_add})
    P.specns.update(dict(sampled_ok=sampled_ok, stored_set=stored_set))
    P.contract(RB + "ReplayBuffer.sample", verify=verify,
               params={"self": "obj:" + shape, "batch_size": "int", "return_idx": "bool"},
               requires=["RB_INV(self)", "self._storage is not None", "batch_size >= 0"],
               ghost_entry=["use(reveal_rb(self))"] if verify else [],
               modifies=[],
               result=make_rows,
               ensures=["len(result) == (batch_size if batch_size < self._size else self._size)",
                        "sampled_ok(self, result, return_idx)"],
               witness={"self.max_size": 4, "self._cursor": 2, "self._size": 2, "self.gtot": 2, "self._storage": [0, 0, 0, 0],
                        "batch_size": 1, "self.gH": lambda h: h == z3.K(z3.IntSort(), ZERO_ROW), "fact:rb": "reveal_rb(self)"},
               replay="c09:rb_sample")
    P.contract(RB + "ReplayBuffer.clear", verify=verify,
               params={"self": "obj:" + shape},
               requires=["RB_INV(self)"],
               modifies=["self._size", "self._cursor", "self._storage", "self.initialized", "self.gtot"],
               ghost_exit=["self.gtot = 0"],
               ensures=["RB_INV(self)", "self._size == 0", "self._cursor == 0", "self._storage is None", "self.gtot == 0"],
               witness={"self.max_size": 4, "self._cursor": 0, "self._size": 0, "self.gtot": 0, "self._storage": None},
               replay="c09:rb_add")
    P.contract(RB + "ReplayBuffer.__len__", verify=verify,
               params={"self": "obj:" + shape},
               requires=["RB_INV(self)"], modifies=[], result="int",
               ensures=["result == (self.gtot if self.gtot < self.max_size else self.max_size)"],
               witness={"self.max_size": 4, "self._cursor": 0, "self._size": 0, "self.gtot": 0, "self._storage": None},
               replay="c09:rb_add")


def stored_set(b):
    """Corollary of RB_INV proved as a lemma: {storage[i] | i < size} = {H[t] | tot-size <= t < tot} (i -> last(i) bijective)."""
    f = b.fields
    N, cur, size, tot, stg, H = f["max_size"], f["_cursor"], f["_size"], f["gtot"], f["_storage"], f["gH"]
    if isinstance(stg, Rows):
        stg = Opt(z3.BoolVal(False), stg)
    t = z3.Int("t!ss")
    slot = z3.If(tot < N, t, z3.If(t - (tot - cur) >= 0, t - (tot - cur), t - (tot - cur) + N))
    return z3.ForAll([t], z3.Implies(z3.And(tot - size <= t, t < tot),
                                     z3.And(0 <= slot, slot < size, stg.val.seq.arr[slot] == H[t])))


def sampled_ok(b, result, return_idx):
    """Every returned row is a stored row; with return_idx the indices are pairwise distinct, < size, and row k is
    storage[idxs[k]]; the result is a fresh TensorDict (advanced-indexing contract), so later writes to the
    storage cannot alter it."""
    f = b.fields
    size, stg = f["_size"], f["_storage"]
    if isinstance(stg, Opt):
        stg = stg.val
    k, k2, i = z3.Int("k!so"), z3.Int("k2!so"), z3.Int("i!so")
    n = z3ify(result.seq.len)
    each = z3.ForAll([k], z3.Implies(z3.And(0 <= k, k < n),
                                     z3.Exists([i], z3.And(0 <= i, i < size, result.seq.arr[k] == stg.seq.arr[i]))))
    fresh_copy = z3.BoolVal(result.seq is not stg.seq)
    out = [each, fresh_copy]
    if "idxs" in result.extra:
        ix = result.extra["idxs"]
        out.append(z3ify(ix.len) == n)
        out.append(z3.ForAll([k], z3.Implies(z3.And(0 <= k, k < n),
                                            z3.And(0 <= ix.arr[k], ix.arr[k] < size, result.seq.arr[k] == stg.seq.arr[ix.arr[k]]))))
        out.append(z3.ForAll([k, k2], z3.Implies(z3.And(0 <= k, k < k2, k2 < n), ix.arr[k] != ix.arr[k2])))
    else:
        out.append(z3.Not(z3ify(return_idx)))
    return z3.And(*out)
