"""Spec functions and lemmas for the segment trees (C11).

F_sum(arr, c, a, b): sum of the leaves a..b-1 of the tree array `arr` whose leaves start at offset c.
Defined by well-founded recursion on b (a conservative definition); only explicit *instances* of the
unfolding are ever given to the solver (no quantified recursive axiom -> no matching loops):

    F_sum(a, b) = 0                                  if b <= a
                = F_sum(a, b-1) + arr[c+b-1]         otherwise
    F_min(a, b) = arr[c+a]                           if b == a+1        (defined for b > a only)
                = min(F_min(a, b-1), arr[c+b-1])     if b >  a+1

Lemmas (each proved below as obligations by explicit induction; the induction principle on naturals is the
meta-step pyvc is trusted for):
    additivity   a<=m<=b            ->  F_sum(a,b) = F_sum(a,m) + F_sum(m,b)          (and a<m<b for F_min)
    nonneg       leaves >= 0        ->  F_sum(a,b) >= 0
    node         WF, geometry(node,lo,span) -> tree[node] = F(lo, lo+span)
"""
import z3

I, R = z3.IntSort(), z3.RealSort()
A = z3.ArraySort(I, R)
F_sum = z3.Function("F_sum", A, I, I, I, R)
F_min = z3.Function("F_min", A, I, I, I, R)
LEAF = z3.Function("leaf", A, I, I, R)      # leaf(arr, c, j) := arr[c + j]  (definitional axiom below; gives quantifiers
                                            # over leaves an uninterpreted trigger instead of an arithmetic index)
is_pow2 = z3.Function("is_pow2", I, z3.BoolSort())
band = z3.Function("band", I, I, I)
INF = z3.Real("INF")


def zmin(a, b):
    # python's min(a, b): returns a unless b < a
    return z3.If(b < a, b, a)


def leaf_axiom():
    arr = z3.Const("arr!lf", A)
    c, j = z3.Ints("c!lf j!lf")
    return z3.ForAll([arr, c, j], LEAF(arr, c, j) == arr[c + j], patterns=[LEAF(arr, c, j)])


def pow2_axioms():
    x = z3.Int("x!p2")
    return [
        # mathematical facts about powers of two (trusted arithmetic lemma, listed in evidence)
        z3.ForAll([x], z3.Implies(z3.And(is_pow2(x), x > 1), z3.And(x % 2 == 0, is_pow2(x / 2))), patterns=[is_pow2(x)]),
        z3.ForAll([x], z3.Implies(is_pow2(x), x >= 1), patterns=[is_pow2(x)]),
        is_pow2(1),
    ] + [is_pow2(2 ** k) for k in range(1, 21)] + [
        z3.ForAll([x], z3.Implies(z3.And(is_pow2(x)), is_pow2(2 * x)), patterns=[is_pow2(2 * x)]),
        # x & (x-1) == 0 for x > 0 characterises powers of two
        z3.ForAll([x], z3.Implies(x > 0, (band(x, x - 1) == 0) == is_pow2(x)), patterns=[band(x, x - 1)]),
    ]


def unfold_sum(arr, c, a, b):
    return F_sum(arr, c, a, b) == z3.If(b <= a, z3.RealVal(0), F_sum(arr, c, a, b - 1) + LEAF(arr, c, b - 1))


def unfold_min(arr, c, a, b):
    return z3.Implies(b > a, F_min(arr, c, a, b) == z3.If(b == a + 1, LEAF(arr, c, a),
                                                            zmin(F_min(arr, c, a, b - 1), LEAF(arr, c, b - 1))))


def add_sum(arr, c, a, m, b):
    return z3.Implies(z3.And(a <= m, m <= b), F_sum(arr, c, a, b) == F_sum(arr, c, a, m) + F_sum(arr, c, m, b))


def add_min(arr, c, a, m, b):
    return z3.Implies(z3.And(a < m, m < b), F_min(arr, c, a, b) == zmin(F_min(arr, c, a, m), F_min(arr, c, m, b)))


def geometry(cap, node, lo, span):
    return z3.And(is_pow2(span), span >= 1, lo >= 0, lo + span <= cap, node * span == cap + lo, node >= 1)


def wf(arr, cap, op):
    i = z3.Int("i!wf")
    return z3.ForAll([i], z3.Implies(z3.And(1 <= i, i < cap), arr[i] == op(arr[2 * i], arr[2 * i + 1])),
                     patterns=[arr[2 * i]])


def wf_at(arr, cap, op, i):
    return z3.Implies(z3.And(1 <= i, i < cap), arr[i] == op(arr[2 * i], arr[2 * i + 1]))


def node_sum(arr, cap, node, lo, span):
    return z3.Implies(geometry(cap, node, lo, span), arr[node] == F_sum(arr, cap, lo, lo + span))


def node_min(arr, cap, node, lo, span):
    return z3.Implies(geometry(cap, node, lo, span), arr[node] == F_min(arr, cap, lo, lo + span))


def nonneg_sum(arr, c, a, b):
    j = z3.Int("j!nn")
    return z3.Implies(z3.ForAll([j], z3.Implies(z3.And(a <= j, j < b), LEAF(arr, c, j) >= 0), patterns=[LEAF(arr, c, j)]),
                      F_sum(arr, c, a, b) >= 0)


def lemmas():
    """-> list of (name, thunk -> (assumptions, goal)).  Fixed-but-arbitrary constants play the role of the
    universally quantified variables; `IH` is the induction hypothesis."""
    arr = z3.Const("arr!L", A)
    c, a, m, b, n = z3.Ints("c!L a!L m!L b!L n!L")
    out = []
    plus = lambda x, y: x + y

    # --- additivity of F_sum: induction on b >= m
    out.append(("sum_add.base", lambda: ([a <= m, unfold_sum(arr, c, m, m)], add_sum(arr, c, a, m, m))))
    out.append(("sum_add.step", lambda: ([a <= m, m <= b, add_sum(arr, c, a, m, b),
                                          unfold_sum(arr, c, a, b + 1), unfold_sum(arr, c, m, b + 1)],
                                         add_sum(arr, c, a, m, b + 1))))
    # --- additivity of F_min: induction on b > m
    out.append(("min_add.base", lambda: ([a < m, unfold_min(arr, c, a, m + 1), unfold_min(arr, c, m, m + 1)],
                                         add_min(arr, c, a, m, m + 1))))
    out.append(("min_add.step", lambda: ([a < m, m < b, add_min(arr, c, a, m, b),
                                          unfold_min(arr, c, a, b + 1), unfold_min(arr, c, m, b + 1)],
                                         add_min(arr, c, a, m, b + 1))))
    # --- non-negativity of F_sum: induction on b
    j = z3.Int("j!L")
    hyp = lambda hi: z3.ForAll([j], z3.Implies(z3.And(a <= j, j < hi), LEAF(arr, c, j) >= 0), patterns=[LEAF(arr, c, j)])
    out.append(("sum_nonneg.base", lambda: ([unfold_sum(arr, c, a, a)], F_sum(arr, c, a, a) >= 0)))
    out.append(("sum_nonneg.step", lambda: ([b >= a, z3.Implies(hyp(b), F_sum(arr, c, a, b) >= 0), hyp(b + 1),
                                             unfold_sum(arr, c, a, b + 1)], F_sum(arr, c, a, b + 1) >= 0)))
    # --- node lemma (sum): strong induction on span (a power of two)
    cap, node, lo, span = z3.Ints("cap!L node!L lo!L span!L")
    h = span / 2
    out.append(("node_sum.base", lambda: (pow2_axioms() + [leaf_axiom(), geometry(cap, node, lo, span), span == 1,
                                                           unfold_sum(arr, cap, lo, lo + 1), unfold_sum(arr, cap, lo, lo)],
                                          arr[node] == F_sum(arr, cap, lo, lo + span))))
    out.append(("node_sum.step", lambda: (pow2_axioms() + [geometry(cap, node, lo, span), span > 1,
                                                           wf_at(arr, cap, plus, node),
                                                           node_sum(arr, cap, 2 * node, lo, h),            # IH (span/2 < span)
                                                           node_sum(arr, cap, 2 * node + 1, lo + h, h),    # IH
                                                           add_sum(arr, cap, lo, lo + h, lo + span)],       # proved above
                                          arr[node] == F_sum(arr, cap, lo, lo + span))))
    out.append(("node_min.base", lambda: (pow2_axioms() + [leaf_axiom(), geometry(cap, node, lo, span), span == 1,
                                                           unfold_min(arr, cap, lo, lo + 1)],
                                          arr[node] == F_min(arr, cap, lo, lo + span))))
    out.append(("node_min.step", lambda: (pow2_axioms() + [geometry(cap, node, lo, span), span > 1,
                                                           wf_at(arr, cap, zmin, node),
                                                           node_min(arr, cap, 2 * node, lo, h),
                                                           node_min(arr, cap, 2 * node + 1, lo + h, h),
                                                           add_min(arr, cap, lo, lo + h, lo + span)],
                                          arr[node] == F_min(arr, cap, lo, lo + span))))
    return out
