"""Trusted tensor model (DESIGN.md 2.4 'tensor mode'): tensors of statically known rank with symbolic dimensions,
elements as z3 arrays over index tuples; element-wise ops are z3 lambdas.  Real-valued (A-REAL)."""
import ast

import z3

from pyvc.execu import to_bool, z3ify
from pyvc.values import Fn, ModRef, Obj, Opaque, PyRaise, Seq, Undecided, fresh_name, is_sym

I, Re = z3.IntSort(), z3.RealSort()
A1 = z3.ArraySort(I, Re)
A2 = z3.ArraySort(I, A1)
# row-major layout of reshape (uninterpreted: only "same shape => same index map" and bijectivity are needed)
rowof = z3.Function("rowof", I, I, I, I)
colof = z3.Function("colof", I, I, I, I)


def toreal(x):
    x = z3ify(x)
    if isinstance(x, z3.BoolRef):
        return z3.If(x, z3.RealVal(1), z3.RealVal(0))
    if isinstance(x, z3.ArithRef) and x.sort() == I:
        return z3.ToReal(x)
    return x


def arith(op, x, y):
    if isinstance(op, ast.Add):
        return x + y
    if isinstance(op, ast.Sub):
        return x - y
    if isinstance(op, ast.Mult):
        return x * y
    if isinstance(op, ast.Div):
        return x / y
    raise Undecided(f"tensor op {type(op).__name__}")


class Vec:
    """1-D tensor of length n (n: python int or z3 Int)."""

    def __init__(self, n, arr, label="vec"):
        self.n, self.arr, self.label = n, arr, label

    @staticmethod
    def fresh(label, n):
        return Vec(n, z3.Const(fresh_name(label), A1), label)

    def el(self, k):
        return self.arr[z3ify(k)]

    def getattr(self, ex, st, name):
        if name in ("cpu", "float", "long", "detach", "clone", "squeeze", "to", "numpy", "data", "double", "contiguous", "flatten"):
            if name == "data":
                return self
            return Fn(model=lambda ex, st, a, k: Vec(self.n, self.arr, self.label), name=name)
        if name in ("reshape", "view"):
            def reshape(ex, st, a, k):
                dims = list(a[0]) if (len(a) == 1 and isinstance(a[0], (tuple, list))) else list(a)
                if dims in ([1, -1], [-1], [-1, 1]) or (len(dims) <= 2 and all(isinstance(d, int) and d in (1, -1) for d in dims)):
                    return Vec(self.n, self.arr, self.label)
                if len(dims) in (1, 2) and not ex.feasible(st, z3ify(dims[0]) != z3ify(self.n)):
                    return Vec(self.n, self.arr, self.label)
                raise Undecided(f"reshape of a vector to {dims}")
            return Fn(model=reshape, name=name)
        if name == "size":
            return Fn(model=lambda ex, st, a, k: self.n if (not a or a[0] == 0) else 1, name="size")
        if name == "shape":
            return (self.n,)
        if name == "ndim":
            return 1
        if name == "n":
            return self.n
        if name == "unsqueeze":
            return Fn(model=lambda ex, st, a, k: Vec(self.n, self.arr, self.label), name=name)
        raise Undecided(f"vector attribute {name}")

    def length(self, ex, st):
        return self.n

    def isinstance(self, ex, st, names):
        return any(n in ("Tensor", "ndarray") for n in names)

    def binop(self, ex, st, op, other, swapped):
        k = z3.Int("k!v")
        x = self.arr[k]
        if isinstance(other, Vec):
            if ex.feasible(st, z3ify(other.n) != z3ify(self.n)):
                raise Undecided("element-wise op on vectors of possibly different length")
            y = other.arr[k]
        elif isinstance(other, (Mat,)):
            raise Undecided("vector/matrix broadcasting")
        else:
            y = toreal(other)
        if swapped:
            x, y = y, x
        return Vec(self.n, z3.Lambda([k], arith(op, x, y)), self.label)

    def iop(self, ex, st, op, other):
        return self.binop(ex, st, op, other, False)

    def getitem(self, ex, st, idx):
        if isinstance(idx, Seq):
            k = z3.Int("k!g")
            return Vec(idx.len, z3.Lambda([k], self.arr[idx.arr[k]]), self.label + ".gather")
        if isinstance(idx, Vec):
            raise Undecided("float index")
        if isinstance(idx, slice):
            raise Undecided("vector slice")
        i = z3ify(idx)
        if isinstance(idx, int) and idx < 0:
            i = z3ify(self.n) + idx
        inb = z3.And(i >= 0, i < z3ify(self.n))
        if not getattr(ex, "in_spec", 0) and ex.feasible(st, z3.Not(inb)):
            if not ex.decide(st, inb):
                raise PyRaise("IndexError")
        return self.arr[i]

    def setitem(self, ex, st, idx, v):
        i = z3ify(idx)
        inb = z3.And(i >= 0, i < z3ify(self.n))
        if ex.feasible(st, z3.Not(inb)):
            if not ex.decide(st, inb):
                raise PyRaise("IndexError")
        self.arr = z3.Store(self.arr, i, toreal(v))

    def havoc(self, ex, st, name):
        self.arr = z3.Const(fresh_name(self.label), A1)

    def havoc_copy(self, ex, st, name):
        return Vec(self.n, z3.Const(fresh_name(name), A1), self.label)

    def same_value(self, ex, other):
        return isinstance(other, Vec) and z3.And(z3ify(self.n) == z3ify(other.n), self.arr == other.arr)


class Mat:
    """2-D tensor R x C: arr[r][c]."""

    def __init__(self, R, C, arr, label="mat"):
        self.R, self.C, self.arr, self.label = R, C, arr, label

    @staticmethod
    def fresh(label, R, C):
        return Mat(R, C, z3.Const(fresh_name(label), A2), label)

    def el(self, r, c):
        return self.arr[z3ify(r)][z3ify(c)]

    def getattr(self, ex, st, name):
        if name in ("cpu", "float", "long", "detach", "clone", "to", "double", "contiguous"):
            return Fn(model=lambda ex, st, a, k: Mat(self.R, self.C, self.arr, self.label), name=name)
        if name == "size":
            return Fn(model=lambda ex, st, a, k: (self.R, self.C)[a[0]] if a else (self.R, self.C), name="size")
        if name == "shape":
            return (self.R, self.C)
        if name == "ndim":
            return 2
        if name in ("R", "C"):
            return getattr(self, name)
        if name == "swapaxes":
            def swap(ex, st, a, k):
                if tuple(a) not in ((0, 1), (1, 0)):
                    raise Undecided("swapaxes of other axes")
                r, c = z3.Int("r!sw"), z3.Int("c!sw")
                return Mat(self.C, self.R, z3.Lambda([r], z3.Lambda([c], self.arr[c][r])), self.label + ".T")
            return Fn(model=swap, name="swapaxes")
        if name in ("reshape", "view"):
            def reshape(ex, st, a, k):
                dims = list(a[0]) if (len(a) == 1 and isinstance(a[0], (tuple, list))) else list(a)
                if len(dims) == 2 and dims[1] == -1 and not ex.feasible(st, z3ify(dims[0]) != z3ify(self.R)):
                    return Mat(self.R, self.C, self.arr, self.label)       # reshape(R, -1) of an R x C matrix: unchanged
                n = z3.simplify(z3ify(self.R) * z3ify(self.C))
                ok = (len(dims) == 1 or (len(dims) == 2 and dims[1] == 1)) and (dims[0] == -1 or not ex.feasible(st, z3ify(dims[0]) != n))
                if not ok:
                    raise Undecided(f"reshape of a matrix to {dims}")
                kk = z3.Int("k!rs")
                R, C = z3ify(self.R), z3ify(self.C)
                return Vec(n, z3.Lambda([kk], self.arr[rowof(kk, R, C)][colof(kk, R, C)]), self.label + ".flat")
            return Fn(model=reshape, name=name)
        raise Undecided(f"matrix attribute {name}")

    def length(self, ex, st):
        return self.R

    def isinstance(self, ex, st, names):
        return any(n in ("Tensor", "ndarray") for n in names)

    def getitem(self, ex, st, idx):
        if isinstance(idx, (slice, tuple, Seq)):
            raise Undecided("matrix slicing")
        i = z3ify(idx)
        if isinstance(idx, int) and idx < 0:
            i = z3ify(self.R) + idx
        inb = z3.And(i >= 0, i < z3ify(self.R))
        if not getattr(ex, "in_spec", 0) and ex.feasible(st, z3.Not(inb)):
            if not ex.decide(st, inb):
                raise PyRaise("IndexError")
        return Vec(self.C, self.arr[i], self.label + ".row")

    def setitem(self, ex, st, idx, v):
        i = z3ify(idx)
        inb = z3.And(i >= 0, i < z3ify(self.R))
        if ex.feasible(st, z3.Not(inb)):
            if not ex.decide(st, inb):
                raise PyRaise("IndexError")
        if isinstance(v, Vec):
            if ex.feasible(st, z3ify(v.n) != z3ify(self.C)):
                raise Undecided("row assignment with a vector of possibly different length")
            row = v.arr
        else:
            row = z3.K(I, toreal(v))
        self.arr = z3.Store(self.arr, i, row)

    def binop(self, ex, st, op, other, swapped):
        r, c = z3.Int("r!m"), z3.Int("c!m")
        x = self.arr[r][c]
        if isinstance(other, Mat):
            if ex.feasible(st, z3.Or(z3ify(other.R) != z3ify(self.R), z3ify(other.C) != z3ify(self.C))):
                raise Undecided("element-wise op on matrices of possibly different shape")
            y = other.arr[r][c]
        elif isinstance(other, Vec):
            raise Undecided("matrix/vector broadcasting")
        else:
            y = toreal(other)
        if swapped:
            x, y = y, x
        return Mat(self.R, self.C, z3.Lambda([r], z3.Lambda([c], arith(op, x, y))), self.label)

    def havoc(self, ex, st, name):
        self.arr = z3.Const(fresh_name(self.label), A2)

    def havoc_copy(self, ex, st, name):
        return Mat(self.R, self.C, z3.Const(fresh_name(name), A2), self.label)


def zeros_like(ex, st, args, kwargs):
    x = args[0]
    if isinstance(x, Mat):
        return Mat(x.R, x.C, z3.K(I, z3.K(I, z3.RealVal(0))), "zeros")
    if isinstance(x, Vec):
        return Vec(x.n, z3.K(I, z3.RealVal(0)), "zeros")
    raise Undecided("zeros_like of unknown value")


LIB = {"torch.zeros_like": (zeros_like, "torch.zeros_like(x): same shape, all zeros")}


def layout_axioms():
    k, R, C = z3.Ints("k!lay R!lay C!lay")
    return [z3.ForAll([k, R, C], z3.Implies(z3.And(0 <= k, k < R * C, R >= 1, C >= 1),
                                            z3.And(0 <= rowof(k, R, C), rowof(k, R, C) < R, 0 <= colof(k, R, C), colof(k, R, C) < C)),
                      patterns=[rowof(k, R, C)])]


def install(P):
    P.axioms += layout_axioms()
    for k, (f, doc) in LIB.items():
        P.lib[k] = f
        P.trusted.append(f"library contract {k}: {doc}")
    P.trusted.append("tensor model (contracts/tensors.py): element-wise +,-,*,/ with scalar broadcasting; row indexing/assignment; "
                     "swapaxes(0,1) transposes; reshape(R*C[,1]) is the row-major flattening (index map rowof/colof determined by the shape only); "
                     "cpu/float/long/detach/clone/squeeze keep values")
