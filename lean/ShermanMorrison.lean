/-
C19 — the mathematical half of the invariant  sigma_inv = (λ I + Σ g gᵀ)⁻¹  of the neural bandits.

`sherman_morrison_mul` : if S is a left inverse of M and c = 1 + vᵀ S v ≠ 0 then
   S' = S - (1/c) • (S v vᵀ S)   is a left inverse of   M + v vᵀ.
The expression for S' is, node for node, the expression the real code evaluates
   self.sigma_inv -= (self.sigma_inv @ v @ v.T @ self.sigma_inv) / (1 + v.T @ self.sigma_inv @ v)
(the pyvc side checks that correspondence on the extracted AST).
`init_inverse` : (1/λ) I is the inverse of λ I for λ ≠ 0  (what init_params establishes).
`sm_inverse`   : hence S' = (M + v vᵀ)⁻¹.
`denominator_pos` : for a positive definite M the denominator 1 + vᵀ M⁻¹ v is ≥ 1 (so the update is always defined
                    and the exploration bonus gᵀ M⁻¹ g of every arm is non-negative).
-/
import Mathlib.LinearAlgebra.Matrix.NonsingularInverse
import Mathlib.LinearAlgebra.Matrix.PosDef
import Mathlib.Tactic
import Mathlib.Analysis.RCLike.Basic
import Mathlib.Algebra.Order.Star.Real
open Matrix

variable {n : Type*} [Fintype n] [DecidableEq n] {α : Type*} [Field α]

theorem sherman_morrison_mul
    (M S : Matrix n n α) (v : Matrix n Unit α)
    (hSM : S * M = 1) (c : α)
    (hc : c = 1 + (vᵀ * S * v) () ()) (hc0 : c ≠ 0) :
    (S - (1 / c) • (S * v * vᵀ * S)) * (M + v * vᵀ) = 1 := by
  have hscal : vᵀ * S * v = (c - 1) • (1 : Matrix Unit Unit α) := by
    ext i j
    cases i; cases j
    simp [hc]
  have h1 : S * v * vᵀ * S * M = S * v * vᵀ := by
    rw [Matrix.mul_assoc (S * v * vᵀ) S M, hSM, Matrix.mul_one]
  have h2 : S * v * vᵀ * S * (v * vᵀ) = (c - 1) • (S * v * vᵀ) := by
    calc S * v * vᵀ * S * (v * vᵀ) = S * v * (vᵀ * S * v) * vᵀ := by
          simp only [Matrix.mul_assoc]
      _ = (c - 1) • (S * v * vᵀ) := by
          rw [hscal]; simp [Matrix.mul_smul, Matrix.smul_mul]
  rw [Matrix.sub_mul, Matrix.mul_add, Matrix.smul_mul, Matrix.mul_add, h1, h2, hSM]
  rw [← Matrix.mul_assoc S v vᵀ]
  ext i j
  simp only [Matrix.add_apply, Matrix.sub_apply, Matrix.smul_apply, smul_eq_mul, Matrix.one_apply]
  field_simp
  ring

theorem sm_inverse
    (M S : Matrix n n α) (v : Matrix n Unit α)
    (hSM : S * M = 1) (c : α)
    (hc : c = 1 + (vᵀ * S * v) () ()) (hc0 : c ≠ 0) :
    (M + v * vᵀ)⁻¹ = S - (1 / c) • (S * v * vᵀ * S) :=
  Matrix.inv_eq_left_inv (sherman_morrison_mul M S v hSM c hc hc0)

theorem init_inverse (lam : α) (h : lam ≠ 0) :
    ((1 / lam) • (1 : Matrix n n α)) * (lam • (1 : Matrix n n α)) = 1 := by
  rw [Matrix.smul_mul, Matrix.mul_smul, Matrix.one_mul, smul_smul]
  field_simp
  simp

/-- positive definiteness is kept by a rank-one update, and the quadratic form of the inverse is non-negative:
    the bonus gᵀ M⁻¹ g of every arm is ≥ 0 and the Sherman–Morrison denominator 1 + vᵀ M⁻¹ v is ≥ 1. -/
theorem posdef_update {m : Type*} [Fintype m] [DecidableEq m] (M : Matrix m m ℝ) (hM : M.PosDef) (v : m → ℝ) :
    (M + vecMulVec v (star v)).PosDef :=
  hM.add_posSemidef (posSemidef_vecMulVec_self_star v)

theorem bonus_nonneg {m : Type*} [Fintype m] [DecidableEq m] (M : Matrix m m ℝ) (hM : M.PosDef) (g : m → ℝ) :
    0 ≤ star g ⬝ᵥ (M⁻¹ *ᵥ g) :=
  hM.inv.posSemidef.dotProduct_mulVec_nonneg g

theorem denominator_pos {m : Type*} [Fintype m] [DecidableEq m] (M : Matrix m m ℝ) (hM : M.PosDef) (v : m → ℝ) :
    (1 : ℝ) + star v ⬝ᵥ (M⁻¹ *ᵥ v) ≠ 0 := by
  have h := bonus_nonneg M hM v
  linarith
