#!/bin/bash
# Compiles the C19 lemma file with Lean 4 + Mathlib (errors / sorry -> non-zero), caching the result by source hash.
cd "$(dirname "$0")"
h=$(sha256sum ShermanMorrison.lean | cut -c1-16)
mkdir -p build
if [ -f build/ok.$h ] && [ "$1" != "--force" ]; then echo "lean: cached OK ($h)"; exit 0; fi
if grep -n "sorry\|admit\|axiom " ShermanMorrison.lean; then echo "lean: sorry/axiom present"; exit 1; fi
out=$(cd /opt/veriftools/mathlib4 2>/dev/null; cd - >/dev/null; lean -o build/ShermanMorrison.olean ShermanMorrison.lean 2>&1)
rc=$?
echo "$out" | grep -v "^$" | head -20
if [ $rc -ne 0 ] || echo "$out" | grep -q "error"; then echo "lean: FAILED"; exit 1; fi
touch build/ok.$h; echo "lean: OK ($h)"; exit 0
