"""Sidecar contracts and the per-function verification driver."""
import ast
import copy
import time
import zlib

import z3

from . import front
from .execu import (BREAK, CONTINUE, NORMAL, RAISE, RETURN, EnumV, Executor, Frame, Obligation, RangeV, ReversedV,
                    State, ZipV, conj, to_bool, z3ify)
from .stmts import StmtMixin
from .values import (BoundMethod, Closure, Fn, FuncRef, ModRef, Obj, Opaque, Opt, PathEnd, PyRaise, Seq, Undecided,
                     fresh, fresh_name, is_sym, realval, reset_fresh, sort_of)

_spec_cache = {}


def parse_spec(text):
    if text not in _spec_cache:
        try:
            _spec_cache[text] = ast.parse(text.strip(), mode="eval").body
        except SyntaxError as e:
            raise Undecided(f"contract clause does not parse: {text!r}: {e}")
    return _spec_cache[text]


def make_value(ex, st, tname, label):
    """Fresh symbolic value of a declared type (DESIGN 2.7 'types come from the contract')."""
    if callable(tname):
        return tname(ex, st, label)
    t = tname.strip()
    if t in ("int", "real", "bool"):
        return fresh(t, label)
    if t == "nat":
        v = fresh("int", label)
        st.assume(v >= 0)
        return v
    if t == "pos":
        v = fresh("int", label)
        st.assume(v >= 1)
        return v
    if t.startswith("seq[") and t.endswith("]"):
        s = Seq.new(t[4:-1], label)
        st.assume(s.len >= 0)
        return s
    if t.startswith("fn(") and "->" in t:
        dom, rng = t[3:].split(")->")
        sorts = [sort_of(x.strip()) for x in dom.split(",") if x.strip()] + [sort_of(rng.strip())]
        return Fn(decl=z3.Function(fresh_name(label), *sorts), name=label)
    if t.startswith("obj:"):
        shape = ex.shapes[t[4:]]
        return shape.instantiate(ex, st, label)
    if t.startswith("opt:"):
        inner = make_value(ex, st, t[4:], label)
        return Opt(z3.Bool(fresh_name(label + ".isnone")), inner)
    if t.startswith("sort:"):
        return z3.Const(fresh_name(label), z3.DeclareSort(t[5:]))
    if t == "opaque":
        return Opaque(label)
    raise Undecided(f"unknown contract type '{tname}' for {label}")


class Shape:
    """Declared record layout of a class as far as the contracts talk about it."""

    def __init__(self, name, cls, fields, invariant=None):
        self.name = name
        self.cls = cls
        self.fields = fields
        self.invariant = invariant or []

    def instantiate(self, ex, st, label):
        o = Obj(self.cls, label=label)
        for f, t in self.fields.items():
            if isinstance(t, tuple) and t[0] == "const":
                o.fields[f] = t[1]
            else:
                o.fields[f] = make_value(ex, st, t, f"{label}.{f}")
        return o


class Contract:
    def __init__(self, qual, *, params=None, requires=(), ensures=(), modifies=(), loops=None, raises=None,
                 result=None, short=None, setup=None, replay=None, ghost=None, ghost_at=None, lets=None,
                 frame_fields=None, trusted=False, note="", raises_iff=False, prop=None, inline=(), region=None,
                 ensures_raise=None, variant=None, witness=None, ghost_entry=(), decreases=None, ghost_exit=(), creates=None, ghost_after=None, axioms=()):
        self.qual = qual
        self.params = params or {}
        self.requires = list(requires)
        self.ensures = list(ensures)
        self.modifies = list(modifies)
        self.loops = loops or {}
        self.raises = raises or {}
        self.raises_iff = raises_iff
        self.ensures_raise = ensures_raise or {}
        self.result = result
        self.short = short or ".".join(qual.split(".")[-2:])
        if variant:
            self.short += "[" + variant + "]"
        self.variant = variant
        self.setup = setup
        self.replay = replay
        self.ghost = ghost or {}
        self.ghost_at = ghost_at or {}
        self.lets = lets or {}
        self.frame_fields = frame_fields
        self.trusted = trusted
        self.note = note
        self.prop = prop
        self.inline = set(inline)
        self.region = region
        self.witness = witness
        self.ghost_entry = list(ghost_entry)
        self.decreases = decreases
        self.ghost_exit = list(ghost_exit)
        self.creates = creates or {}
        self.ghost_after = ghost_after or {}
        self.axioms = list(axioms)

    # ---- spec evaluation
    def spec_frame(self, fr):
        sf = Frame(fr.mod if fr else None, fr.cls if fr else None, fr.fn if fr else None,
                   fr.qual if fr else self.qual, fr.depth if fr else 0)
        sf.specmode = True
        return sf

    def eval_spec(self, ex, text, st, fr):
        node = parse_spec(text)
        sf = self.spec_frame(fr)
        saved_len = len(st.pc)
        ex.in_spec = getattr(ex, "in_spec", 0) + 1
        try:
            v = ex.ev(node, st, sf)
        except PyRaise as e:
            raise Undecided(f"contract clause raised {e.exc} while being evaluated: {text!r}")
        finally:
            del st.pc[saved_len:]
            ex.in_spec -= 1
        return to_bool(v) if not (isinstance(v, z3.ArithRef)) else v

    def exec_ghost(self, ex, text, st, fr):
        mod = ast.parse(text.strip())
        sf = self.spec_frame(fr)
        for s in mod.body:
            if isinstance(s, ast.Assign) and isinstance(s.targets[0], ast.Name):
                st.ghost[s.targets[0].id] = ex.ev(s.value, st, sf)
            elif isinstance(s, ast.Assign) and isinstance(s.targets[0], ast.Attribute):
                base = ex.ev(s.targets[0].value, st, sf)
                base.fields[s.targets[0].attr] = ex.ev(s.value, st, sf)
            elif isinstance(s, ast.If):
                c = ex.ev(s.test, st, sf)
                if ex.decide(st, c):
                    for b in s.body:
                        self.exec_ghost(ex, ast.unparse(b), st, fr)
                else:
                    for b in s.orelse:
                        self.exec_ghost(ex, ast.unparse(b), st, fr)
            elif isinstance(s, ast.Expr) and isinstance(s.value, ast.Call) and isinstance(s.value.func, ast.Name) \
                    and s.value.func.id in ("check", "arith"):
                # intermediate assertion: proved (as its own obligation) and then assumed.  `arith` keeps only the
                # quantifier-free part of the path condition (fewer assumptions: still sound) so that the
                # nonlinear-arithmetic engine is not distracted by quantifiers.
                from .execu import has_quant
                phi = z3ify(to_bool(ex.ev(s.value.args[0], st, sf)))
                nm = f"{ex.prop}.{self.short}.{s.value.func.id}.L{getattr(s, 'lineno', 0)}.{zlib.crc32(ast.unparse(s.value.args[0]).encode()) % 10000}"
                if s.value.func.id == "arith":
                    saved = st.pc
                    st.pc = [p for p in saved if not has_quant(p)]
                    try:
                        ex.oblige(st, nm, phi, "ghost-assert", None, ast.unparse(s.value.args[0]))
                    finally:
                        st.pc = saved
                else:
                    ex.oblige(st, nm, phi, "ghost-assert", None, ast.unparse(s.value.args[0]))
                st.assume(phi)
            elif isinstance(s, ast.Expr) and isinstance(s.value, ast.Call) and isinstance(s.value.func, ast.Name) \
                    and s.value.func.id in ("assume_lemma", "use"):
                # instantiate a proved lemma (a python callable registered in specns returning a z3 fact)
                f = ex.specns[ast.unparse(s.value.args[0].func)] if isinstance(s.value.args[0], ast.Call) else None
                if f is None:
                    raise Undecided("use(...) needs a lemma call")
                args = [ex.ev(a, st, sf) for a in s.value.args[0].args]
                fact = f(*args)
                st.assume(fact)
            else:
                raise Undecided(f"unsupported ghost statement: {text}")

    # ---- use at a call site (modular: the caller sees only this contract)
    def apply(self, ex, st, loc, fr, line):
        tag = f"{ex.prop}.{ex.current.short if ex.current else '?'}.call.{self.short}@L{line}"
        cs = State()
        cs.locals = loc
        cs.pc = st.pc
        cs.ghost = dict(st.ghost)
        cs.dec_list, cs.dec_pos = st.dec_list, st.dec_pos
        callee_fr = Frame(None, None, None, self.qual)
        try:
            callee_fr = self.frame()
        except front.ExtractError:
            pass
        try:
            for k, v in self.lets.items():
                cs.locals[k] = ex.ev(parse_spec(v), cs, self.spec_frame(callee_fr))
            for j, r in enumerate(self.requires):
                g = self.eval_spec(ex, r, cs, callee_fr)
                ex.oblige(st, f"{tag}.pre.{j}", g, "call-pre", line, r)
            if self.decreases and ex.current is not None and ex.current.qual == self.qual and "__dec0" in st.ghost:
                d1 = z3ify(self.eval_spec(ex, self.decreases, cs, callee_fr))
                d0 = st.ghost["__dec0"]
                ex.oblige(st, f"{tag}.decreases", z3.And(d0 >= 0, d1 < d0), "decreases", line, self.decreases)
            # exceptional exits
            for exc, cond in self.raises.items():
                c = self.eval_spec(ex, cond, cs, callee_fr)
                if c is False:
                    continue
                cs.dec_pos = st.dec_pos
                if ex.decide(cs, c):
                    st.dec_pos = cs.dec_pos
                    raise PyRaise(exc, f"by contract of {self.short}")
                st.dec_pos = cs.dec_pos
            pre = State()
            pre.locals = copy.deepcopy(loc)
            pre.ghost = dict(st.ghost)
            pre.pc = st.pc
            # fields a constructor creates
            for pth, t in self.creates.items():
                e = parse_spec(pth)
                base = ex.ev(e.value, cs, self.spec_frame(callee_fr))
                base.fields[e.attr] = t[1] if (isinstance(t, tuple) and t[0] == "const") else make_value(ex, st, t, pth)
            # havoc the frame
            for p in self.modifies:
                ex.havoc_path(p, cs, callee_fr)
            res = None
            if self.result is not None:
                res = make_value(ex, cs, self.result, self.short + ".result")
            cs.locals["result"] = res
            cs.old = pre
            # the callee's ghost variables are existentially quantified for the caller: fresh symbols
            for gk, gv in self.ghost.items():
                try:
                    v0 = ex.ev(parse_spec(gv), cs, self.spec_frame(callee_fr))
                except (Undecided, PyRaise):
                    v0 = 0
                cs.ghost[gk] = ex.havoc_value(v0, self.short + "." + gk, st)
            for e in self.ensures:
                f = self.eval_spec(ex, e, cs, callee_fr)
                st.assume(z3ify(f))
            return cs.locals["result"]
        finally:
            st.dec_pos = max(st.dec_pos, cs.dec_pos)

    def frame(self):
        owner, mod, fn = front.find_function(self.qual)
        fr = Frame(mod, owner, fn, self.qual)
        return fr


class IterV:
    def __init__(self, items):
        self.items, self.pos = list(items), 0


class PyvcExecutor(StmtMixin, Executor):
    def __init__(self, contracts, lib, prop, shapes=None, cfg=None):
        Executor.__init__(self, contracts, lib, prop, cfg)
        self.shapes = shapes or {}
        self.worklist = []
        self.current = None
        self.top_frame = None
        self.paths = []

    # ---------------------------------------------------------------- builtins
    def call_builtin(self, n, args, kwargs, st, fr, node=None):
        if n == "len":
            v = args[0]
            if isinstance(v, Opt):
                v = self.unwrap_opt(v, st, "len")
            if isinstance(v, (list, tuple, dict, str)):
                return len(v)
            if isinstance(v, Seq):
                return v.len
            if isinstance(v, Obj):
                r = front.find_method(v.cls, "__len__")
                if r:
                    return self.call_function(r[0], r[1], r[2], [v], {}, st, fr)
            if hasattr(v, "length"):
                return v.length(self, st)
            raise Undecided(f"len() of {type(v).__name__}")
        if n == "range":
            a = list(args)
            if len(a) == 1:
                return RangeV(0, a[0], 1)
            if len(a) == 2:
                return RangeV(a[0], a[1], 1)
            return RangeV(a[0], a[1], a[2])
        if n in ("min", "max"):
            vals = list(args)
            if len(vals) == 1 and isinstance(vals[0], Seq) and is_sym(vals[0].len):
                sq = vals[0]
                k = z3.Int(fresh_name("k"))
                m = z3.Const(fresh_name(n), sq.arr.sort().range())
                rng = z3.And(k >= 0, k < z3ify(sq.len))
                if self.feasible(st, z3ify(sq.len) <= 0):
                    if self.decide(st, z3ify(sq.len) <= 0):
                        raise PyRaise("ValueError", f"{n}() arg is an empty sequence")
                st.assume(z3.ForAll([k], z3.Implies(rng, sq.arr[k] <= m if n == "max" else sq.arr[k] >= m), patterns=[sq.arr[k]]))
                st.assume(z3.Exists([k], z3.And(rng, sq.arr[k] == m)))
                return m
            if len(vals) == 1:
                vals = self.iter_concrete(vals[0], st)
            vals = [self.unwrap_opt(v, st, n) if isinstance(v, Opt) else v for v in vals]
            if all(not is_sym(v) for v in vals):
                return min(vals) if n == "min" else max(vals)
            if len(vals) == 1 and isinstance(args[0], Seq):
                raise Undecided("unreachable")
            r = z3ify(vals[0])
            for v in vals[1:]:
                r, v = self.coerce_pair(r, z3ify(v))
                # python: min(a,b) returns a unless b < a ; max(a,b) returns a unless b > a
                r = z3.If(v < r, v, r) if n == "min" else z3.If(v > r, v, r)
            return r
        if n == "abs":
            v = args[0]
            return abs(v) if not is_sym(v) else z3.If(v >= 0, v, -v)
        if n == "int":
            v = args[0]
            if isinstance(v, bool):
                return int(v)
            if isinstance(v, int):
                return v
            if isinstance(v, float) or type(v).__name__ == "Fraction":
                return int(v)
            if isinstance(v, z3.BoolRef):
                return z3.If(v, 1, 0)
            if isinstance(v, z3.ArithRef):
                if v.sort() == z3.IntSort():
                    return v
                # truncation toward zero
                return z3.If(v >= 0, z3.ToInt(v), -z3.ToInt(-v))
            if hasattr(v, "to_int"):
                return v.to_int(self, st)
            raise Undecided("int() of non-number")
        if n == "float":
            v = args[0]
            if isinstance(v, str):
                if v in ("inf", "+inf"):
                    return self.specns["INF"]
                if v == "-inf":
                    return -self.specns["INF"]
                return realval(float(v))
            if isinstance(v, (int,)):
                return z3.RealVal(v)
            if isinstance(v, z3.ArithRef):
                return z3.ToReal(v) if v.sort() == z3.IntSort() else v
            return v
        if n == "bool":
            return to_bool(args[0])
        if n == "isinstance":
            return self.isinstance(args[0], args[1], st)
        if n in ("list", "tuple"):
            if not args:
                return [] if n == "list" else ()
            v = args[0]
            items = self.try_iter_concrete(v, st)
            if items is not None:
                return list(items) if n == "list" else tuple(items)
            if isinstance(v, Seq):
                return Seq(v.len, v.arr, v.elem, v.label + ".list", v.wrap)
            if hasattr(v, "to_list"):
                return v.to_list(self, st)
            raise Undecided(f"{n}() of symbolic {type(v).__name__}")
        if n == "dict":
            d = dict(args[0]) if args else {}
            d.update(kwargs)
            return d
        if n == "slice":
            return slice(*args)
        if n == "iter":
            return IterV(self.iter_concrete(args[0], st))
        if n == "next":
            it = args[0]
            if not isinstance(it, IterV):
                raise Undecided("next() of a non-iterator")
            if it.pos >= len(it.items):
                if len(args) > 1:
                    return args[1]
                raise PyRaise("StopIteration")
            it.pos += 1
            return it.items[it.pos - 1]
        if n == "enumerate":
            return EnumV(args[0], args[1] if len(args) > 1 else kwargs.get("start", 0))
        if n == "zip":
            return ZipV(list(args))
        if n == "reversed":
            items = self.try_iter_concrete(args[0], st)
            if items is not None:
                return list(reversed(items))
            return ReversedV(args[0])
        if n == "map":
            cols = [self.iter_concrete(a, st) for a in args[1:]]
            return [self.call(args[0], list(xs), {}, st, fr, node) for xs in zip(*cols)]      # eager: map over concrete iterables
        if n == "sorted":
            items = self.iter_concrete(args[0], st)
            if all(not is_sym(x) for x in items):
                return sorted(items)
            raise Undecided("sorted() of symbolic values")
        if n in ("any", "all"):
            items = self.try_iter_concrete(args[0], st)
            if items is not None:
                bs = [to_bool(x) for x in items]
                if all(isinstance(b, bool) for b in bs):
                    return any(bs) if n == "any" else all(bs)
                bs = [z3ify(b) for b in bs]
                return z3.Or(*bs) if n == "any" else z3.And(*bs)
            v = args[0]
            if isinstance(v, Seq):
                k = z3.Int(fresh_name("q"))
                rng = z3.And(k >= 0, k < z3ify(v.len))
                b = z3ify(to_bool(v.get(k)))
                return z3.Exists([k], z3.And(rng, b)) if n == "any" else z3.ForAll([k], z3.Implies(rng, b))
            raise Undecided(f"{n}() over symbolic collection")
        if n == "sum":
            items = self.iter_concrete(args[0], st)
            r = args[1] if len(args) > 1 else 0
            for x in items:
                r = self.binop(ast.Add(), r, x, st)
            return r
        if n == "str":
            v = args[0] if args else ""
            return str(v) if isinstance(v, (str, int)) and not is_sym(v) else Opaque("str")
        if n == "print":
            return None
        if n == "getattr":
            if not isinstance(args[1], str):
                if hasattr(args[0], "getattr_dyn"):
                    return args[0].getattr_dyn(self, st, args[1], args[2:] )
                raise Undecided("getattr with symbolic name")
            try:
                return self.getattr(args[0], args[1], st, fr)
            except Undecided:
                if len(args) > 2:
                    return args[2]
                raise
        if n == "setattr":
            if not isinstance(args[1], str):
                if hasattr(args[0], "setattr_dyn"):
                    return args[0].setattr_dyn(self, st, args[1], args[2])
                raise Undecided("setattr with symbolic name")
            self.setattr(args[0], args[1], args[2], st, fr)
            return None
        if n == "hasattr":
            o = args[0]
            if isinstance(o, Obj) and isinstance(args[1], str):
                if args[1] in o.fields:
                    return True
                return front.find_method(o.cls, args[1]) is not None if o.cls.startswith("agilerl") else False
            if hasattr(o, "hasattr"):
                return o.hasattr(self, st, args[1])
            raise Undecided("hasattr")
        if n == "type":
            v = args[0]
            if isinstance(v, Obj):
                return FuncRef(v.cls)
            if hasattr(v, "pytype"):
                return v.pytype(self, st)          # model object that knows its (callable) class
            return Opaque("type")
        if n == "callable":
            return isinstance(args[0], (Fn, BoundMethod, Closure, FuncRef))
        if n == "round":
            raise Undecided("round()")
        if n == "id":
            return id(args[0])
        if n == "set":
            items = self.iter_concrete(args[0], st) if args else []
            if all(not is_sym(x) for x in items):
                out = []
                for x in items:
                    if x not in out:
                        out.append(x)
                return out
            raise Undecided("set() of symbolic values")
        if n[0].isupper():
            return Opaque("exc:" + n)
        raise Undecided(f"builtin {n} at line {getattr(node, 'lineno', '?')}")

    def isinstance(self, v, t, st):
        ts = t if isinstance(t, tuple) else (t,)
        names = []
        for x in ts:
            if isinstance(x, ModRef):
                names.append(x.dotted.split(".")[-1])
            elif isinstance(x, FuncRef):
                names.append(x.qual)
            else:
                names.append(str(x))
        if hasattr(v, "isinstance"):
            return v.isinstance(self, st, names)
        for nm in names:
            if nm == "type" and isinstance(v, (ModRef, FuncRef)):
                return True
            if nm == "bool" and (isinstance(v, (bool, z3.BoolRef))):
                return True
            if nm in ("int", "integer") and ((isinstance(v, int) and not isinstance(v, bool)) or (isinstance(v, z3.ArithRef) and v.sort() == z3.IntSort())):
                return True
            if nm == "int" and isinstance(v, bool):
                return True
            if nm == "floating" and (isinstance(v, z3.ArithRef) and v.sort() == z3.RealSort()):
                return True
            if nm == "float" and (isinstance(v, z3.ArithRef) and v.sort() == z3.RealSort()):
                return True
            if nm in ("Number",) and (isinstance(v, (int, z3.ArithRef))):
                return True
            if nm == "str" and isinstance(v, str):
                return True
            if nm == "list" and isinstance(v, (list, Seq)):
                return True
            if nm == "tuple" and isinstance(v, tuple):
                return True
            if nm == "dict" and isinstance(v, dict):
                return True
            if isinstance(v, Obj) and nm.startswith("agilerl") and nm in front.mro(v.cls):
                return True
        if isinstance(v, (Obj, bool, int, str, list, tuple, dict, Seq)) or is_sym(v) or v is None:
            return False
        if all(nm in ("list", "dict", "tuple", "str", "int", "float", "bool", "set") for nm in names):
            return False          # a model object is none of the builtin containers / scalars
        if type(v).__module__.startswith("contracts.") and not isinstance(v, (ModRef, FuncRef, Opaque)):
            return False          # a model object that does not claim the class (no `isinstance` method) is not an instance of it
        raise Undecided(f"isinstance({type(v).__name__}, {names})")

    # ---------------------------------------------------------------- verification of one function
    def verify(self, c, budget_paths=400):
        """Generate all obligations of contract c against the real body of its function."""
        self.current = c
        owner, mod, fn = front.find_function(c.qual)
        tag = f"{self.prop}.{c.short}"
        self.worklist = [[]]
        npaths = 0
        returns = 0
        seen = set()
        first_pre = None
        while self.worklist:
            prefix = self.worklist.pop()
            npaths += 1
            if npaths > budget_paths:
                raise Undecided(f"path budget exceeded in {c.qual}")
            reset_fresh()
            st = State()
            st.dec_list = list(prefix)
            fr = Frame(mod, owner, fn, c.qual)
            for inl in c.inline:
                fr.force_inline = inl
            self.top_frame = fr
            mark = len(self.obligs)
            try:
                self.build_pre(c, st, fr, fn)
                if first_pre is None:
                    first_pre = self.pre_info
                body = front.strip_doc(fn.body)
                if c.region:
                    body = c.region(body)
                r = self.exec_block(body, st, fr)
            except PathEnd:
                self.paths.append((c.short, "".join("T" if d else "F" for d in st.dec_list), "cut"))
                self.rename_path_obligs(mark, st)
                continue
            except PyRaise as e:
                r = (RAISE, (e.exc, e.msg, None))
            sig = "".join("T" if d else "F" for d in st.dec_list) or "-"
            self.rename_path_obligs(mark, st)
            self.paths.append((c.short, sig, r[0]))
            if r[0] in (NORMAL, RETURN):
                returns += 1
                st.locals["result"] = r[1] if r[0] == RETURN else None
                for gs in c.ghost_exit:
                    c.exec_ghost(self, gs, st, fr)
                for j, e in enumerate(c.ensures):
                    g = c.eval_spec(self, e, st, fr)
                    self.oblige(st, f"{tag}.post.{j}@{sig}", g, "post", None, e)
                if c.raises_iff:
                    for exc, cond in c.raises.items():
                        g = c.eval_spec(self, cond, st.old, fr)
                        g = (not g) if isinstance(g, bool) else z3.Not(g)
                        self.oblige(st, f"{tag}.must-raise.{exc}@{sig}", g, "raises", None, cond)
                self.frame_obligs(c, st, fr, tag, sig)
            elif r[0] == RAISE:
                exc, msg, line = r[1]
                if exc in c.raises:
                    g = c.eval_spec(self, c.raises[exc], st.old, fr)
                    self.oblige(st, f"{tag}.raise-allowed.{exc}@{sig}", g, "raises", line, c.raises[exc])
                    for j, e in enumerate(c.ensures_raise.get(exc, [])):
                        g = c.eval_spec(self, e, st, fr)
                        self.oblige(st, f"{tag}.raise-post.{exc}.{j}@{sig}", g, "raises", line, e)
                else:
                    self.oblige(st, f"{tag}.no-raise.{exc}@L{line}:{sig}", False, "no-raise", line,
                                f"path must be infeasible: raises {exc} {msg}")
            else:
                raise Undecided(f"{r[0]} escaped function body of {c.qual}")
        # vacuity guards (DESIGN 3.2): precondition satisfiable; at least one normal exit path is feasible
        self.vacuity.append((tag, first_pre, returns if not any(v == 'True' for v in c.raises.values()) else max(returns, 1)))
        self.current = None
        return npaths

    vacuity = []

    def rename_path_obligs(self, mark, st):
        sig = "".join("T" if d else "F" for d in st.dec_list) or "-"
        for o in self.obligs[mark:]:
            if "@" not in o.name:
                o.name += "@" + sig

    def build_pre(self, c, st, fr, fn):
        a = fn.args
        names = [x.arg for x in a.posonlyargs + a.args + a.kwonlyargs]
        if c.setup is not None:
            c.setup(self, st, fr)
        for n in names:
            if n in st.locals:
                continue
            if n in c.params:
                st.locals[n] = make_value(self, st, c.params[n], n)
            else:
                # default value if any
                params = [x.arg for x in a.posonlyargs + a.args]
                dparams = params[len(params) - len(a.defaults):] if a.defaults else []
                if n in dparams:
                    st.locals[n] = self.ev(a.defaults[dparams.index(n)], State(), fr)
                else:
                    kws = [x.arg for x in a.kwonlyargs]
                    if n in kws and a.kw_defaults[kws.index(n)] is not None:
                        st.locals[n] = self.ev(a.kw_defaults[kws.index(n)], State(), fr)
                    else:
                        raise Undecided(f"contract for {c.qual} does not declare parameter '{n}'")
        for n, t in c.params.items():
            if n not in st.locals:
                st.locals[n] = make_value(self, st, t, n)  # extra declared locals (regions)
        for k, v in c.ghost.items():
            st.ghost[k] = self.ev(parse_spec(v), st, c.spec_frame(fr))
        for k, v in c.lets.items():
            st.locals[k] = self.ev(parse_spec(v), st, c.spec_frame(fr))
        for ax in c.axioms:
            st.pc.append(ax)        # revealed definitions local to this function's proof
        n_before = len(st.pc)
        reqs = []
        for r in c.requires:
            g = z3ify(c.eval_spec(self, r, st, fr))
            reqs.append(g)
            st.assume(g)
        self.pre_info = {"pc": list(st.pc), "witness": None}
        if c.witness is not None:
            eqs = []
            for path, val in c.witness.items():
                if path.startswith("fact:"):
                    eqs.append(z3ify(c.eval_spec(self, val, st, fr)))
                    continue
                cur = self.ev(parse_spec(path), st, c.spec_frame(fr))
                eqs.append(self.witness_eq(cur, val))
            self.pre_info = {"pc": list(st.pc), "witness": st.pc[:n_before] + eqs, "goal": conj(reqs),
                             "witness_text": {k: str(v) for k, v in c.witness.items()}}
        for gs in c.ghost_entry:
            c.exec_ghost(self, gs, st, fr)
        if c.decreases:
            st.ghost["__dec0"] = z3ify(c.eval_spec(self, c.decreases, st, fr))
        old = State()
        old.locals = copy.deepcopy(st.locals)
        old.ghost = dict(st.ghost)
        old.pc = st.pc
        st.old = old

    def witness_eq(self, cur, val):
        if isinstance(cur, Seq):
            s = sort_of(cur.elem)
            arr = z3.K(z3.IntSort(), z3.RealVal(0) if s == z3.RealSort() else z3.IntVal(0) if s == z3.IntSort() else z3.BoolVal(False))
            for i, x in enumerate(val):
                arr = z3.Store(arr, i, z3.RealVal(str(x)) if s == z3.RealSort() else x)
            return z3.And(z3ify(cur.len) == len(val), cur.arr == arr)
        if isinstance(cur, Opt):
            if val is None:
                return cur.isnone
            return z3.And(z3.Not(cur.isnone), self.witness_eq(cur.val, val))
        if hasattr(cur, "witness_eq"):
            return cur.witness_eq(self, val)
        if callable(val):
            return val(cur)
        cz = z3ify(cur)
        if isinstance(cz, z3.ArithRef) and cz.sort() == z3.RealSort():
            return cz == z3.RealVal(str(val))
        return cz == val

    def frame_obligs(self, c, st, fr, tag, sig):
        """Fields of `self` not listed in modifies must be unchanged (frame condition)."""
        if "self" not in st.locals or not isinstance(st.locals["self"], Obj) or c.frame_fields is False:
            return
        new, old = st.locals["self"], st.old.locals["self"]
        mods = set(c.modifies)
        self.frame_rec(new, old, "self", mods, st, tag, sig, 0)

    def frame_rec(self, new, old, path, mods, st, tag, sig, depth):
        for f, ov in old.fields.items():
            p = path + "." + f
            if p in mods:
                continue
            nv = new.fields.get(f)
            if isinstance(ov, Obj) and isinstance(nv, Obj) and depth < 3:
                self.frame_rec(nv, ov, p, mods, st, tag, sig, depth + 1)
                continue
            g = self.same_value(nv, ov)
            if g is True:
                continue
            self.oblige(st, f"{tag}.frame.{p}@{sig}", g, "frame", None, f"{p} not in modifies: must be unchanged")

    def same_value(self, a, b):
        if isinstance(a, Seq) and isinstance(b, Seq):
            la, lb = z3ify(a.len), z3ify(b.len)
            if a.arr.eq(b.arr) and la.eq(lb):
                return True
            return z3.And(la == lb, a.arr == b.arr)
        if isinstance(a, Opt) and isinstance(b, Opt):
            x = self.same_value(a.val, b.val)
            if a.isnone.eq(b.isnone) and x is True:
                return True
            return z3.And(a.isnone == b.isnone, z3.Or(a.isnone, z3ify(x)))
        if is_sym(a) or is_sym(b):
            if a is None or b is None or isinstance(a, (Obj, Seq)) or isinstance(b, (Obj, Seq)):
                return False
            a, b = z3ify(a), z3ify(b)
            if a.eq(b):
                return True
            if a.sort() != b.sort():
                a, b = self.coerce_pair(a, b)
            return a == b
        if hasattr(a, "same_value"):
            return a.same_value(self, b)
        if isinstance(a, (Fn, BoundMethod, Closure, FuncRef, ModRef, Opaque)):
            return True
        try:
            return bool(a == b)
        except Exception:
            return a is b
