"""Encoding cross-check (translation validation of the executor, DESIGN I.2 / plan 3.3).

For functions whose inputs can be given concretely, the *same real source* is run (i) by pyvc's executor on concrete values
(no symbols: the executor is then an interpreter) and (ii) by CPython on the real objects; results and final object fields must
agree.  A disagreement is a checker fault (exit 3), never a property violation.
"""
import json
import os
import random
import subprocess
import sys
from fractions import Fraction

import z3

HERE = os.path.dirname(os.path.dirname(os.path.abspath(__file__)))
sys.path.insert(0, HERE)
from pyvc import front                                   # noqa: E402
from pyvc.contract import PyvcExecutor                   # noqa: E402
from pyvc.execu import Frame, State                      # noqa: E402
from pyvc.values import Fn, ModRef, Obj, PathEnd, PyRaise, Undecided   # noqa: E402


def to_py(v):
    if isinstance(v, z3.ExprRef):
        v = z3.simplify(v)
        if z3.is_int_value(v):
            return v.as_long()
        if z3.is_rational_value(v):
            return float(Fraction(v.numerator_as_long(), v.denominator_as_long()))
        if z3.is_true(v):
            return True
        if z3.is_false(v):
            return False
        return str(v)
    if isinstance(v, Fraction):
        return float(v)
    if isinstance(v, (list, tuple)):
        return [to_py(x) for x in v]
    if isinstance(v, dict):
        return {k: to_py(x) for k, x in v.items()}
    if isinstance(v, (Fn, ModRef)):
        return "<callable>"
    return v


def run_executor(case):
    lib = {}
    draws = list(case.get("draws", []))

    class Drawn:
        def __init__(self, v):
            self.v = v

        def getattr(self, ex, st, name):
            if name == "item":
                return Fn(model=lambda ex, st, a, k: z3.RealVal(str(self.v)), name="item")
            raise Undecided(name)

    def nxt(ex, st, a, k):
        return Drawn(draws.pop(0))
    for name in case.get("stubs", []):
        lib[name] = nxt
    if "operator.add" in case.get("libs", []):
        lib["operator.add"] = lambda ex, st, a, k: a[0] + a[1]
    ex = PyvcExecutor({}, lib, "xcheck", {})
    ex.specns = {"INF": z3.RealVal(10 ** 30)}
    owner, mod, fn = front.find_function(case["qual"])
    st = State()
    o = Obj(case["cls"], label="self")
    for k, v in case["fields"].items():
        o.fields[k] = list(v) if isinstance(v, list) else (ModRef(v[4:]) if isinstance(v, str) and v.startswith("ref:") else v)
    st.locals["self"] = o
    for k, v in case["args"].items():
        st.locals[k] = v
    fr = Frame(mod, owner, fn, case["qual"])
    ex.top_frame = fr
    ex.worklist = []
    try:
        r = ex.exec_block(front.strip_doc(fn.body), st, fr)
    except PyRaise as e:
        r = ("raise", (e.exc, "", None))
    out = {"outcome": r[0] if r[0] != "normal" else "return", "result": to_py(r[1]) if r[0] == "return" else (r[1][0] if r[0] == "raise" else None),
           "fields": {k: to_py(v) for k, v in o.fields.items() if k in case["fields"] and not (isinstance(v, (Fn, ModRef)))}}
    if ex.worklist:
        raise Undecided("symbolic branch during a concrete run")
    return out


def cases(seed, n):
    rnd = random.Random(seed)
    ST = "agilerl.components.segment_tree."
    out = []
    for _ in range(n):
        cap = rnd.choice([1, 2, 4, 8])
        leaves = [rnd.randint(0, 9) for _ in range(cap)]
        tree = [0] * (2 * cap)
        for i, x in enumerate(leaves):
            tree[cap + i] = x
        for i in range(cap - 1, 0, -1):
            tree[i] = tree[2 * i] + tree[2 * i + 1]
        f = {"capacity": cap, "tree": tree, "operation": "ref:operator.add"}
        out.append(dict(qual=ST + "SegmentTree.__setitem__", cls=ST + "SumSegmentTree", fields=f, args={"idx": rnd.randrange(cap), "val": rnd.randint(0, 20)}, libs=["operator.add"]))
        if sum(leaves) > 0:
            out.append(dict(qual=ST + "SumSegmentTree.retrieve", cls=ST + "SumSegmentTree", fields=f, args={"upperbound": rnd.randrange(sum(leaves))}, libs=["operator.add"]))
        s = rnd.randrange(cap)
        e = rnd.randrange(s, cap)
        out.append(dict(qual=ST + "SegmentTree._operate_helper", cls=ST + "SumSegmentTree", fields=f,
                        args={"start": s, "end": e, "node": 1, "node_start": 0, "node_end": cap - 1}, libs=["operator.add"]))
        out.append(dict(qual=ST + "SegmentTree.operate", cls=ST + "SumSegmentTree", fields=f, args={"start": s, "end": rnd.choice([0, e + 1 if e + 1 < cap else 0])}, libs=["operator.add"]))
        out.append(dict(qual=ST + "SegmentTree.__getitem__", cls=ST + "SumSegmentTree", fields=f, args={"idx": rnd.randrange(-1, cap + 1)}, libs=["operator.add"]))
        # integer-valued hyper-parameter mutation (exact in floats)
        lo = rnd.choice([1, 2, 8])
        hi = lo * rnd.choice([1, 4, 64])
        out.append(dict(qual="agilerl.algorithms.core.registry.RLParameter.mutate", cls="agilerl.algorithms.core.registry.RLParameter",
                        fields={"min": lo, "max": hi, "shrink_factor": rnd.choice([0.5, 0.25]), "grow_factor": rnd.choice([2, 4]), "dtype": "ref:builtins.int",
                                "value": rnd.randint(lo, hi)}, args={}, stubs=["torch.rand"], draws=[rnd.choice([0.25, 0.75])]))
        ts = "agilerl.hpo.tournament.TournamentSelection"
        out.append(dict(qual=ts + ".__init__", cls=ts, fields={}, args={"tournament_size": rnd.randint(0, 3), "elitism": True, "population_size": rnd.randint(0, 3),
                                                                       "eval_loop": rnd.randint(0, 2)}))
    return out


def run(seed=0, n=25):
    cs = cases(seed, n)
    mine = []
    skipped = 0
    for c in cs:
        try:
            mine.append(run_executor(c))
        except (Undecided, PathEnd) as e:
            mine.append({"outcome": "undecided", "detail": str(e)})
            skipped += 1
    env = dict(os.environ, PYTHONPATH=front.REPO)
    p = subprocess.run(["/venv/bin/python", os.path.join(HERE, "replays", "run.py"), "xcheck:native"], input=json.dumps({"cases": cs, "budget_s": 200}),
                       capture_output=True, text=True, cwd=front.REPO, env=env, timeout=300)
    line = [ln for ln in p.stdout.strip().splitlines() if ln.startswith("{")][-1]
    theirs = json.loads(line)["results"]
    bad = []
    for c, a, b in zip(cs, mine, theirs):
        if a.get("outcome") == "undecided":
            continue
        same = a["outcome"] == b["outcome"] and (a["outcome"] != "return" or a["result"] == b["result"]) and \
            (a["outcome"] != "raise" or a["result"] == b["result"]) and all(a["fields"].get(k) == b["fields"].get(k) for k in a["fields"])
        if not same:
            bad.append({"case": c, "executor": a, "cpython": b})
    return {"programs": len(cs) - skipped, "disagreements": len(bad), "skipped": skipped, "first_disagreement": bad[:1]}


if __name__ == "__main__":
    r = run(int(os.environ.get("VERIF_SEED", "0")))
    print(json.dumps(r, default=str)[:2000])
    sys.exit(3 if r["disagreements"] else 0)
