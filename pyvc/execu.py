"""Forward symbolic executor over the real Python AST (DESIGN.md 2.7)."""
import ast
import copy
from fractions import Fraction

import z3

from . import front
from .values import (BoundMethod, Closure, Fn, FuncRef, ModRef, Obj, Opaque, Opt, PathEnd, PyRaise, Seq,
                     Undecided, fresh, fresh_name, is_sym, realval, sort_of)

NORMAL, RETURN, RAISE, BREAK, CONTINUE = "normal", "return", "raise", "break", "continue"


class State:
    def __init__(self):
        self.locals = {}
        self.pc = []          # path condition (list of z3 Bool)
        self.dec_list = []    # decisions of this path (replayed prefix + fresh choices)
        self.dec_pos = 0
        self.ghost = {}
        self.old = None       # snapshot State at function entry (for old(...))
        self.ret = None
        self.exc = None
        self.trace = []       # human-readable branch trace (line numbers)
        self.extra = {}       # per-path scratch (models may use it)

    def assume(self, f):
        if f is True:
            return
        if f is False:
            f = z3.BoolVal(False)
        if z3.is_and(f):
            for ch in f.children():
                self.assume(ch)
            return
        self.pc.append(f)


class Frame:
    """Static context of the function being executed."""

    def __init__(self, mod, cls, fn, qual, depth=0):
        self.mod = mod      # front.Module
        self.cls = cls      # owner class qual or None
        self.fn = fn
        self.qual = qual
        self.depth = depth
        self.loop_ordinal = 0


class Obligation:
    def __init__(self, name, assumptions, goal, kind, line=None, note=""):
        self.name = name
        self.assumptions = list(assumptions)
        self.goal = goal
        self.kind = kind
        self.line = line
        self.note = note
        self.result = None
        self.backend = None
        self.seconds = 0.0
        self.model = None
        self.reason = ""


def to_bool(v):
    """Truthiness as a python bool or z3 Bool; NeedFork-free for scalars."""
    if isinstance(v, bool):
        return v
    if v is None:
        return False
    if isinstance(v, z3.BoolRef):
        return v
    if isinstance(v, z3.ArithRef):
        return v != 0
    if isinstance(v, (int, Fraction)):
        return v != 0
    if isinstance(v, (str, tuple, list, dict)):
        return len(v) > 0
    if isinstance(v, Seq):
        return v.len > 0 if is_sym(v.len) else v.len > 0
    if isinstance(v, Opt):
        inner = to_bool(v.val)
        if inner is True:
            return z3.Not(v.isnone)
        return z3.And(z3.Not(v.isnone), inner)
    if hasattr(v, "truth"):
        return v.truth()
    return True


def z3ify(v):
    if isinstance(v, bool):
        return z3.BoolVal(v)
    if isinstance(v, int):
        return z3.IntVal(v)
    if isinstance(v, Fraction):
        return z3.RealVal(str(v))
    if isinstance(v, float):
        return realval(v)
    return v


def conj(xs):
    xs = [x for x in xs if x is not True]
    if any(x is False for x in xs):
        return z3.BoolVal(False)
    if not xs:
        return z3.BoolVal(True)
    return z3.And(*[z3ify(x) for x in xs]) if len(xs) > 1 else z3ify(xs[0])


def floordiv(a, b):
    if not is_sym(a) and not is_sym(b):
        return a // b
    a, b = z3ify(a), z3ify(b)
    if a.sort() == z3.RealSort() or b.sort() == z3.RealSort():
        raise Undecided("floor division on reals")
    if z3.is_int_value(b):
        if b.as_long() > 0:
            return a / b
        return (-a) / (-b)
    return z3.If(b > 0, a / b, (-a) / (-b))


_hq = {}


def has_quant(f):
    k = f.get_id()
    if k in _hq:
        return _hq[k]
    r = False
    stack = [f]
    seen = set()
    while stack:
        x = stack.pop()
        if x.get_id() in seen:
            continue
        seen.add(x.get_id())
        if z3.is_quantifier(x):
            r = True
            break
        stack.extend(x.children())
    _hq[k] = r
    return r


def flatten_and(g):
    """Split a goal into independently provable pieces (all splits are equivalences):
    A ∧ B;  ∀x.(G ⇒ A ∧ B);  ∀x.(G ⇒ ite(c, A, B))."""
    if z3.is_and(g):
        out = []
        for ch in g.children():
            out.extend(flatten_and(ch))
        return out
    if z3.is_quantifier(g) and g.is_forall() and g.num_patterns() >= 0:
        n = g.num_vars()
        body = g.body()
        pieces = split_body(body)
        if len(pieces) > 1 and len(pieces) <= 24:
            names = [g.var_name(i) for i in range(n)]
            sorts = [g.var_sort(i) for i in range(n)]
            consts = [z3.Const(f"{names[i]}!s", sorts[i]) for i in range(n)]
            out = []
            for pc in pieces:
                inst = z3.substitute_vars(pc, *reversed(consts))
                out.append(z3.ForAll(consts, inst))
            return out
    return [g]


def split_body(b, guard=None):
    """body -> list of bodies whose conjunction is equivalent."""
    def mk(gd, x):
        return x if gd is None else z3.Implies(gd, x)

    def conj2(a, c):
        return c if a is None else z3.And(a, c)
    if z3.is_implies(b):
        g2, rhs = b.children()
        return split_body(rhs, conj2(guard, g2))
    if z3.is_and(b):
        out = []
        for ch in b.children():
            out.extend(split_body(ch, guard))
        return out
    if z3.is_app(b) and b.decl().kind() == z3.Z3_OP_ITE and b.sort() == z3.BoolSort():
        c, x, y = b.children()
        return split_body(x, conj2(guard, c)) + split_body(y, conj2(guard, z3.Not(c)))
    return [mk(guard, b)]


class Executor:
    def __init__(self, contracts, lib, prop="C??", cfg=None):
        self.contracts = contracts   # qual -> Contract
        self.lib = lib               # dotted -> model callable
        self.prop = prop
        self.obligs = []
        self.axioms = []             # global axioms (spec functions)
        self.specns = {}             # names visible to spec expressions
        self.cfg = cfg or {}
        self.notes = []
        self.inline_log = []
        self.current_contract = None
        self._fs = z3.Solver()
        self._fs.set("timeout", 2000)

    # ------------------------------------------------------------------ solver helpers
    def feasible(self, st, extra=None):
        """May this path (plus `extra`) be feasible?  Only the quantifier-free part of the path condition is
        consulted (an over-approximation: a path is pruned only when that part is already unsatisfiable;
        obligations on an infeasible path that was not pruned hold vacuously and are discharged by the full solver)."""
        s = self._fs
        s.push()
        try:
            for p in st.pc:
                if not has_quant(p):
                    s.add(p)
            if extra is not None and not has_quant(extra):
                s.add(extra)
            r = s.check()
        finally:
            s.pop()
        return r != z3.unsat

    def oblige(self, st, name, goal, kind, line=None, note=""):
        if goal is True:
            goal = z3.BoolVal(True)
        if goal is False:
            goal = z3.BoolVal(False)
        goals = flatten_and(goal)
        for gi, g in enumerate(goals):
            nm = name if len(goals) == 1 else (name.split("@")[0] + f".c{gi}" + ("@" + name.split("@")[1] if "@" in name else ""))
            o = Obligation(nm, list(st.pc), g, kind, line, note if len(goals) == 1 else f"{note} [conjunct {gi}: {str(g)[:120]}]")
            o.contract = getattr(self, "current", None)
            self.obligs.append(o)

    def decide(self, st, cond):
        """Return a python bool for a truth value.  Symbolic conditions are resolved by the path's decision
        list (re-execution based exploration, see Driver.explore): recorded decisions are replayed without
        solver calls; a fresh choice takes True first and queues the False alternative."""
        cond = self.obj_truth(cond, st)
        c = to_bool(cond)
        if isinstance(c, bool):
            return c
        c = z3.simplify(c)
        if z3.is_true(c):
            return True
        if z3.is_false(c):
            return False
        if st.dec_pos < len(st.dec_list):
            d = st.dec_list[st.dec_pos]
            st.dec_pos += 1
        else:
            can_t = self.feasible(st, c)
            can_f = self.feasible(st, z3.Not(c))
            if not can_t and not can_f:
                raise PathEnd("infeasible")
            if can_t and can_f:
                self.worklist.append(list(st.dec_list) + [False])
                d = True
            else:
                d = can_t
            st.dec_list.append(d)
            st.dec_pos += 1
        st.assume(c if d else z3.Not(c))
        return d

    def obj_truth(self, cond, st):
        """Truthiness of repo objects goes through their __bool__ / __len__ (real code, inlined)."""
        if isinstance(cond, Obj) and cond.cls.startswith("agilerl"):
            for dn in ("__bool__", "__len__"):
                r = front.find_method(cond.cls, dn)
                if r is not None:
                    return self.call_function(r[0], r[1], r[2], [cond], {}, st, self.top_frame)
        return cond

    # ------------------------------------------------------------------ name resolution
    def resolve_global(self, fr, name):
        m = fr.mod
        if name in m.classes:
            return FuncRef(m.modname + "." + name)
        if name in m.funcs:
            return FuncRef(m.modname + "." + name)
        if name in m.imports:
            d = m.imports[name]
            if d.startswith("agilerl"):
                try:
                    modname, rest = front.split_qual(d)
                    if not rest:
                        return ModRef(d)
                    mm = front.module(modname)
                    if rest[0] in mm.imports and rest[0] not in mm.classes and rest[0] not in mm.funcs:
                        return ModRef(mm.imports[rest[0]]) if not mm.imports[rest[0]].startswith("agilerl") \
                            else FuncRef(mm.imports[rest[0]])
                    return FuncRef(d)
                except front.ExtractError:
                    return ModRef(d)
            return ModRef(d)
        if name in m.consts:
            return self.ev(m.consts[name], State(), fr)
        return None

    BUILTINS = {"len", "range", "min", "max", "int", "float", "abs", "isinstance", "list", "tuple", "enumerate",
                "zip", "reversed", "sum", "any", "all", "bool", "str", "print", "getattr", "setattr", "hasattr",
                "super", "sorted", "dict", "type", "set", "callable", "round", "iter", "next", "id", "map",
                "slice", "ValueError", "AssertionError", "TypeError", "KeyError", "RuntimeError", "IndexError",
                "AttributeError", "Exception", "NotImplementedError", "TimeoutError", "StopIteration"}

    # ------------------------------------------------------------------ expressions
    def ev(self, node, st, fr):
        m = getattr(self, "ev_" + type(node).__name__, None)
        if m is None:
            raise Undecided(f"unsupported expression {type(node).__name__} at line {getattr(node, 'lineno', '?')}")
        return m(node, st, fr)

    def ev_Constant(self, node, st, fr):
        v = node.value
        if isinstance(v, float):
            return realval(v)
        return v

    def ev_Name(self, node, st, fr):
        n = node.id
        if n in st.locals:
            return st.locals[n]
        if n in st.ghost:
            return st.ghost[n]
        if fr is not None and getattr(fr, "specmode", False) and n in self.specns:
            return self.specns[n]
        if fr is not None and fr.mod is not None:
            g = self.resolve_global(fr, n)
            if g is not None:
                return g
        if n in self.specns:
            return self.specns[n]
        if n in self.BUILTINS:
            return ModRef("builtins." + n)
        raise Undecided(f"unbound name '{n}' at line {getattr(node, 'lineno', '?')} in {fr.qual if fr else '?'}")

    def ev_Tuple(self, node, st, fr):
        out = []
        for e in node.elts:
            if isinstance(e, ast.Starred):
                out.extend(self.iter_concrete(self.ev(e.value, st, fr), st))
            else:
                out.append(self.ev(e, st, fr))
        return tuple(out)

    def ev_List(self, node, st, fr):
        return list(self.ev_Tuple(node, st, fr))

    def ev_Dict(self, node, st, fr):
        d = {}
        for k, v in zip(node.keys, node.values):
            if k is None:
                d.update(self.ev(v, st, fr))
            else:
                d[self.ev(k, st, fr)] = self.ev(v, st, fr)
        return d

    def ev_JoinedStr(self, node, st, fr):
        parts = []
        for v in node.values:
            if isinstance(v, ast.Constant):
                parts.append(v.value)
            else:
                x = self.ev(v.value, st, fr)
                if isinstance(x, (str, int)) and not isinstance(x, bool):
                    parts.append(str(x))
                else:
                    return Opaque("fstring")
        return "".join(parts)

    def ev_Lambda(self, node, st, fr):
        return Closure(node, dict(st.locals), fr.mod, fr.cls)

    def ev_UnaryOp(self, node, st, fr):
        v = self.ev(node.operand, st, fr)
        if isinstance(node.op, ast.Not):
            b = to_bool(self.obj_truth(v, st))
            return (not b) if isinstance(b, bool) else z3.Not(b)
        if isinstance(node.op, ast.USub):
            return -v
        if isinstance(node.op, ast.UAdd):
            return v
        if isinstance(node.op, ast.Invert):
            if hasattr(v, "invert"):
                return v.invert(self, st)                   # model object (e.g. ~bool_tensor)
            if isinstance(v, bool):
                return not v
            if isinstance(v, z3.BoolRef):
                return z3.Not(v)
            if isinstance(v, int):
                return ~v
        raise Undecided("unary op")

    def ev_BoolOp(self, node, st, fr):
        is_and = isinstance(node.op, ast.And)
        vals = []
        for i, e in enumerate(node.values):
            v = self.ev_guarded(e, st, fr, vals, is_and)
            if isinstance(v, bool) or isinstance(v, z3.BoolRef):
                if isinstance(v, bool):
                    if is_and and not v:
                        return conj(vals + [False]) if vals else False
                    if (not is_and) and v:
                        return z3.Or(*[z3ify(x) for x in vals], z3.BoolVal(True)) if vals else True
                    continue
                vals.append(v)
            else:
                # operand-returning semantics for non-boolean operands
                if vals:
                    raise Undecided("mixed boolean / value operands in and/or")
                t = self.decide(st, v)
                last = i == len(node.values) - 1
                if last:
                    return v
                if is_and and not t:
                    return v
                if (not is_and) and t:
                    return v
        if not vals:
            return is_and
        if len(vals) == 1:
            return vals[0]
        return z3.And(*vals) if is_and else z3.Or(*vals)

    def ev_guarded(self, e, st, fr, prev, is_and):
        """Evaluate operand e of a short-circuit operator under the assumption of the previous operands
        (so that e.g. `x is not None and x.f > 0` does not evaluate x.f on the None path)."""
        if not prev:
            return self.ev(e, st, fr)
        guard = z3.And(*prev) if is_and else z3.Not(z3.Or(*prev))
        st.pc.append(guard)
        try:
            return self.ev(e, st, fr)
        finally:
            st.pc.pop()

    def ev_IfExp(self, node, st, fr):
        c = to_bool(self.ev(node.test, st, fr))
        if isinstance(c, bool):
            return self.ev(node.body if c else node.orelse, st, fr)
        c = z3.simplify(c)
        if z3.is_true(c):
            return self.ev(node.body, st, fr)
        if z3.is_false(c):
            return self.ev(node.orelse, st, fr)
        if self.pure_scalar_expr(node.body) and self.pure_scalar_expr(node.orelse):
            st.pc.append(c)
            try:
                a = self.ev(node.body, st, fr)
            finally:
                st.pc.pop()
            st.pc.append(z3.Not(c))
            try:
                b = self.ev(node.orelse, st, fr)
            finally:
                st.pc.pop()
            if self.scalar(a) and self.scalar(b):
                a, b = self.coerce_pair(z3ify(a), z3ify(b))
                return z3.If(c, a, b)
            return a if self.decide(st, c) else b          # arms are side-effect free: branch instead of merging
        if self.decide(st, c):
            return self.ev(node.body, st, fr)
        return self.ev(node.orelse, st, fr)

    def pure_scalar_expr(self, n):
        """Syntactic test: expression has no calls except in spec mode helper/uninterpreted functions (so evaluating both arms has
        no side effects)."""
        for x in ast.walk(n):
            if isinstance(x, ast.Call):
                f = x.func
                if isinstance(f, ast.Name) and (f.id in self.specns or f.id in ("old", "min", "max", "abs", "len", "int", "float")):
                    continue
                if isinstance(f, ast.Attribute) and isinstance(f.value, ast.Name) and f.value.id == "self" and f.attr == "operation":
                    continue
                return False
            if isinstance(x, (ast.ListComp, ast.GeneratorExp, ast.Lambda, ast.IfExp)) and x is not n:
                return False
        return True

    @staticmethod
    def scalar(v):
        return isinstance(v, (bool, int, Fraction, z3.ArithRef, z3.BoolRef)) or \
            (isinstance(v, z3.ExprRef) and not z3.is_array(v))

    @staticmethod
    def coerce_pair(a, b):
        if isinstance(a, z3.ArithRef) and isinstance(b, z3.ArithRef) and a.sort() != b.sort():
            if a.sort() == z3.IntSort():
                a = z3.ToReal(a)
            if b.sort() == z3.IntSort():
                b = z3.ToReal(b)
        return a, b

    def ev_Compare(self, node, st, fr):
        left = self.ev(node.left, st, fr)
        res = []
        for op, rn in zip(node.ops, node.comparators):
            right = self.ev(rn, st, fr)
            res.append(self.compare(op, left, right, st, fr))
            left = right
        if len(res) == 1:
            return res[0]
        if all(isinstance(r, bool) for r in res):
            return all(res)
        return conj(res)

    def compare(self, op, a, b, st, fr):
        if isinstance(op, (ast.Is, ast.IsNot)):
            r = self.is_same(a, b)
            if isinstance(op, ast.IsNot):
                r = (not r) if isinstance(r, bool) else z3.Not(r)
            return r
        if isinstance(op, (ast.In, ast.NotIn)):
            r = self.contains(b, a, st, fr)
            if isinstance(op, ast.NotIn):
                r = (not r) if isinstance(r, bool) else z3.Not(r)
            return r
        if hasattr(a, "compare"):
            return a.compare(self, st, op, b, False)
        if hasattr(b, "compare"):
            return b.compare(self, st, op, a, True)
        if isinstance(a, Opt):
            a = self.unwrap_opt(a, st, "comparison")
        if isinstance(b, Opt):
            b = self.unwrap_opt(b, st, "comparison")
        if isinstance(a, (tuple, list)) and isinstance(b, (tuple, list)) and isinstance(op, (ast.Eq, ast.NotEq)) and \
                (any(is_sym(x) for x in a) or any(is_sym(x) for x in b)):
            if len(a) != len(b):
                r = False
            else:
                r = conj([self.compare(ast.Eq(), x, y, st, fr) for x, y in zip(a, b)])
            if isinstance(op, ast.NotEq):
                r = (not r) if isinstance(r, bool) else z3.Not(r)
            return r
        if isinstance(a, Obj) and isinstance(op, (ast.Eq, ast.NotEq)):
            r = None
            if a.cls.startswith("agilerl"):
                m = front.find_method(a.cls, "__eq__")
                if m is not None:
                    r = to_bool(self.call_function(m[0], m[1], m[2], [a, b], {}, st, self.top_frame))
            if r is None:
                r = a is b          # default object equality is identity
            if isinstance(op, ast.NotEq):
                r = (not r) if isinstance(r, bool) else z3.Not(r)
            return r
        if not is_sym(a) and not is_sym(b):
            if isinstance(a, (Obj, Seq)) or isinstance(b, (Obj, Seq)):
                raise Undecided("comparison of objects")
            try:
                return {ast.Eq: lambda: a == b, ast.NotEq: lambda: a != b, ast.Lt: lambda: a < b,
                        ast.LtE: lambda: a <= b, ast.Gt: lambda: a > b, ast.GtE: lambda: a >= b}[type(op)]()
            except TypeError as e:
                raise PyRaise("TypeError", str(e))      # the code under analysis compares incomparable values
        a, b = z3ify(a), z3ify(b)
        if a is None or b is None or isinstance(a, (str, tuple)) or isinstance(b, (str, tuple)):
            if isinstance(op, ast.Eq):
                return False
            if isinstance(op, ast.NotEq):
                return True
            raise Undecided("ordering of symbolic vs non-numeric")
        if isinstance(a, z3.BoolRef) and isinstance(b, z3.ArithRef):
            a = z3.If(a, 1, 0)
        if isinstance(b, z3.BoolRef) and isinstance(a, z3.ArithRef):
            b = z3.If(b, 1, 0)
        if isinstance(op, ast.Eq):
            return a == b
        if isinstance(op, ast.NotEq):
            return a != b
        if isinstance(op, ast.Lt):
            return a < b
        if isinstance(op, ast.LtE):
            return a <= b
        if isinstance(op, ast.Gt):
            return a > b
        if isinstance(op, ast.GtE):
            return a >= b
        raise Undecided("compare op")

    def is_same(self, a, b):
        if isinstance(a, Opt) and b is None:
            return a.isnone
        if isinstance(b, Opt) and a is None:
            return b.isnone
        if a is None or b is None:
            return a is b
        if isinstance(a, (bool, int, str)) and isinstance(b, (bool, int, str)):
            return a == b and type(a) is type(b)
        if is_sym(a) and is_sym(b) and a.sort() == b.sort() and a.sort().kind() == z3.Z3_UNINTERPRETED_SORT:
            return a == b
        return a is b

    def contains(self, container, item, st, fr):
        if isinstance(container, (list, tuple)):
            if not is_sym(item) and all(not is_sym(x) for x in container):
                return any(self.is_same(x, item) or (type(x) == type(item) and x == item) for x in container)
            return z3.Or(*[z3ify(x) == z3ify(item) for x in container]) if container else False
        if isinstance(container, dict):
            if is_sym(item):
                raise Undecided("symbolic key membership")
            return item in container
        if isinstance(container, str) and isinstance(item, str):
            return item in container
        if hasattr(container, "contains"):
            return container.contains(self, st, item)
        raise Undecided(f"membership test on {type(container).__name__}")

    def ev_BinOp(self, node, st, fr):
        a = self.ev(node.left, st, fr)
        b = self.ev(node.right, st, fr)
        return self.binop(node.op, a, b, st, node)

    def binop(self, op, a, b, st, node=None):
        if hasattr(a, "binop"):
            return a.binop(self, st, op, b, False)
        if hasattr(b, "binop"):
            return b.binop(self, st, op, a, True)
        if isinstance(a, (list, tuple)) and isinstance(b, (list, tuple)) and isinstance(op, ast.Add):
            return a + b
        if isinstance(a, Seq) and isinstance(b, (list, tuple)) and isinstance(op, ast.Add):
            out = Seq(a.len, a.arr, a.elem, a.label, a.wrap)        # list concatenation builds a new list
            for x in b:
                out.arr = z3.Store(out.arr, z3ify(out.len), z3ify(x))
                out.len = z3.simplify(z3ify(out.len) + 1)
            return out
        if isinstance(a, (list, tuple)) and isinstance(b, int) and isinstance(op, ast.Mult):
            return a * b
        if isinstance(a, str) and isinstance(b, str) and isinstance(op, ast.Add):
            return a + b
        if isinstance(a, str) and isinstance(op, ast.Mod):
            return Opaque("fmt")
        if isinstance(a, (Opaque, ModRef)) or isinstance(b, (Opaque, ModRef)):
            return Opaque("binop")
        if isinstance(a, Opt):
            a = self.unwrap_opt(a, st, "arithmetic")
        if isinstance(b, Opt):
            b = self.unwrap_opt(b, st, "arithmetic")
        if a is None or b is None:
            raise PyRaise("TypeError", "arithmetic on None")
        sym = is_sym(a) or is_sym(b)
        if isinstance(op, (ast.BitOr, ast.BitAnd)) and all(isinstance(x, (bool, z3.BoolRef)) for x in (a, b)):
            if not sym:
                return (a | b) if isinstance(op, ast.BitOr) else (a & b)
            return z3.Or(z3ify(a), z3ify(b)) if isinstance(op, ast.BitOr) else z3.And(z3ify(a), z3ify(b))
        if isinstance(a, z3.BoolRef):
            a = z3.If(a, 1, 0)
        if isinstance(b, z3.BoolRef):
            b = z3.If(b, 1, 0)
        if isinstance(op, ast.Add):
            return a + b
        if isinstance(op, ast.Sub):
            return a - b
        if isinstance(op, ast.Mult):
            return a * b
        if isinstance(op, ast.Div):
            if not sym:
                return Fraction(a) / Fraction(b)
            a, b = z3ify(a), z3ify(b)
            if a.sort() == z3.IntSort():
                a = z3.ToReal(a)
            if b.sort() == z3.IntSort():
                b = z3.ToReal(b)
            return a / b
        if isinstance(op, ast.FloorDiv):
            return floordiv(a, b)
        if isinstance(op, ast.Mod):
            if not sym:
                return a % b
            az, bz = z3ify(a), z3ify(b)
            if az.sort() == z3.IntSort() and bz.sort() == z3.IntSort() and not z3.is_int_value(bz):
                # symbolic modulus: exact linear form when the path already implies 0 <= a < 2*b (ring cursors)
                if not self.feasible(st, z3.Not(z3.And(bz > 0, az >= 0, az < 2 * bz))):
                    return z3.If(az < bz, az, az - bz)
            return az - bz * floordiv(a, b)
        if isinstance(op, ast.Pow):
            return self.power(a, b)
        if isinstance(op, ast.BitAnd):
            if not sym:
                return a & b
            f = self.specns.get("band")
            if f is None:
                raise Undecided("bit-and on symbolic ints without a band model")
            return f(z3ify(a), z3ify(b))
        raise Undecided(f"binary op {type(op).__name__}")

    def power(self, a, b):
        if not is_sym(a) and not is_sym(b):
            if isinstance(b, int) and b >= 0:
                return a ** b
            return Fraction(a) ** b if isinstance(b, int) else realval(float(a) ** float(b))
        if isinstance(b, int) and not isinstance(b, bool) and 0 <= b <= 4:
            r = 1
            for _ in range(b):
                r = r * a
            return r
        f = self.specns.get("pow")
        if f is None:
            raise Undecided("symbolic power without a pow model")
        a, b = z3ify(a), z3ify(b)
        if a.sort() == z3.IntSort():
            a = z3.ToReal(a)
        if b.sort() == z3.IntSort():
            b = z3.ToReal(b)
        return f(a, b)

    # ---- attribute / subscript
    def ev_Attribute(self, node, st, fr):
        base = self.ev(node.value, st, fr)
        return self.getattr(base, node.attr, st, fr, node)

    def getattr(self, base, name, st, fr, node=None):
        if isinstance(base, Opt):
            if not self.feasible(st, z3.Not(base.isnone)):
                raise PyRaise("AttributeError", f"None.{name}")
            if self.feasible(st, base.isnone):
                if self.decide(st, base.isnone):
                    raise PyRaise("AttributeError", f"None.{name}")
            base = base.val
        if isinstance(base, Obj):
            if name in base.fields:
                return base.fields[name]
            r = front.find_method(base.cls, name) if base.cls.startswith("agilerl") else None
            if r is not None:
                owner, mod, fn = r
                if front.is_property(fn):
                    return self.call_function(owner, mod, fn, [base], {}, st, fr)
                if front.is_static(fn):
                    return BoundMethod(None, owner, mod, fn)
                return BoundMethod(base, owner, mod, fn)
            ca = front.class_attr(base.cls, name) if base.cls.startswith("agilerl") else None
            if ca is not None:
                m2, expr = ca
                return self.ev(expr, State(), Frame(m2, base.cls, None, base.cls))
            raise Undecided(f"unknown attribute {base.label}.{name} at line {getattr(node, 'lineno', '?')} "
                            f"(declare it in the contract's shape)")
        if isinstance(base, ModRef):
            if name == "__name__":
                return base.dotted.split(".")[-1]                     # name of a library class
            if (base.dotted + "." + name) in getattr(self, "enums", {}):
                return self.enums[base.dotted + "." + name]          # library constant given a value by the contract module (e.g. numpy.inf)
            return ModRef(base.dotted + "." + name)
        if isinstance(base, FuncRef):
            if (base.qual + "." + name) in getattr(self, "enums", {}):
                return self.enums[base.qual + "." + name]        # Enum member as its ordinal
            # class attribute / static method access
            try:
                r = front.find_method(base.qual, name)
            except front.ExtractError:
                r = None
            if r:
                owner, mod, fn = r
                return BoundMethod(None, owner, mod, fn)
            return ModRef(base.qual + "." + name)
        if hasattr(base, "getattr"):
            return base.getattr(self, st, name)
        if isinstance(base, (list, dict, tuple, str, Seq)) or base is None:
            return BoundBuiltin(base, name)
        if is_sym(base):
            return BoundBuiltin(base, name)
        if isinstance(base, Opaque):
            return Opaque(base.what + "." + name)
        raise Undecided(f"attribute {name} on {type(base).__name__} at line {getattr(node, 'lineno', '?')}")

    def ev_Subscript(self, node, st, fr):
        base = self.ev(node.value, st, fr)
        idx = self.ev_index(node.slice, st, fr)
        return self.getitem(base, idx, st, node)

    def ev_index(self, sl, st, fr):
        if isinstance(sl, ast.Slice):
            return slice(self.ev(sl.lower, st, fr) if sl.lower else None,
                         self.ev(sl.upper, st, fr) if sl.upper else None,
                         self.ev(sl.step, st, fr) if sl.step else None)
        if isinstance(sl, ast.Tuple):
            return tuple(self.ev_index(e, st, fr) for e in sl.elts)
        return self.ev(sl, st, fr)

    def getitem(self, base, idx, st, node=None):
        if isinstance(base, Opt):
            base = self.unwrap_opt(base, st, "subscript")
        if hasattr(base, "getitem"):
            return base.getitem(self, st, idx)
        if isinstance(base, Obj) and base.cls.startswith("agilerl"):
            r = front.find_method(base.cls, "__getitem__")
            if r is not None:
                return self.call_function(r[0], r[1], r[2], [base, idx], {}, st, self.top_frame, getattr(node, "lineno", "?"))
        if isinstance(base, Seq):
            if isinstance(idx, slice):
                return self.seq_slice(base, idx, st)
            i = z3ify(idx)
            n = base.len
            if getattr(self, "in_spec", 0):
                return base.get(i)      # specification terms are total (no IndexError inside contracts)
            inb = self.in_bounds(i, n)
            if getattr(self, "comp_depth", 0) and not (isinstance(idx, int) and idx < 0):
                # inside a comprehension over a symbolic sequence the bound variable is a fresh constant constrained only
                # by its range (on the path condition right now): proving `inb` here is the universally quantified check
                self.oblige(st, f"{self.prop}.{self.current.short if self.current else '?'}.index-in-range.L{getattr(node, 'lineno', 0)}",
                            inb, "no-raise", getattr(node, "lineno", None), "subscript inside comprehension stays in range")
                return base.get(i)
            # negative index support for concrete negatives
            if isinstance(idx, int) and idx < 0:
                return base.get(z3ify(n) + idx)
            if not self.feasible(st, inb):
                raise PyRaise("IndexError")
            if self.feasible(st, z3.Not(inb)):
                # index may be out of range: fork so that the IndexError path is explicit
                if not self.decide(st, inb):
                    raise PyRaise("IndexError")
            return base.get(i)
        if isinstance(base, (list, tuple)):
            if isinstance(idx, slice):
                if any(is_sym(x) for x in (idx.start, idx.stop, idx.step) if x is not None):
                    raise Undecided("symbolic slice of concrete list")
                return base[idx]
            if is_sym(idx):
                if not base:
                    raise PyRaise("IndexError")
                if all(self.scalar(x) for x in base):
                    r = z3ify(base[-1])
                    for k in range(len(base) - 2, -1, -1):
                        x, r = self.coerce_pair(z3ify(base[k]), r)
                        r = z3.If(idx == k, x, r)
                    return r
                # fork over positions
                for k in range(len(base)):
                    if self.decide(st, idx == k):
                        return base[k]
                raise PyRaise("IndexError")
            try:
                return base[idx]
            except IndexError:
                raise PyRaise("IndexError")
        if isinstance(base, dict):
            if is_sym(idx):
                raise Undecided("symbolic dict key")
            if idx not in base:
                if hasattr(base, "default_factory") and base.default_factory is not None:
                    return base[idx]
                raise PyRaise("KeyError", str(idx))
            return base[idx]
        if isinstance(base, (ModRef, FuncRef)):
            return base  # typing subscripts
        raise Undecided(f"subscript on {type(base).__name__} at line {getattr(node, 'lineno', '?')}")

    @staticmethod
    def in_bounds(i, n):
        return z3.And(i >= 0, i < z3ify(n))

    def unwrap_opt(self, o, st, what):
        if self.feasible(st, o.isnone):
            if self.decide(st, o.isnone):
                raise PyRaise("TypeError", f"None in {what}")
        return o.val if not isinstance(o.val, Opt) else self.unwrap_opt(o.val, st, what)

    def seq_slice(self, s, sl, st):
        if sl.step is not None:
            raise Undecided("slice step")
        lo = 0 if sl.start is None else sl.start
        hi = s.len if sl.stop is None else sl.stop
        if (isinstance(lo, int) and lo < 0):
            lo = s.len + lo
        if (isinstance(hi, int) and hi < 0):
            hi = s.len + hi
        # clamp semantic: assume 0<=lo<=hi<=len is decided by the path; otherwise undecided
        lo_z, hi_z, n = z3ify(lo), z3ify(hi), z3ify(s.len)
        ok = z3.And(0 <= lo_z, lo_z <= n)
        if self.feasible(st, z3.Not(ok)):
            raise Undecided("slice start possibly outside [0,len]")
        # python clamps hi to len and yields empty when hi<lo
        hi_c = z3.If(hi_z > n, n, hi_z)
        length = z3.simplify(z3.If(hi_c > lo_z, hi_c - lo_z, 0))
        j = z3.Int(fresh_name("j"))
        arr = z3.Const(fresh_name(s.label + ".slice"), s.arr.sort())
        st.assume(z3.ForAll([j], z3.Select(arr, j) == z3.Select(s.arr, j + lo_z)))
        return Seq(length, arr, s.elem, s.label + ".slice", s.wrap)

    # ---- comprehensions
    def ev_ListComp(self, node, st, fr):
        return self.comprehension(node, st, fr)

    def ev_GeneratorExp(self, node, st, fr):
        return self.comprehension(node, st, fr)

    def ev_DictComp(self, node, st, fr):
        if len(node.generators) != 1:
            raise Undecided("nested dict comprehension")
        g = node.generators[0]
        items = self.iter_concrete(self.ev(g.iter, st, fr), st)
        out = {}
        saved = dict(st.locals)
        try:
            for x in items:
                self.assign_target(g.target, x, st, fr)
                ok = True
                for c in g.ifs:
                    ok = ok and self.decide(st, self.ev(c, st, fr))
                if ok:
                    k = self.ev(node.key, st, fr)
                    if is_sym(k):
                        raise Undecided("symbolic dict key in comprehension")
                    out[k] = self.ev(node.value, st, fr)
        finally:
            for kk in list(st.locals):
                if kk not in saved:
                    del st.locals[kk]
            st.locals.update(saved)
        return out

    def comprehension(self, node, st, fr):
        if len(node.generators) != 1:
            raise Undecided("nested comprehension")
        g = node.generators[0]
        it = self.ev(g.iter, st, fr)
        items = self.try_iter_concrete(it, st)
        if items is not None:
            out = []
            saved = dict(st.locals)
            try:
                for x in items:
                    self.assign_target(g.target, x, st, fr)
                    ok = True
                    for c in g.ifs:
                        ok = ok and self.decide(st, self.ev(c, st, fr))
                    if ok:
                        out.append(self.ev(node.elt, st, fr))
            finally:
                for k in list(st.locals):
                    if k not in saved:
                        del st.locals[k]
                st.locals.update(saved)
            return out
        if hasattr(it, "comprehend"):
            return it.comprehend(self, st, fr, node, g)
        if isinstance(it, RangeV) and not g.ifs and it.step == 1:
            n = z3ify(it.hi) - z3ify(it.lo)
            n = z3.simplify(z3.If(n > 0, n, 0))
            it = Seq(n, z3.Lambda([_LK], _LK + z3ify(it.lo)), "int", "range")
        if isinstance(it, Seq) and g.ifs:
            # a filter that is true for every (symbolic) element can be dropped
            kf = z3.Int(fresh_name("kf"))
            saved_f = dict(st.locals)
            try:
                self.assign_target(g.target, it.get(kf), st, fr)
                conds = [to_bool(self.ev(c, st, fr)) for c in g.ifs]
            finally:
                for kk in list(st.locals):
                    if kk not in saved_f:
                        del st.locals[kk]
                st.locals.update(saved_f)
            if not all(c is True for c in conds):
                raise Undecided("filtered comprehension over a symbolic sequence")
        if isinstance(it, Seq):
            k = z3.Int(fresh_name("k"))
            saved = dict(st.locals)
            try:
                self.assign_target(g.target, it.get(k), st, fr)
                st.pc.append(z3.And(k >= 0, k < z3ify(it.len)))
                self.comp_depth = getattr(self, "comp_depth", 0) + 1
                try:
                    e = self.ev(node.elt, st, fr)
                finally:
                    st.pc.pop()
                    self.comp_depth -= 1
            finally:
                for kk in list(st.locals):
                    if kk not in saved:
                        del st.locals[kk]
                st.locals.update(saved)
            wrap_out = None
            if hasattr(e, "term") and it.wrap is not None:
                wrap_out, e = it.wrap, e.term        # a comprehension that passes wrapped records through
            if not self.scalar(e):
                raise Undecided("comprehension element is not scalar")
            e = z3ify(e)
            tname = "int" if e.sort() == z3.IntSort() else "real" if e.sort() == z3.RealSort() else \
                "bool" if e.sort() == z3.BoolSort() else e.sort().name()
            out = Seq.new(tname, "comp", it.len)
            out.wrap = wrap_out
            st.assume(z3.ForAll([k], z3.Implies(z3.And(k >= 0, k < z3ify(it.len)), z3.Select(out.arr, k) == e)))
            return out
        raise Undecided(f"comprehension over {type(it).__name__}")

    def try_iter_concrete(self, it, st):
        if isinstance(it, (list, tuple)):
            return list(it)
        if isinstance(it, dict):
            return list(it.keys())
        if isinstance(it, RangeV):
            if all(not is_sym(x) for x in (it.lo, it.hi, it.step)):
                return list(range(it.lo, it.hi, it.step))
            return None
        if isinstance(it, Seq) and not is_sym(it.len):
            return [it.get(i) for i in range(it.len)]
        if isinstance(it, EnumV):
            inner = self.try_iter_concrete(it.inner, st)
            if inner is None:
                return None
            return [(i + it.start, x) for i, x in enumerate(inner)]
        if isinstance(it, ZipV):
            inners = [self.try_iter_concrete(x, st) for x in it.inners]
            if any(x is None for x in inners):
                return None
            return list(zip(*inners))
        if hasattr(it, "iter_concrete"):
            return it.iter_concrete(self, st)
        return None

    def iter_concrete(self, it, st):
        r = self.try_iter_concrete(it, st)
        if r is None:
            raise Undecided(f"iteration over symbolic {type(it).__name__} needs a loop contract")
        return r

    # ---- calls
    def ev_Call(self, node, st, fr):
        # spec-level forms
        if isinstance(node.func, ast.Name):
            n = node.func.id
            if n in ("forall", "exists") and getattr(fr, "specmode", False):
                return self.ev_quant(node, st, fr, n)
            if n == "old" and getattr(fr, "specmode", False):
                if st.old is None:
                    raise Undecided("old() without a pre-state")
                return self.ev(node.args[0], st.old, fr)
            if n == "implies" and getattr(fr, "specmode", False):
                a = to_bool(self.ev(node.args[0], st, fr))
                if a is False:
                    return True
                st.pc.append(z3ify(a))
                try:
                    b = to_bool(self.ev(node.args[1], st, fr))
                finally:
                    st.pc.pop()
                return z3.Implies(z3ify(a), z3ify(b))
            if n == "super" and not node.args:
                return SuperV(st.locals.get(fr.fn.args.args[0].arg) if fr.fn and fr.fn.args.args else None, fr.cls)
        f = self.ev(node.func, st, fr)
        args = []
        for a in node.args:
            if isinstance(a, ast.Starred):
                args.extend(self.iter_concrete(self.ev(a.value, st, fr), st))
            else:
                args.append(self.ev(a, st, fr))
        kwargs = {}
        for k in node.keywords:
            if k.arg is None:
                kwargs.update(self.ev(k.value, st, fr))
            else:
                kwargs[k.arg] = self.ev(k.value, st, fr)
        return self.call(f, args, kwargs, st, fr, node)

    def ev_quant(self, node, st, fr, kind):
        # forall(i, lo, hi, body)  or forall(i, body)  ;  several variables: forall((i,j), body)
        a = node.args
        names = [a[0].id] if isinstance(a[0], ast.Name) else [e.id for e in a[0].elts]
        vs = [z3.Int(fresh_name(n)) for n in names]
        saved = {n: st.locals.get(n, _MISSING) for n in names}
        for n, v in zip(names, vs):
            st.locals[n] = v
        try:
            if len(a) == 4:
                lo = z3ify(self.ev(a[1], st, fr))
                hi = z3ify(self.ev(a[2], st, fr))
                rng = z3.And(vs[0] >= lo, vs[0] < hi)
                body_node = a[3]
            else:
                rng = None
                body_node = a[1]
            if rng is not None:
                st.pc.append(rng)
            try:
                body = z3ify(to_bool(self.ev(body_node, st, fr)))
            finally:
                if rng is not None:
                    st.pc.pop()
        finally:
            for n in names:
                if saved[n] is _MISSING:
                    st.locals.pop(n, None)
                else:
                    st.locals[n] = saved[n]
        if kind == "forall":
            return z3.ForAll(vs, z3.Implies(rng, body) if rng is not None else body)
        return z3.Exists(vs, z3.And(rng, body) if rng is not None else body)

    def call(self, f, args, kwargs, st, fr, node=None):
        line = getattr(node, "lineno", "?")
        if isinstance(f, BoundMethod):
            a = ([f.obj] if f.obj is not None else []) + list(args)
            return self.call_function(f.owner, f.mod, f.fn, a, kwargs, st, fr, line)
        if isinstance(f, BoundBuiltin):
            return f.call(self, st, args, kwargs, fr)
        if isinstance(f, Fn):
            if f.model is not None:
                return f.model(self, st, args, kwargs)
            zs = [z3ify(x) for x in args]
            zs = [z3.ToReal(x) if (isinstance(x, z3.ArithRef) and x.sort() == z3.IntSort()
                                   and f.decl.domain(i) == z3.RealSort()) else x for i, x in enumerate(zs)]
            return f.decl(*zs)
        if isinstance(f, z3.FuncDeclRef):
            zs = [z3ify(x) for x in args]
            zs = [z3.ToReal(x) if (isinstance(x, z3.ArithRef) and x.sort() == z3.IntSort()
                                   and f.domain(i) == z3.RealSort()) else x for i, x in enumerate(zs)]
            return f(*zs)
        if isinstance(f, Closure):
            return self.call_closure(f, args, kwargs, st, fr)
        if isinstance(f, ModRef):
            d = f.dotted
            if d.startswith("builtins."):
                return self.call_builtin(d[9:], args, kwargs, st, fr, node)
            if d in self.lib:
                return self.lib[d](self, st, args, kwargs)
            raise Undecided(f"call to unmodelled library function {d} at line {line}")
        if isinstance(f, FuncRef):
            return self.call_repo(f.qual, args, kwargs, st, fr, line)
        if callable(f) and not is_sym(f):
            # python-level spec helper
            return f(*args, **kwargs)
        if hasattr(f, "call"):
            return f.call(self, st, args, kwargs)
        raise Undecided(f"call of {type(f).__name__} at line {line}")

    def call_closure(self, f, args, kwargs, st, fr):
        node = f.node
        saved = st.locals
        st.locals = dict(f.env)
        try:
            params = [a.arg for a in node.args.args]
            for p, v in zip(params, args):
                st.locals[p] = v
            for k, v in kwargs.items():
                st.locals[k] = v
            fr2 = Frame(f.mod, f.cls, None, "<lambda>", fr.depth + 1 if fr else 1)
            fr2.specmode = getattr(fr, "specmode", False)
            return self.ev(node.body, st, fr2)
        finally:
            st.locals = saved

    def call_repo(self, qual, args, kwargs, st, fr, line):
        # class instantiation or module-level function
        try:
            modname, rest = front.split_qual(qual)
            m = front.module(modname)
        except front.ExtractError as e:
            raise Undecided(str(e))
        if len(rest) == 1 and rest[0] in m.classes:
            if qual in self.lib:
                return self.lib[qual](self, st, args, kwargs)
            obj = Obj(qual)
            r = front.find_method(qual, "__init__")
            if r is not None:
                owner, mod, fn = r
                self.call_function(owner, mod, fn, [obj] + list(args), kwargs, st, fr, line)
            return obj
        if len(rest) == 1 and rest[0] in m.funcs:
            return self.call_function(None, m, m.funcs[rest[0]], args, kwargs, st, fr, line, qual=qual)
        if qual in self.lib:
            return self.lib[qual](self, st, args, kwargs)
        raise Undecided(f"cannot resolve repo callable {qual} at line {line}")

    def bind_params(self, fn, args, kwargs, st, fr_callee):
        a = fn.args
        params = [x.arg for x in a.posonlyargs + a.args]
        loc = {}
        args = list(args)
        if len(args) > len(params) and not a.vararg:
            raise PyRaise("TypeError", "too many positional arguments")
        for p, v in zip(params, args):
            loc[p] = v
        if a.vararg:
            loc[a.vararg.arg] = tuple(args[len(params):])
        defaults = a.defaults
        dparams = params[len(params) - len(defaults):] if defaults else []
        kw = dict(kwargs)
        for p in params[len(args):]:
            if p in kw:
                loc[p] = kw.pop(p)
            elif p in dparams:
                loc[p] = self.ev(defaults[dparams.index(p)], State(), fr_callee)
            else:
                raise PyRaise("TypeError", f"missing argument {p}")
        for p, d in zip(a.kwonlyargs, a.kw_defaults):
            if p.arg in kw:
                loc[p.arg] = kw.pop(p.arg)
            elif d is not None:
                loc[p.arg] = self.ev(d, State(), fr_callee)
            else:
                raise PyRaise("TypeError", f"missing kw argument {p.arg}")
        if a.kwarg:
            loc[a.kwarg.arg] = kw
        elif kw:
            raise PyRaise("TypeError", f"unexpected keyword {list(kw)}")
        return loc

    def call_function(self, owner, mod, fn, args, kwargs, st, fr, line="?", qual=None):
        """Call of a repo function from code under analysis: by contract if it has one, else inlined."""
        qual = qual or ((owner + "." + fn.name) if owner else mod.modname + "." + fn.name)
        if qual in self.lib:
            return self.lib[qual](self, st, args, kwargs)
        c = self.contracts.get(qual)
        depth = fr.depth + 1 if fr else 1
        fr2 = Frame(mod, owner, fn, qual, depth)
        if c is not None and not (fr is not None and getattr(fr, "force_inline", None) == qual):
            loc = self.bind_params(fn, args, kwargs, st, fr2)
            return c.apply(self, st, loc, fr, line)
        if depth > 12:
            raise Undecided(f"inlining depth exceeded at {qual} (recursive function needs a contract)")
        loc = self.bind_params(fn, args, kwargs, st, fr2)
        self.inline_log.append(qual)
        return self.inline(fn, loc, st, fr2)

    def inline(self, fn, loc, st, fr2):
        """Execute callee body in the caller's path state.  Forks inside the callee propagate through
        NeedFork to the caller's statement (the callee is re-executed under the decision)."""
        saved = st.locals
        st.locals = loc
        try:
            outs = self.exec_block(front.strip_doc(fn.body), st, fr2)
        finally:
            st.locals = saved
        kind, val = outs
        if kind == RETURN:
            return val
        if kind == NORMAL:
            return None
        if kind == RAISE:
            raise PyRaise(val[0], val[1])
        raise Undecided("break/continue escaped a function body")

    # the statement-level machinery is in stmts.py (mixed in)


_MISSING = object()
_LK = z3.Int("k!range")


class RangeV:
    def __init__(self, lo, hi, step=1):
        self.lo, self.hi, self.step = lo, hi, step


class EnumV:
    def __init__(self, inner, start=0):
        self.inner = inner
        self.start = start


class ZipV:
    def __init__(self, inners):
        self.inners = inners


class ReversedV:
    def __init__(self, inner):
        self.inner = inner


class SuperV:
    def __init__(self, obj, cls):
        self.obj = obj
        self.cls = cls

    def getattr(self, ex, st, name):
        r = front.find_method(self.obj.cls if isinstance(self.obj, Obj) else self.cls, name, after=self.cls)
        if r is None:
            if name == "__init__":
                return Fn(model=lambda ex, st, a, k: None, name="object.__init__")
            if name == "__setattr__":
                def obj_setattr(ex, st, a, k):
                    self.obj.fields[a[0]] = a[1]
                return Fn(model=obj_setattr, name="object.__setattr__")
            raise Undecided(f"super().{name} not found")
        owner, mod, fn = r
        return BoundMethod(self.obj, owner, mod, fn)


class BoundBuiltin:
    """Methods of built-in containers."""

    def __init__(self, base, name):
        self.base = base
        self.name = name

    def call(self, ex, st, args, kwargs, fr):
        b, n = self.base, self.name
        if isinstance(b, list):
            if n == "append":
                b.append(args[0])
                return None
            if n == "extend":
                b.extend(ex.iter_concrete(args[0], st))
                return None
            if n == "copy":
                return list(b)
            if n == "pop":
                return b.pop(*args)
            if n == "index":
                return b.index(args[0])
            if n == "insert":
                b.insert(args[0], args[1])
                return None
        if isinstance(b, dict):
            if n == "items":
                return list(b.items())
            if n == "keys":
                return list(b.keys())
            if n == "values":
                return list(b.values())
            if n == "get":
                return b.get(args[0], args[1] if len(args) > 1 else None)
            if n == "copy":
                return dict(b)
            if n == "update":
                b.update(args[0] if args else {})
                b.update(kwargs)
                return None
            if n == "pop":
                return b.pop(*args)
        if isinstance(b, str):
            if n in ("startswith", "endswith", "lower", "upper", "split", "join", "format", "replace", "strip"):
                if all(isinstance(a, (str, tuple, list)) for a in args):
                    return getattr(b, n)(*args)
                return Opaque("str." + n)
        if isinstance(b, Seq):
            if n == "append":
                i = z3ify(b.len)
                v = args[0].term if hasattr(args[0], "term") else z3ify(args[0])
                b.arr = z3.Store(b.arr, i, v)
                b.len = z3.simplify(i + 1)
                return None
            if n in ("copy", "clone"):
                return Seq(b.len, b.arr, b.elem, b.label + ".copy", b.wrap)
            if n in ("unsqueeze", "squeeze", "to", "detach", "cpu", "long", "float"):
                return b
            if ("seqmethod." + n) in ex.lib:
                return ex.lib["seqmethod." + n](ex, st, [b] + list(args), kwargs)
        if is_sym(b):
            if n == "item":
                return b
            if n in ("bool",):
                return to_bool(b)
            if n in ("float", "clone", "detach", "cpu", "numpy", "to", "long", "int"):
                return b
        raise Undecided(f"method {n} on {type(b).__name__}")
