"""Front end: mechanical extraction of the real functions from /repo's working tree.

Every run re-parses the source files; nothing is cached between runs.  A function is selected by
qualified name `agilerl.mod.Class.method` (or `agilerl.mod.func`).  What extraction drops is stated in
DESIGN.md 3.1 (docstrings, annotations; everything else is executed symbolically as written).
"""
import ast
import hashlib
import os

REPO = os.environ.get("PYVC_REPO", "/repo")


class ExtractError(Exception):
    pass


class Module:
    def __init__(self, modname):
        self.modname = modname
        path = os.path.join(REPO, *modname.split("."))
        if os.path.isdir(path):
            path = os.path.join(path, "__init__.py")
        else:
            path += ".py"
        if not os.path.exists(path):
            raise ExtractError(f"module source not found: {modname} ({path})")
        self.path = path
        with open(path) as f:
            self.src = f.read()
        try:
            self.tree = ast.parse(self.src, filename=path)
        except SyntaxError as e:
            raise ExtractError(f"syntax error in {path}: {e}")
        self.classes = {}
        self.funcs = {}
        self.imports = {}  # local alias -> dotted name
        self.consts = {}  # module-level simple assignments: name -> ast expr
        for node in self.tree.body:
            if isinstance(node, ast.ClassDef):
                self.classes[node.name] = node
            elif isinstance(node, (ast.FunctionDef, ast.AsyncFunctionDef)):
                self.funcs[node.name] = node
            elif isinstance(node, ast.Import):
                for a in node.names:
                    self.imports[a.asname or a.name.split(".")[0]] = a.name if a.asname else a.name.split(".")[0]
            elif isinstance(node, ast.ImportFrom):
                base = node.module or ""
                if node.level:
                    parts = modname.split(".")
                    base = ".".join(parts[: len(parts) - node.level] + ([node.module] if node.module else []))
                for a in node.names:
                    self.imports[a.asname or a.name] = base + "." + a.name
            elif isinstance(node, ast.Assign) and len(node.targets) == 1 and isinstance(node.targets[0], ast.Name):
                self.consts[node.targets[0].id] = node.value


_MODS = {}


def module(modname):
    if modname not in _MODS:
        _MODS[modname] = Module(modname)
    return _MODS[modname]


def reset_cache():
    _MODS.clear()


def split_qual(qual):
    """'agilerl.a.b.Class.meth' -> (modname, [Class, meth]) by longest module prefix that exists."""
    parts = qual.split(".")
    for k in range(len(parts), 0, -1):
        modname = ".".join(parts[:k])
        path = os.path.join(REPO, *parts[:k])
        if os.path.isfile(path + ".py") or os.path.isfile(os.path.join(path, "__init__.py")):
            return modname, parts[k:]
    raise ExtractError(f"cannot resolve module of {qual}")


def find_class(qual):
    """qual = 'agilerl.mod.Class' -> (Module, ClassDef)"""
    modname, rest = split_qual(qual)
    m = module(modname)
    if len(rest) != 1 or rest[0] not in m.classes:
        # maybe re-exported
        if len(rest) == 1 and rest[0] in m.imports:
            return find_class(m.imports[rest[0]])
        raise ExtractError(f"class not found: {qual}")
    return m, m.classes[rest[0]]


def class_qual_of_base(m, base_node):
    """Resolve a base-class expression in module m to a qualified repo class name, or None."""
    if isinstance(base_node, ast.Name):
        n = base_node.id
        if n in m.classes:
            return m.modname + "." + n
        if n in m.imports:
            d = m.imports[n]
            if d.startswith("agilerl."):
                return d
        return None
    if isinstance(base_node, ast.Attribute):
        return None
    if isinstance(base_node, ast.Subscript):  # Generic[...]
        return class_qual_of_base(m, base_node.value)
    return None


def mro(qual):
    """Linearised list of repo class quals (single-inheritance chains + simple multiple inheritance,
    depth-first left-to-right without duplicates; adequate for the classes under contract)."""
    out = []

    def go(q):
        if q in out:
            return
        out.append(q)
        try:
            m, c = find_class(q)
        except ExtractError:
            return
        for b in c.bases:
            bq = class_qual_of_base(m, b)
            if bq:
                go(bq)

    go(qual)
    return out


def find_method(cls_qual, name, after=None):
    """Look up `name` along the MRO of cls_qual (starting strictly after class `after` if given).
    Returns (owner_class_qual, Module, FunctionDef) or None."""
    chain = mro(cls_qual)
    if after is not None:
        if after in chain:
            chain = chain[chain.index(after) + 1 :]
    for q in chain:
        try:
            m, c = find_class(q)
        except ExtractError:
            continue
        for node in c.body:
            if isinstance(node, ast.FunctionDef) and node.name == name:
                # for properties, prefer the getter (first def without .setter)
                decos = [ast.unparse(d) for d in node.decorator_list]
                if any(d.endswith(".setter") for d in decos):
                    continue
                return q, m, node
    return None


def find_setter(cls_qual, name):
    for q in mro(cls_qual):
        try:
            m, c = find_class(q)
        except ExtractError:
            continue
        for node in c.body:
            if isinstance(node, ast.FunctionDef) and node.name == name:
                decos = [ast.unparse(d) for d in node.decorator_list]
                if any(d == name + ".setter" for d in decos):
                    return q, m, node
    return None


def class_attr(cls_qual, name):
    """Class-level simple assignment (e.g. constants) along the MRO -> (Module, expr) or None."""
    for q in mro(cls_qual):
        try:
            m, c = find_class(q)
        except ExtractError:
            continue
        for node in c.body:
            if isinstance(node, ast.Assign) and len(node.targets) == 1 and isinstance(node.targets[0], ast.Name) \
                    and node.targets[0].id == name:
                return m, node.value
            if isinstance(node, ast.AnnAssign) and isinstance(node.target, ast.Name) and node.target.id == name \
                    and node.value is not None:
                return m, node.value
    return None


def find_function(qual):
    """qual -> (owner_class_qual or None, Module, FunctionDef)."""
    modname, rest = split_qual(qual)
    m = module(modname)
    if len(rest) == 1:
        if rest[0] in m.funcs:
            return None, m, m.funcs[rest[0]]
        raise ExtractError(f"function not found: {qual}")
    if len(rest) == 2:
        cq = modname + "." + rest[0]
        r = find_method(cq, rest[1])
        if r is None:
            raise ExtractError(f"method not found: {qual}")
        return r
    raise ExtractError(f"cannot resolve {qual}")


def is_property(fn):
    return any(ast.unparse(d) == "property" for d in fn.decorator_list)


def is_static(fn):
    return any(ast.unparse(d) == "staticmethod" for d in fn.decorator_list)


def strip_doc(body):
    if body and isinstance(body[0], ast.Expr) and isinstance(body[0].value, ast.Constant) \
            and isinstance(body[0].value.value, str):
        return body[1:]
    return body


def ast_hash(node):
    return hashlib.sha256(ast.dump(node, include_attributes=False).encode()).hexdigest()[:16]
