"""Entry point:  python3-vt -m pyvc.main <Cnn> quick|thorough

Exit codes: 0 held / 1 VIOLATION / 2 undecided / 3 checker fault (DESIGN.md 4).
"""
import importlib
import json
import os
import subprocess
import sys
import time
import traceback

import z3

HERE = os.path.dirname(os.path.dirname(os.path.abspath(__file__)))
sys.path.insert(0, HERE)

from pyvc import front, solve  # noqa: E402
from pyvc.contract import Contract, PyvcExecutor, Shape  # noqa: E402
from pyvc.execu import Obligation  # noqa: E402
from pyvc.values import Undecided  # noqa: E402

VENV_PY = "/venv/bin/python"


class Prop:
    """What a property module (contracts/Cnn.py) hands to the driver."""

    def __init__(self, pid):
        self.pid = pid
        self.contracts = {}      # qual -> Contract (all contracts known: used at call sites)
        self.verify = []         # contracts whose function bodies are verified for this property
        self.lemmas = []         # (name, callable() -> (assumptions, goal)) spec-level lemmas
        self.shapes = {}
        self.lib = {}
        self.specns = {}
        self.axioms = []
        self.assumptions = []    # strings
        self.trusted = []        # strings
        self.uncovered = []      # strings
        self.bounded = []        # (name, callable(tier, seed) -> dict) bounded stand-ins, never counted as proved
        self.replays = {}        # obligation-name prefix -> replay spec dict(adapter=..., extract=callable(model)->payload)
        self.native = []         # native witness searches: dict(name, adapter, payloads(seed, tier))
        self.syntactic = []      # (name, callable() -> (ok, detail)) wiring checks over the real AST
        self.extra_contracts = []

    def contract(self, qual, verify=True, **kw):
        c = Contract(qual, prop=self.pid, **kw)
        key = qual if not kw.get("variant") else qual + "#" + kw["variant"]
        if not kw.get("variant"):
            self.contracts[qual] = c
        else:
            self.extra_contracts.append(c)
        if verify:
            self.verify.append(c)
        return c

    def shape(self, name, cls, fields):
        self.shapes[name] = Shape(name, cls, fields)
        return self.shapes[name]


def load_known():
    p = os.path.join(HERE, "known_findings.json")
    if not os.path.exists(p):
        return []
    return json.load(open(p)).get("findings", [])


def run_replay(adapter, payload, timeout=600):
    """Run a native replay adapter under the repository's interpreter against /repo."""
    script = os.path.join(HERE, "replays", "run.py")
    env = dict(os.environ)
    env["PYTHONPATH"] = front.REPO + os.pathsep + env.get("PYTHONPATH", "")
    try:
        p = subprocess.run([VENV_PY, script, adapter], input=json.dumps(payload), capture_output=True, text=True,
                           timeout=timeout, cwd=front.REPO, env=env)
    except subprocess.TimeoutExpired:
        return {"status": "error", "detail": "replay timeout"}
    out = p.stdout.strip().splitlines()
    for line in reversed(out):
        if line.startswith("{"):
            try:
                return json.loads(line)
            except json.JSONDecodeError:
                pass
    return {"status": "error", "detail": (p.stderr or p.stdout)[-2000:]}


def mnum(v):
    """z3 numeral string -> float (rationals, negatives, decimals with '?')"""
    from fractions import Fraction
    t = str(v).replace("?", "").replace(" ", "")
    if t.startswith("(-") and t.endswith(")"):
        t = "-" + t[2:-1]
    try:
        return float(Fraction(t))
    except Exception:
        return None


def mget(model, prefix):
    """value of the first model constant whose name starts with prefix (fresh names carry a !n suffix)"""
    for k, v in (model or {}).items():
        if k == prefix or k.startswith(prefix + "!"):
            return v
    return None


def model_to_json(model):
    out = {}
    if model is None:
        return out
    if isinstance(model, dict):
        return model
    for d in model.decls():
        try:
            out[d.name()] = str(model[d])[:300]
        except Exception:
            pass
    return out


def main(argv):
    pid = argv[1]
    tier = argv[2] if len(argv) > 2 else os.environ.get("VERIF_TIER", "quick")
    seed = int(os.environ.get("VERIF_SEED", "0"))
    t0 = time.time()
    evid_path = os.path.join(HERE, "evidence", f"{pid}.json")
    os.makedirs(os.path.dirname(evid_path), exist_ok=True)
    os.makedirs(os.path.join(HERE, "replays_out", pid), exist_ok=True)
    if os.path.exists(evid_path):
        os.unlink(evid_path)
    undecided = []
    faults = []
    try:
        mod = importlib.import_module(f"contracts.{pid}")
        P = mod.build(tier)
    except Exception as e:
        traceback.print_exc()
        print(f"CHECKER-FAULT property={pid} cannot load contracts: {e}")
        return 3
    ex = PyvcExecutor(P.contracts, P.lib, pid, P.shapes)
    ex.axioms = P.axioms
    ex.specns = P.specns
    ex.enums = getattr(P, 'enums', {})
    ex.vacuity = []
    functions = []
    # ---- generate obligations from the real code
    only = os.environ.get("PYVC_ONLY")
    if only:
        P.verify = [c for c in P.verify if only in c.qual + (c.variant or "")]
        P.lemmas = []
    for c in P.verify:
        try:
            owner, m, fn = front.find_function(c.qual)
            functions.append({"function": c.qual + (f"[{c.variant}]" if c.variant else ""),
                              "file": os.path.relpath(m.path, front.REPO), "line": fn.lineno,
                              "ast_hash": front.ast_hash(fn)})
            n0 = len(ex.obligs)
            np_ = ex.verify(c)
            functions[-1]["paths"] = np_
            functions[-1]["obligations"] = len(ex.obligs) - n0
            if len(ex.obligs) - n0 == 0:
                faults.append(f"zero obligations generated for {c.qual}")
        except (Undecided, front.ExtractError) as e:
            undecided.append({"function": c.qual, "reason": str(e), "contract": c})
            ex.current = None
        except Exception as e:
            traceback.print_exc()
            faults.append(f"executor crashed on {c.qual}: {type(e).__name__}: {e}")
            ex.current = None
    t_gen = time.time() - t0
    # ---- spec-level lemmas
    for name, mk in P.lemmas:
        try:
            assumptions, goal = mk()
            ex.obligs.append(Obligation(f"{pid}.lemma.{name}", assumptions, goal, "lemma", None, name))
        except Exception as e:
            traceback.print_exc()
            faults.append(f"lemma {name} crashed: {e}")
    # ---- dedupe (re-execution emits shared-prefix obligations several times)
    uniq = {}
    for o in ex.obligs:
        key = (o.name.split("@")[0], o.goal.sexpr(), tuple(a.sexpr() for a in o.assumptions))
        if key not in uniq:
            uniq[key] = o
    obligs = list(uniq.values())
    # names unique
    seen = {}
    for o in obligs:
        if o.name in seen:
            seen[o.name] += 1
            o.name = f"{o.name}#{seen[o.name]}"
        else:
            seen[o.name] = 0
    # ---- discharge
    t1 = time.time()
    solve.discharge_all(obligs, P.axioms, tier)
    t_solve = time.time() - t1
    if tier == "thorough":
        # independent second opinion (cvc5 CLI) on everything z3 discharged; informational (recorded per obligation), 16 at a time
        from concurrent.futures import ThreadPoolExecutor
        todo = [o for o in obligs if o.result == "discharged" and (o.backend or "").startswith("z3")]
        texts = [solve.smt2_of(P.axioms, o.assumptions, o.goal) for o in todo]
        with ThreadPoolExecutor(max_workers=16) as tp:
            for o, (r, dt, info) in zip(todo, tp.map(lambda t: solve.check_cvc5(t, 20), texts)):
                o.cvc5 = r
    # ---- encoding cross-check: the executor as an interpreter vs CPython on the same real source (checker fault on disagreement)
    xcheck = None
    if pid in ("C05", "C06", "C11") and (tier == "thorough" or pid == "C11"):
        try:
            from . import crosscheck
            xcheck = crosscheck.run(seed, 25 if tier == "quick" else 150)
            if xcheck["disagreements"]:
                faults.append(f"executor and CPython disagree on a concrete run: {json.dumps(xcheck['first_disagreement'], default=str)[:600]}")
        except Exception as e:
            xcheck = {"error": f"{type(e).__name__}: {e}"}
    # ---- vacuity guards (DESIGN 3.2)
    # (a) the contract's concrete witness provably satisfies the precondition (axioms ∧ witness ⊢ requires),
    #     so the precondition is not contradictory; (b) no path's assumptions are refutable (⊢ False) within budget.
    vac = []
    plain = []
    for vi, (tag, info, returns) in enumerate(ex.vacuity):
        if info is None:
            continue
        if info.get("witness") is None:
            plain.append((("vac", vi), solve.smt2_of(P.axioms, info["pc"], z3.BoolVal(False)), 3000))
        else:
            plain.append((("vac", vi), solve.smt2_of(P.axioms, info["witness"], info["goal"]), 20000))
    by_fn = {}
    for o in obligs:
        if o.kind in ("post", "inv-pres"):
            by_fn.setdefault((o.name.split("@")[0].rsplit(".", 1)[0], o.name.split("@")[-1]), o)
    for (tag, sig), o in by_fn.items():
        plain.append((("can", tag, sig), solve.smt2_of(P.axioms, o.assumptions, z3.BoolVal(False)), 400 if tier == "quick" else 3000))
    pres = solve.run_plain(plain)
    for vi, (tag, info, returns) in enumerate(ex.vacuity):
        rec = {"function": tag, "normal_exit_paths": returns}
        r = pres.get(("vac", vi), ("n/a", 0))[0]
        if info is None:
            rec["precondition"] = "not reached"
        elif info.get("witness") is None:
            rec["precondition"] = {"sat": "satisfiable (z3 model)", "unsat": "CONTRADICTORY"}.get(r, "no witness declared; z3: " + r)
            if r == "unsat":
                faults.append(f"vacuous precondition for {tag}")
        else:
            rec["precondition"] = {"unsat": "witness satisfies it (proved)", "sat": "WITNESS DOES NOT SATISFY"}.get(r, r)
            rec["witness"] = info["witness_text"]
            if r != "unsat":
                faults.append(f"declared witness does not establish the precondition of {tag}: {r}")
        if returns == 0:
            faults.append(f"no normal exit path in {tag}")
        vac.append(rec)
    canaries = []
    for (tag, sig), o in by_fn.items():
        r = pres.get(("can", tag, sig), ("unknown", 0))[0]
        canaries.append({"path": tag + "@" + sig, "false_goal": {"sat": "refuted (good)", "unsat": "VERIFIED: PATH ASSUMPTIONS CONTRADICTORY",
                                                                   "unknown": "not provable within budget (good)"}.get(r, r)})
        if r == "unsat":
            faults.append(f"contradictory assumptions on path {tag}@{sig} (false goal verifies)")
    # ---- syntactic wiring checks over the real AST
    synt = []
    for name, fnc in P.syntactic:
        try:
            ok, detail = fnc()
        except (Undecided, front.ExtractError) as e:
            undecided.append({"function": name, "reason": str(e)})
            continue
        o = Obligation(f"{pid}.wiring.{name}", [], z3.BoolVal(bool(ok)), "wiring", None, detail)
        o.result = "discharged" if ok else "refuted"
        o.backend = "ast-match"
        o.reason = detail
        obligs.append(o)
    # ---- bounded stand-ins / native witness search
    bounded = []
    native_fail = []
    # reproduction scripts registered in replays/demos/INDEX.json (regression guards of repaired defects, known findings)
    try:
        index = json.load(open(os.path.join(HERE, "replays", "demos", "INDEX.json")))
    except (OSError, ValueError):
        index = {}
    for name, ent in sorted(index.items()):
        if ent.get("property") == pid:
            P.native.append(dict(name=name, adapter="demos:run", payload={"name": name, "budget_s": 420}, thorough_only=not ent.get("quick", False),
                                 bound="script replays/demos/%s.py: %s" % (name, ent.get("what", ""))))
    todo = [nat for nat in P.native if not (tier == "quick" and nat.get("thorough_only"))]

    def run_native(nat):
        payload = nat["payload"](seed, tier) if callable(nat.get("payload")) else nat.get("payload", {})
        return run_replay(nat["adapter"], dict(payload, seed=seed, tier=tier), nat.get("timeout", 900))
    from concurrent.futures import ThreadPoolExecutor
    with ThreadPoolExecutor(max_workers=6) as tp:
        results = list(tp.map(run_native, todo))
    for nat, r in zip(todo, results):
        bounded.append({"name": nat["name"], "adapter": nat["adapter"], "bound": nat.get("bound", ""),
                        "status": r.get("status"), "cases": r.get("cases"), "detail": str(r.get("detail", ""))[:500]})
        if r.get("status") == "fail":
            native_fail.append((nat, r))
        elif r.get("status") == "error" and "replay timeout" not in str(r.get("detail")):
            faults.append(f"native check {nat['name']} errored: {str(r.get('detail'))[-400:]}")
    # ---- verdict
    known = [k for k in load_known() if k["property"] == pid and k.get("status") == "known"]
    violations = []
    known_hits = []
    unknowns = [o for o in obligs if o.result == "unknown"]
    for o in obligs:
        if o.result != "refuted":
            continue
        base = o.name.split("@")[0]
        hit = None
        for k in known:
            if base.startswith(k["obligation"]):
                hit = k
                break
        if hit:
            known_hits.append((hit, o))
        else:
            violations.append(o)
    for nat, r in native_fail:
        hit = None
        for k in known:
            if k["obligation"] == "native:" + nat["name"] and k.get("witness_key") == r.get("witness_key"):
                hit = k
        if hit:
            known_hits.append((hit, None))
        else:
            o = Obligation(f"{pid}.native.{nat['name']}", [], z3.BoolVal(False), "native", None, str(r.get("detail")))
            o.result = "refuted"
            o.native = r
            violations.append(o)
    # ---- replay of refutations
    out_lines = []
    vio_records = []
    demoted = []
    for o in violations:
        rp = None
        for prefix, spec in P.replays.items():
            if o.name.split("@")[0].startswith(prefix) or prefix in o.name:
                rp = spec
                break
        if rp is None and getattr(o, "contract", None) is not None and o.contract.replay:
            rp = o.contract.replay if isinstance(o.contract.replay, dict) else {"adapter": o.contract.replay}
        rec = {"obligation": o.name, "kind": o.kind, "clause": o.note, "line": o.line, "backend": o.backend,
               "solver_model": model_to_json(o.model), "reason": o.reason}
        replayed = None
        if getattr(o, "native", None) is not None:
            replayed = o.native
        elif rp is not None:
            try:
                payload = rp["extract"](o.model) if (o.model is not None and rp.get("extract")) else None
            except Exception as e:
                payload = None
                rec["extract_error"] = str(e)
            if payload is not None:
                r = run_replay(rp["adapter"], dict(payload, mode="replay"))
                if r.get("status") == "fail":
                    replayed = r
                rec["replay_of_model"] = r
            if replayed is None and rp.get("search", True):
                r = run_replay(rp["adapter"], dict(rp.get("payload", {}), mode="search", seed=seed, tier=tier))
                rec["replay_search"] = {k: r.get(k) for k in ("status", "cases", "detail")}
                if r.get("status") == "fail":
                    replayed = r
        rec["failing_input"] = replayed
        path = os.path.join(HERE, "replays_out", pid, o.name.replace("/", "_").replace("@", "_at_")[:150] + ".json")
        json.dump(rec, open(path, "w"), indent=1, default=str)
        internal = o.kind in ("inv-init", "inv-pres", "ghost-assert", "decreases", "lemma")
        if internal and not replayed:
            # a refuted *proof-internal* obligation (loop invariant, intermediate assertion) without any failing input of
            # the real function is a failed proof, not a shown property violation: undecided (DESIGN 4)
            undecided.append({"obligation": o.name, "reason": "internal proof obligation refuted by the solver, but the native "
                              "contract check of the function found no failing input", "clause": o.note})
            demoted.append(o)
            continue
        suffix = "" if replayed else " no-failing-input-found"
        out_lines.append(f"VIOLATION property={pid} replay={path}{suffix}")
        vio_records.append(rec)
    violations = [o for o in violations if o not in demoted]
    tried = {}
    for o in unknowns:
        c = getattr(o, "contract", None)
        rp = (c.replay if isinstance(c.replay, dict) else {"adapter": c.replay}) if (c is not None and c.replay) else None
        found = None
        if rp is not None:
            if rp["adapter"] + str(rp.get("payload", "")) not in tried:
                tried[rp["adapter"] + str(rp.get("payload", ""))] = run_replay(rp["adapter"], dict(rp.get("payload", {}), mode="search", seed=seed, tier=tier))
            r = tried[rp["adapter"] + str(rp.get("payload", ""))]
            if r.get("status") == "fail":
                found = r
        if found is not None:
            rec = {"obligation": o.name, "kind": o.kind, "clause": o.note, "solver": "unknown: " + o.reason,
                   "failing_input": found, "note": "solver could not decide this obligation; the native contract check of the same function found a failing input"}
            path = os.path.join(HERE, "replays_out", pid, o.name.replace("/", "_").replace("@", "_at_")[:150] + ".json")
            json.dump(rec, open(path, "w"), indent=1, default=str)
            out_lines.append(f"VIOLATION property={pid} replay={path}")
            vio_records.append(rec)
            violations.append(o)
        else:
            undecided.append({"obligation": o.name, "reason": "solver unknown: " + o.reason})
    # functions that left the supported subset: the native contract check of that function still searches for a witness
    for u in undecided:
        c = u.pop("contract", None)
        if c is None or not c.replay:
            continue
        rp = c.replay if isinstance(c.replay, dict) else {"adapter": c.replay}
        if rp["adapter"] + str(rp.get("payload", "")) not in tried:
            tried[rp["adapter"] + str(rp.get("payload", ""))] = run_replay(rp["adapter"], dict(rp.get("payload", {}), mode="search", seed=seed, tier=tier))
        r = tried[rp["adapter"] + str(rp.get("payload", ""))]
        u["native_search"] = r.get("status")
        if r.get("status") == "fail":
            rec = {"obligation": f"{pid}.{c.short}.contract", "kind": "native", "clause": "; ".join(c.ensures),
                   "solver": "function outside the supported subset: " + u["reason"], "failing_input": r}
            path = os.path.join(HERE, "replays_out", pid, f"{c.short}.contract.json".replace("/", "_"))
            json.dump(rec, open(path, "w"), indent=1, default=str)
            out_lines.append(f"VIOLATION property={pid} replay={path}")
            vio_records.append(rec)
            violations.append(rec)
    discharged = [o for o in obligs if o.result == "discharged"]
    counted = [o for o in obligs if not any(o is x[1] for x in known_hits)]
    for hit, o in known_hits:
        print(f"KNOWN-FINDING: property={pid} {hit['what']}")
    # ---- evidence
    per_ob = [{"name": o.name, "kind": o.kind, "result": o.result, "backend": o.backend,
               "seconds": round(o.seconds, 4), "clause": (o.note or "")[:200],
               **({"cvc5": o.cvc5} if hasattr(o, "cvc5") else {})} for o in obligs]
    samples = []
    for o in obligs[:3]:
        if o.kind != "wiring":
            try:
                samples.append({"name": o.name, "clause": o.note,
                                "smt2_head": solve.smt2_of([], o.assumptions[-3:], o.goal)[:800]})
            except Exception:
                pass
    if not samples:
        samples = [{"name": o.name, "clause": o.note} for o in obligs[:3]]
    ev = {
        "property_id": pid, "tier": tier, "seed": seed, "level": "proof",
        "coverage": {
            "obligations": len(counted), "discharged": len([o for o in counted if o.result == "discharged"]),
            "checker_cmd": f"./check {pid} {tier}",
            "trusted_base": ["pyvc (AST front end, symbolic executor, VC generator) in /verif/pyvc",
                             "z3 5.1.0 / cvc5 1.0.3", "CPython ast module (3.11) parsing /repo sources"] + P.trusted,
            "samples": samples,
            "functions_under_contract": functions,
            "per_obligation": per_ob,
            "backends": sorted({o.backend for o in obligs if o.backend}),
            "solver_time_s": round(sum(o.seconds for o in obligs), 3),
            "vacuity": vac, "canaries": canaries,
            "bounded_standins": bounded,
            "encoding_crosscheck": xcheck,
            "uncovered_clauses": P.uncovered,
            "undecided": undecided,
            "known_findings": [{"obligation": (o.name if o else "native"), "what": hit["what"]} for hit, o in known_hits],
            "paths_explored": len(ex.paths),
            "inlined_callees": sorted(set(ex.inline_log)),
        },
        "assumptions": P.assumptions,
        "wall_s": round(time.time() - t0, 2),
        "violations": len(violations),
    }
    json.dump(ev, open(evid_path, "w"), indent=1, default=str)
    nd = ev["coverage"]["discharged"]
    print(f"[{pid}] functions={len(functions)} obligations={len(counted)} discharged={nd} refuted={len(violations)} "
          f"unknown={len(unknowns)} undecided_functions={len([u for u in undecided if 'function' in u])} "
          f"solver_time={ev['coverage']['solver_time_s']}s wall={ev['wall_s']}s (generate {t_gen:.1f}s, discharge {t_solve:.1f}s)")
    for ln in out_lines:
        print(ln)
    if violations:
        for rec in vio_records:
            print(f"  refuted: {rec['obligation']} :: {rec['clause']}")
        return 1
    if faults:
        for f in faults:
            print(f"CHECKER-FAULT property={pid} {f}")
        return 3
    if undecided:
        for u in undecided:
            print(f"UNDECIDED property={pid} {u}")
        return 2
    return 0


if __name__ == "__main__":
    sys.exit(main(sys.argv))
