"""Discharge of obligations: z3 (primary, in process), cvc5 CLI as second opinion on z3's unknowns."""
import os
import subprocess
import tempfile
import time

import z3

QUICK_MS = int(os.environ.get("PYVC_Z3_MS", "20000"))
CVC5 = "/usr/bin/cvc5"


def smt2_of(axioms, assumptions, goal):
    s = z3.Solver()
    for a in axioms:
        s.add(a)
    for a in assumptions:
        s.add(a)
    s.add(z3.Not(goal))
    return s.to_smt2()


def check_z3(axioms, assumptions, goal, timeout_ms, config=None):
    s = z3.Solver()
    s.set("timeout", timeout_ms)
    if config:
        for k, v in config.items():
            s.set(k, v)
    for a in axioms:
        s.add(a)
    for a in assumptions:
        s.add(a)
    s.add(z3.Not(goal))
    t0 = time.time()
    r = s.check()
    dt = time.time() - t0
    model = None
    reason = ""
    if r == z3.sat:
        model = s.model()
    elif r == z3.unknown:
        reason = s.reason_unknown()
    return str(r), dt, model, reason


def check_z3_cli(smt2, timeout_s, binary="/usr/bin/z3"):
    if not os.path.exists(binary):
        return "unknown", 0.0
    with tempfile.NamedTemporaryFile("w", suffix=".smt2", delete=False) as f:
        f.write(smt2)
        path = f.name
    t0 = time.time()
    try:
        p = subprocess.run([binary, f"-T:{int(timeout_s)}", path], capture_output=True, text=True, timeout=timeout_s + 5)
        out = (p.stdout or "").strip().splitlines()
        res = out[0] if out else "unknown"
        return (res if res in ("sat", "unsat") else "unknown"), time.time() - t0
    except subprocess.TimeoutExpired:
        return "unknown", time.time() - t0
    finally:
        os.unlink(path)


def check_cvc5(smt2, timeout_s):
    if not os.path.exists(CVC5):
        return "unknown", 0.0, "cvc5 not found"
    with tempfile.NamedTemporaryFile("w", suffix=".smt2", delete=False) as f:
        f.write("(set-logic ALL)\n" + smt2)
        path = f.name
    t0 = time.time()
    try:
        p = subprocess.run([CVC5, "--lang", "smt2", f"--tlimit={int(timeout_s * 1000)}", path],
                           capture_output=True, text=True, timeout=timeout_s + 5)
        out = (p.stdout or "").strip().splitlines()
        res = out[0] if out else "unknown"
        if res not in ("sat", "unsat", "unknown"):
            res = "unknown"
        return res, time.time() - t0, (p.stderr or "")[:200]
    except subprocess.TimeoutExpired:
        return "unknown", time.time() - t0, "timeout"
    finally:
        os.unlink(path)


_nl = {}


def is_nonlinear(f):
    k = f.get_id()
    if k in _nl:
        return _nl[k]
    r = False
    stack, seen = [f], set()
    while stack:
        x = stack.pop()
        if x.get_id() in seen:
            continue
        seen.add(x.get_id())
        if z3.is_app(x):
            kd = x.decl().kind()
            if kd == z3.Z3_OP_MUL:
                if sum(1 for ch in x.children() if not (z3.is_int_value(ch) or z3.is_rational_value(ch))) >= 2:
                    r = True
                    break
            elif kd in (z3.Z3_OP_DIV, z3.Z3_OP_IDIV, z3.Z3_OP_MOD):
                d = x.children()[1]
                if not (z3.is_int_value(d) or z3.is_rational_value(d)):
                    r = True
                    break
            stack.extend(x.children())
        elif z3.is_quantifier(x):
            stack.append(x.body())
    _nl[k] = r
    return r


def has_quant(f):
    stack, seen = [f], set()
    while stack:
        x = stack.pop()
        if x.get_id() in seen:
            continue
        seen.add(x.get_id())
        if z3.is_quantifier(x):
            return True
        stack.extend(x.children())
    return False


def discharge(ob, axioms, tier="quick"):
    """Sets ob.result in {'discharged','refuted','unknown'}.

    Portfolio (every step is sound): (A) all assumptions, short budget; (B) the same goal from a *subset* of the
    assumptions (non-linear ones dropped) - unsat from fewer assumptions is still a proof; (C) quantifier-free
    subset (lets the non-linear engine work alone); (D) all assumptions, full budget; (E) cvc5 on z3's unknown.
    Only a `sat` obtained with ALL assumptions counts as a refutation."""
    goal = ob.goal
    budget = QUICK_MS if tier == "quick" else 6 * QUICK_MS
    short = min(10000, budget)
    ob.backend = "z3"
    ob.seconds = 0.0
    strategy = "all"
    r, model, reason = "unknown", None, ""
    lin = [a for a in ob.assumptions if not is_nonlinear(a)]
    if len(lin) < len(ob.assumptions):
        r2, dt2, _, _ = check_z3(axioms, lin, goal, 2500)
        ob.seconds += dt2
        if r2 == "unsat":
            r, strategy = "unsat", "linear-subset"
    if r == "unknown":
        r, dt, model, reason = check_z3(axioms, ob.assumptions, goal, short)
        ob.seconds += dt
    if r == "unknown":
        qf = [a for a in ob.assumptions if not has_quant(a)]
        if len(qf) < len(ob.assumptions) and not has_quant(goal):
            r2, dt2, _, _ = check_z3([], qf, goal, 3000)
            ob.seconds += dt2
            if r2 == "unsat":
                r, strategy = "unsat", "quantifier-free-subset"
    if r == "unknown" and budget > short:
        r, dt, model, reason = check_z3(axioms, ob.assumptions, goal, budget)
        ob.seconds += dt
    if r == "unknown":
        smt2 = smt2_of(axioms, ob.assumptions, goal)
        r3, dt3, info = check_cvc5(smt2, budget / 1000.0)
        ob.seconds += dt3
        if r3 == "unsat":
            r = "unsat"
            ob.backend = "cvc5"
        elif r3 == "sat":
            r = "sat-cvc5"
            ob.backend = "cvc5"
        reason = reason + " | cvc5: " + info
    ob.strategy = strategy
    if r == "unsat":
        ob.result = "discharged"
    elif r == "sat":
        ob.result = "refuted"
        ob.model = model
    elif r == "sat-cvc5":
        ob.result = "refuted"
        ob.model = None
        ob.reason = "cvc5 reports sat (no model extracted)"
    else:
        ob.result = "unknown"
        ob.reason = reason
    return ob


def _work(task):
    """Runs in a worker process: a fresh z3 context per obligation (verdicts do not depend on what was solved
    before).  task = (index, [(label, smt2, timeout_ms, accept_sat)], budget_s).  Portfolio on the full problem,
    concurrently: z3 5.1 (API) and the older z3 4.8.12 binary (different E-matching/arithmetic heuristics); then
    other random seeds; then cvc5.  Any `unsat` is a proof (also from a subset of the assumptions); only a `sat`
    on the full problem counts as a refutation."""
    idx, variants, budget_s = task
    import z3 as z
    total = 0.0
    last_reason = ""
    full_smt2 = [v[1] for v in variants if v[3]][0]
    t_start = time.time()
    old = None
    path = None
    if os.path.exists("/usr/bin/z3") and len(full_smt2) > 0:
        with tempfile.NamedTemporaryFile("w", suffix=".smt2", delete=False) as f:
            f.write(full_smt2)
            path = f.name
        old = subprocess.Popen(["/usr/bin/z3", f"-T:{int(budget_s)}", path], stdout=subprocess.PIPE, stderr=subprocess.DEVNULL, text=True)

    def poll_old(wait=0.0):
        nonlocal old
        if old is None:
            return None
        try:
            out, _ = old.communicate(timeout=wait) if wait > 0 else ((old.stdout.read(), None) if old.poll() is not None else (None, None))
        except subprocess.TimeoutExpired:
            return None
        if out is None:
            return None
        old = None
        res = out.strip().splitlines()[0] if out.strip() else "unknown"
        return res if res in ("sat", "unsat") else "unknown"

    def finish(*ret):
        nonlocal old
        if old is not None:
            old.kill()
            old.communicate()
        if path:
            try:
                os.unlink(path)
            except OSError:
                pass
        return ret

    for label, smt2, tmo, accept_sat in variants:
        ro = poll_old()
        if ro == "unsat":
            return finish(idx, "discharged", "z3-4.8.12", "all", time.time() - t_start, None, "")
        ctx = z.Context()
        sol = z.Solver(ctx=ctx)
        sol.set("timeout", tmo)
        try:
            sol.from_string(smt2)
            r = str(sol.check())
        except z.Z3Exception as e:
            r = "unknown"
            last_reason = f"z3 exception: {e}"
        if r == "unsat":
            return finish(idx, "discharged", "z3", label, time.time() - t_start, None, "")
        if r == "sat" and accept_sat:
            m = sol.model()
            md = {}
            for d in m.decls():
                try:
                    md[d.name()] = str(m[d])[:400]
                except Exception:
                    pass
            return finish(idx, "refuted", "z3", label, time.time() - t_start, md, "")
        if r == "unknown":
            try:
                last_reason = sol.reason_unknown()
            except Exception:
                pass
    ro = poll_old(wait=max(0.1, budget_s - (time.time() - t_start)))
    if ro == "unsat":
        return finish(idx, "discharged", "z3-4.8.12", "all", time.time() - t_start, None, "")
    if ro == "sat":
        return finish(idx, "refuted", "z3-4.8.12", "all", time.time() - t_start, None, "z3 4.8.12 reports sat (no model extracted)")
    for seed in (2, 7):
        ctx = z.Context()
        sol = z.Solver(ctx=ctx)
        sol.set("timeout", int(budget_s * 500))
        sol.set("random_seed", seed)
        try:
            sol.from_string(full_smt2)
            r = str(sol.check())
        except z.Z3Exception:
            r = "unknown"
        if r == "unsat":
            return finish(idx, "discharged", "z3", f"all/seed{seed}", time.time() - t_start, None, "")
    r3, dt3, info = check_cvc5(full_smt2, budget_s)
    if r3 == "unsat":
        return finish(idx, "discharged", "cvc5", "all", time.time() - t_start, None, "")
    if r3 == "sat":
        return finish(idx, "refuted", "cvc5", "all", time.time() - t_start, None, "cvc5 reports sat (no model extracted)")
    last_reason += " | cvc5: " + info
    return finish(idx, "unknown", "z3", "all", time.time() - t_start, None, last_reason)


def discharge_all(obligs, axioms, tier="quick", procs=None):
    """Portfolio per obligation (every step sound, see discharge()), each in a fresh process-local z3 context,
    farmed to a process pool."""
    import multiprocessing as mp
    budget = QUICK_MS if tier == "quick" else 6 * QUICK_MS
    tasks = []
    for i, ob in enumerate(obligs):
        variants = []
        full = smt2_of(axioms, ob.assumptions, ob.goal)
        variants.append(("all", full, 2000, True))
        lin = [a for a in ob.assumptions if not is_nonlinear(a)]
        if len(lin) < len(ob.assumptions) and not is_nonlinear(ob.goal):
            variants.append(("linear-subset", smt2_of(axioms, lin, ob.goal), 3000, False))
        qf = [a for a in ob.assumptions if not has_quant(a)]
        if len(qf) < len(ob.assumptions) and not has_quant(ob.goal):
            variants.append(("quantifier-free-subset", smt2_of([], qf, ob.goal), 3000, False))
        variants.append(("all", full, budget, True))
        tasks.append((i, variants, budget / 1000.0))
    procs = procs or min(16, os.cpu_count() or 4)
    ctx = mp.get_context("fork")
    with ctx.Pool(processes=procs) as pool:
        for idx, result, backend, label, secs, model, reason in pool.imap_unordered(_work, tasks, chunksize=1):
            ob = obligs[idx]
            ob.result, ob.backend, ob.strategy, ob.seconds, ob.reason = result, backend, label, secs, reason
            ob.model = model
    return obligs


def _plain(task):
    key, smt2, tmo = task
    import z3 as z
    ctx = z.Context()
    sol = z.Solver(ctx=ctx)
    sol.set("timeout", tmo)
    t0 = time.time()
    try:
        sol.from_string(smt2)
        r = str(sol.check())
    except z.Z3Exception:
        r = "unknown"
    return key, r, time.time() - t0


def run_plain(tasks, procs=None):
    """tasks: [(key, smt2, timeout_ms)] -> {key: (result, seconds)} using the process pool."""
    import multiprocessing as mp
    if not tasks:
        return {}
    procs = procs or min(16, os.cpu_count() or 4)
    out = {}
    with mp.get_context("fork").Pool(processes=procs) as pool:
        for key, r, dt in pool.imap_unordered(_plain, tasks, chunksize=4):
            out[key] = (r, dt)
    return out


def second_opinion(ob, axioms, timeout_s=60):
    smt2 = smt2_of(axioms, ob.assumptions, ob.goal)
    return check_cvc5(smt2, timeout_s)
