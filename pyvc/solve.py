"""Discharge of obligations: z3 (primary, in process), cvc5 CLI as second opinion on z3's unknowns."""
import os
import subprocess
import tempfile
import time

import z3

QUICK_MS = int(os.environ.get("PYVC_Z3_MS", "20000"))
CVC5 = "/usr/bin/cvc5"


def smt2_of(axioms, assumptions, goal):
    s = z3.Solver()
    for a in axioms:
        s.add(a)
    for a in assumptions:
        s.add(a)
    s.add(z3.Not(goal))
    return s.to_smt2()


def check_z3(axioms, assumptions, goal, timeout_ms, config=None):
    s = z3.Solver()
    s.set("timeout", timeout_ms)
    if config:
        for k, v in config.items():
            s.set(k, v)
    for a in axioms:
        s.add(a)
    for a in assumptions:
        s.add(a)
    s.add(z3.Not(goal))
    t0 = time.time()
    r = s.check()
    dt = time.time() - t0
    model = None
    reason = ""
    if r == z3.sat:
        model = s.model()
    elif r == z3.unknown:
        reason = s.reason_unknown()
    return str(r), dt, model, reason


def check_cvc5(smt2, timeout_s):
    if not os.path.exists(CVC5):
        return "unknown", 0.0, "cvc5 not found"
    with tempfile.NamedTemporaryFile("w", suffix=".smt2", delete=False) as f:
        f.write("(set-logic ALL)\n" + smt2)
        path = f.name
    t0 = time.time()
    try:
        p = subprocess.run([CVC5, "--lang", "smt2", f"--tlimit={int(timeout_s * 1000)}", path],
                           capture_output=True, text=True, timeout=timeout_s + 5)
        out = (p.stdout or "").strip().splitlines()
        res = out[0] if out else "unknown"
        if res not in ("sat", "unsat", "unknown"):
            res = "unknown"
        return res, time.time() - t0, (p.stderr or "")[:200]
    except subprocess.TimeoutExpired:
        return "unknown", time.time() - t0, "timeout"
    finally:
        os.unlink(path)


def discharge(ob, axioms, tier="quick"):
    """Sets ob.result in {'discharged','refuted','unknown'}; a quantified `sat` from z3 is only trusted as a
    refutation when the model is complete (z3 returns sat only with a model it checked)."""
    goal = ob.goal
    budget = QUICK_MS if tier == "quick" else 6 * QUICK_MS
    r, dt, model, reason = check_z3(axioms, ob.assumptions, goal, budget)
    ob.backend = "z3"
    ob.seconds = dt
    if r == "unknown":
        # second configuration, then cvc5
        if True:
            smt2 = smt2_of(axioms, ob.assumptions, goal)
            r3, dt3, info = check_cvc5(smt2, budget / 1000.0)
            ob.seconds += dt3
            if r3 == "unsat":
                r = "unsat"
                ob.backend = "cvc5"
            elif r3 == "sat":
                r = "sat-cvc5"
                ob.backend = "cvc5"
            reason = reason + " | cvc5: " + info
    if r == "unsat":
        ob.result = "discharged"
    elif r == "sat":
        ob.result = "refuted"
        ob.model = model
    elif r == "sat-cvc5":
        ob.result = "refuted"
        ob.model = None
        ob.reason = "cvc5 reports sat (no model extracted)"
    else:
        ob.result = "unknown"
        ob.reason = reason
    return ob


def second_opinion(ob, axioms, timeout_s=60):
    smt2 = smt2_of(axioms, ob.assumptions, ob.goal)
    return check_cvc5(smt2, timeout_s)
