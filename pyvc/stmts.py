"""Statement execution (single path; forks are taken by re-execution, see driver.py)."""
import ast

import z3

from . import front
from .execu import (BREAK, CONTINUE, NORMAL, RAISE, RETURN, EnumV, Executor, Frame, RangeV, ReversedV, State, ZipV,
                    conj, to_bool, z3ify)
from .values import (BoundMethod, Closure, Fn, FuncRef, ModRef, Obj, Opaque, Opt, PathEnd, PyRaise, Seq, Undecided,
                     fresh, fresh_name, is_sym, realval, sort_of)


NOT_EXCEPTION = {"KeyboardInterrupt", "SystemExit", "GeneratorExit"}


def builtin_ancestors(name):
    """name and its base classes, for built-in exception classes (CPython's hierarchy); unknown names have no known bases"""
    import builtins
    c = getattr(builtins, name, None)
    if isinstance(c, type) and issubclass(c, BaseException):
        return {k.__name__ for k in c.__mro__}
    return {name}


class StmtMixin:
    def exec_block(self, stmts, st, fr):
        for s in stmts:
            r = self.exec_stmt(s, st, fr)
            if r[0] != NORMAL:
                return r
        return (NORMAL, None)

    def exec_stmt(self, s, st, fr):
        m = getattr(self, "st_" + type(s).__name__, None)
        if m is None:
            raise Undecided(f"unsupported statement {type(s).__name__} at line {s.lineno} in {fr.qual}")
        try:
            r = m(s, st, fr)
        except PyRaise as e:
            return (RAISE, (e.exc, e.msg, getattr(s, "lineno", None)))
        if r is None and isinstance(s, (ast.Assign, ast.AugAssign, ast.Expr)):
            c = self.contract_for(fr)
            if c is not None and c.ghost_after:
                txt = ast.unparse(s)
                for key, stmts in c.ghost_after.items():
                    if txt.startswith(key):
                        for gs in stmts:
                            c.exec_ghost(self, gs, st, fr)
        return r if r is not None else (NORMAL, None)

    # ---- simple statements
    def st_Pass(self, s, st, fr):
        return None

    def st_Expr(self, s, st, fr):
        if isinstance(s.value, ast.Constant):
            return None
        if self.is_dropped_call(s.value):
            return None
        self.ev(s.value, st, fr)

    DROPPED = ("warnings.warn", "print", "logger.", "logging.", "pbar.", "wandb.", "tqdm")

    def is_dropped_call(self, e):
        if isinstance(e, ast.Call):
            t = ast.unparse(e.func)
            return any(t == d or t.startswith(d) for d in self.DROPPED)
        return False

    def st_Assign(self, s, st, fr):
        v = self.ev(s.value, st, fr)
        for t in s.targets:
            self.assign_target(t, v, st, fr)

    def st_AnnAssign(self, s, st, fr):
        if s.value is not None:
            self.assign_target(s.target, self.ev(s.value, st, fr), st, fr)

    def st_AugAssign(self, s, st, fr):
        if isinstance(s.target, ast.Subscript):
            base = self.ev(s.target.value, st, fr)
            if hasattr(base, "masked_iop"):
                idx = self.ev_index(s.target.slice, st, fr)
                base.masked_iop(idx, s.op, self.ev(s.value, st, fr), self, st)
                return
        if isinstance(s.target, ast.Name):
            cur = self.ev(s.target, st, fr)
        elif isinstance(s.target, ast.Attribute):
            cur = self.ev(s.target, st, fr)
        else:
            cur = self.ev(s.target, st, fr)
        rhs = self.ev(s.value, st, fr)
        if hasattr(cur, "iop"):
            r = cur.iop(self, st, s.op, rhs)
            if r is not None:
                self.assign_target(s.target, r, st, fr)
            return
        self.assign_target(s.target, self.binop(s.op, cur, rhs, st, s), st, fr)

    def assign_target(self, t, v, st, fr):
        if isinstance(t, ast.Name):
            st.locals[t.id] = v
        elif isinstance(t, (ast.Tuple, ast.List)):
            items = self.iter_concrete(v, st) if not isinstance(v, (tuple, list)) else list(v)
            if len(items) != len(t.elts):
                raise PyRaise("ValueError", "unpack")
            for e, x in zip(t.elts, items):
                self.assign_target(e, x, st, fr)
        elif isinstance(t, ast.Attribute):
            base = self.ev(t.value, st, fr)
            self.setattr(base, t.attr, v, st, fr)
        elif isinstance(t, ast.Subscript):
            base = self.ev(t.value, st, fr)
            idx = self.ev_index(t.slice, st, fr)
            self.setitem(base, idx, v, st, t)
        else:
            raise Undecided(f"assignment target {type(t).__name__}")

    def setattr(self, base, name, v, st, fr):
        if isinstance(base, Obj):
            if name not in base.fields and base.cls.startswith("agilerl"):
                r = front.find_setter(base.cls, name)
                if r is not None:
                    owner, mod, fn = r
                    self.call_function(owner, mod, fn, [base, v], {}, st, fr)
                    return
            if base.cls.startswith("agilerl") and not getattr(self, "_in_setattr", False):
                r = front.find_method(base.cls, "__setattr__")
                if r is not None:
                    self._in_setattr = True
                    try:
                        self.call_function(r[0], r[1], r[2], [base, name, v], {}, st, fr)
                    finally:
                        self._in_setattr = False
                    return
            base.fields[name] = v
            return
        if hasattr(base, "setattr"):
            base.setattr(self, st, name, v)
            return
        raise Undecided(f"attribute store on {type(base).__name__}.{name}")

    def setitem(self, base, idx, v, st, node=None):
        if isinstance(base, Opt):
            base = self.unwrap_opt(base, st, "subscript store")
        if hasattr(base, "setitem"):
            base.setitem(self, st, idx, v)
            return
        if isinstance(base, Obj) and base.cls.startswith("agilerl"):
            r = front.find_method(base.cls, "__setitem__")
            if r is not None:
                self.call_function(r[0], r[1], r[2], [base, idx, v], {}, st, self.top_frame, getattr(node, "lineno", "?"))
                return
        if isinstance(base, Seq):
            if isinstance(idx, slice):
                raise Undecided("slice store on Seq")
            i = z3ify(idx)
            if isinstance(idx, int) and idx < 0:
                i = z3.simplify(z3ify(base.len) + idx)
            inb = self.in_bounds(i, base.len)
            if not self.feasible(st, inb):
                raise PyRaise("IndexError")
            if self.feasible(st, z3.Not(inb)):
                if not self.decide(st, inb):
                    raise PyRaise("IndexError")
            vz = z3ify(v)
            if base.elem == "real" and isinstance(vz, z3.ArithRef) and vz.sort() == z3.IntSort():
                vz = z3.ToReal(vz)
            base.arr = z3.Store(base.arr, i, vz)
            return
        if isinstance(base, list):
            if is_sym(idx):
                raise Undecided("symbolic index store on concrete list")
            try:
                base[idx] = v
            except IndexError:
                raise PyRaise("IndexError")
            return
        if isinstance(base, dict):
            if is_sym(idx):
                raise Undecided("symbolic dict key store")
            base[idx] = v
            return
        raise Undecided(f"subscript store on {type(base).__name__} at line {getattr(node, 'lineno', '?')}")

    def st_Return(self, s, st, fr):
        return (RETURN, self.ev(s.value, st, fr) if s.value is not None else None)

    def st_Break(self, s, st, fr):
        return (BREAK, None)

    def st_Continue(self, s, st, fr):
        return (CONTINUE, None)

    def st_Assert(self, s, st, fr):
        c = self.ev(s.test, st, fr)
        if not self.decide(st, c):
            return (RAISE, ("AssertionError", "", s.lineno))

    def st_Raise(self, s, st, fr):
        if s.exc is None:
            return (RAISE, ("reraise", "", s.lineno))
        e = s.exc
        name = None
        if isinstance(e, ast.Call) and isinstance(e.func, ast.Name) and hasattr(st.locals.get(e.func.id), "exc_name"):
            t = st.locals[e.func.id]
            if hasattr(t, "construct"):                                         # modelled exception class: constructing it may itself fail
                inst = t.construct(self, st, [self.ev(a, st, fr) for a in e.args])
                return (RAISE, (inst.exc_name, "", s.lineno))
            return (RAISE, (t.exc_name, "", s.lineno))      # raise exctype(value) with a symbolic type
        if isinstance(e, (ast.Name, ast.IfExp)):
            v = self.ev(e, st, fr)
            if hasattr(v, "exc_name"):                                          # raise <exception instance>
                return (RAISE, (v.exc_name, "", s.lineno))
        if isinstance(e, ast.Call):
            name = ast.unparse(e.func)
        else:
            name = ast.unparse(e)
        return (RAISE, (name.split(".")[-1], "", s.lineno))

    def st_If(self, s, st, fr):
        c = self.ev(s.test, st, fr)
        if self.decide(st, c):
            st.trace.append(f"L{s.lineno}:T")
            return self.exec_block(s.body, st, fr)
        st.trace.append(f"L{s.lineno}:F")
        return self.exec_block(s.orelse, st, fr)

    def st_With(self, s, st, fr):
        for item in s.items:
            t = ast.unparse(item.context_expr)
            if t.startswith("torch.no_grad") or t.startswith("warnings.") or t.startswith("torch.inference_mode"):
                continue
            v = self.ev(item.context_expr, st, fr)
            if hasattr(v, "enter"):
                r = v.enter(self, st)
                if item.optional_vars is not None:
                    self.assign_target(item.optional_vars, r, st, fr)
                continue
            raise Undecided(f"with-statement on {t} at line {s.lineno}")
        r = self.exec_block(s.body, st, fr)
        for item in s.items:
            t = ast.unparse(item.context_expr)
            if t.startswith("torch.no_grad") or t.startswith("warnings.") or t.startswith("torch.inference_mode"):
                continue
            v = self.ev(item.context_expr, st, fr) if False else None
        return r

    def st_Try(self, s, st, fr):
        r = self.exec_block(s.body, st, fr)
        if r[0] == RAISE:
            exc = r[1][0]
            for h in s.handlers:
                names = []
                if h.type is None:
                    names = None
                elif isinstance(h.type, ast.Tuple):
                    names = [ast.unparse(e).split(".")[-1] for e in h.type.elts]
                else:
                    names = [ast.unparse(h.type).split(".")[-1]]
                if names is None or "BaseException" in names or ("Exception" in names and exc not in NOT_EXCEPTION) or any(n in builtin_ancestors(exc) for n in names):
                    if h.name:
                        st.locals[h.name] = Opaque("exc:" + exc)
                    r = self.exec_block(h.body, st, fr)
                    if r[0] == RAISE and r[1][0] == "reraise":
                        r = (RAISE, (exc, "", r[1][2]))
                    break
        elif r[0] == NORMAL and s.orelse:
            r = self.exec_block(s.orelse, st, fr)
        if s.finalbody:
            r2 = self.exec_block(s.finalbody, st, fr)
            if r2[0] != NORMAL:
                return r2
        return r

    def st_FunctionDef(self, s, st, fr):
        st.locals[s.name] = DefClosure(s, st.locals, fr.mod, fr.cls)

    def st_Delete(self, s, st, fr):
        for t in s.targets:
            if isinstance(t, ast.Name):
                st.locals.pop(t.id, None)
            else:
                raise Undecided("del of non-name")

    def st_Global(self, s, st, fr):
        raise Undecided("global statement")

    # ---- loops
    def loop_spec(self, fr, node=None):
        """Loop ordinal = position of the loop statement in source order inside its function (static, so the
        numbering does not depend on the path taken)."""
        if not hasattr(fr, "loop_ids"):
            fr.loop_ids = {}
            if fr.fn is not None:
                loops = [x for x in ast.walk(fr.fn) if isinstance(x, (ast.For, ast.While))]
                loops.sort(key=lambda x: (x.lineno, x.col_offset))
                fr.loop_ids = {(x.lineno, x.col_offset): i for i, x in enumerate(loops)}
        k = fr.loop_ids.get((node.lineno, node.col_offset), -1)
        c = self.contract_for(fr)
        if c is None:
            return k, None
        return k, c.loops.get(k)

    def contract_for(self, fr):
        if self.current is not None and self.current.qual == fr.qual:
            return self.current
        return self.contracts.get(fr.qual)

    def st_While(self, s, st, fr):
        k, spec = self.loop_spec(fr, s)
        if spec is None:
            # bounded concrete unrolling only when the guard is decided concretely each time
            for _ in range(256):
                c = to_bool(self.ev(s.test, st, fr))
                if is_sym(c):
                    c = z3.simplify(c)
                    c = True if z3.is_true(c) else False if z3.is_false(c) else c
                if not isinstance(c, bool):
                    raise Undecided(f"while loop #{k} at line {s.lineno} in {fr.qual} has a symbolic guard and no invariant")
                if not c:
                    return None
                r = self.exec_block(s.body, st, fr)
                if r[0] == BREAK:
                    return None
                if r[0] in (RETURN, RAISE):
                    return r
            raise Undecided("concrete while loop exceeded 256 iterations")
        return self.loop_with_invariant(s, st, fr, k, spec, guard=lambda: self.ev(s.test, st, fr),
                                        pre_body=lambda: None, step=lambda: None)

    def st_For(self, s, st, fr):
        it = self.ev(s.iter, st, fr)
        items = self.try_iter_concrete(it, st)
        k, spec = self.loop_spec(fr, s)
        if items is not None and (spec is None or spec.get("unroll")):
            for x in items:
                self.assign_target(s.target, x, st, fr)
                r = self.exec_block(s.body, st, fr)
                if r[0] == BREAK:
                    return None
                if r[0] in (RETURN, RAISE):
                    return r
            if s.orelse:
                return self.exec_block(s.orelse, st, fr)
            return None
        if spec is None and isinstance(it, RangeV) and it.step == 1:
            # small symbolic trip count: explore the iterations path by path (bounded; beyond the bound -> undecided)
            i = 0
            while True:
                cur = z3.simplify(z3ify(it.lo) + i) if is_sym(it.lo) else it.lo + i
                if not self.decide(st, z3ify(cur) < z3ify(it.hi)):
                    break
                if i >= 8:
                    raise Undecided(f"for loop #{k} at line {s.lineno} in {fr.qual}: more than 8 iterations possible and no invariant")
                self.assign_target(s.target, cur, st, fr)
                r = self.exec_block(s.body, st, fr)
                if r[0] == BREAK:
                    return None
                if r[0] in (RETURN, RAISE):
                    return r
                i += 1
            if s.orelse:
                return self.exec_block(s.orelse, st, fr)
            return None
        if spec is None:
            raise Undecided(f"for loop #{k} at line {s.lineno} in {fr.qual} iterates a symbolic collection "
                            f"and has no invariant")
        # symbolic iteration: hidden counter _k = number of completed iterations
        length, elem = self.iter_model(it, st)
        kname = spec.get("counter", "_k")
        st.locals[kname] = 0

        def guard():
            return z3ify(st.locals[kname]) < z3ify(length)

        def pre_body():
            self.assign_target(s.target, elem(z3ify(st.locals[kname])), st, fr)

        def step():
            st.locals[kname] = z3.simplify(z3ify(st.locals[kname]) + 1)

        def bind_next():
            # for invariants: the loop target is bound to its next-iteration value when that exists (scalar index loops)
            if spec.get("bind_target", True):
                try:
                    self.assign_target(s.target, elem(z3ify(st.locals[kname])), st, fr)
                except (Undecided, PyRaise):
                    pass

        return self.loop_with_invariant(s, st, fr, k, spec, guard, pre_body, step, counter=kname, length=length,
                                        bind_next=bind_next)

    def iter_model(self, it, st):
        """-> (length term, elem(k) -> value of k-th element)"""
        if isinstance(it, RangeV):
            if it.step != 1:
                if it.step == -1:
                    n = z3ify(it.lo) - z3ify(it.hi)
                    return z3.If(n > 0, n, 0), lambda k: z3ify(it.lo) - k
                raise Undecided("range step")
            n = z3ify(it.hi) - z3ify(it.lo)
            return z3.simplify(z3.If(n > 0, n, 0)), lambda k: z3.simplify(z3ify(it.lo) + k)
        if isinstance(it, Seq):
            return it.len, lambda k: it.get(k)
        if isinstance(it, (list, tuple)):
            n = len(it)
            return n, lambda k: self.getitem(list(it), k, st)
        if isinstance(it, EnumV):
            n, e = self.iter_model(it.inner, st)
            return n, lambda k: (z3.simplify(k + it.start) if is_sym(k) else k + it.start, e(k))
        if isinstance(it, ZipV):
            ms = [self.iter_model(x, st) for x in it.inners]
            n = ms[0][0]
            for m in ms[1:]:
                a, b = z3ify(n), z3ify(m[0])
                n = z3.If(a <= b, a, b)
            return n, lambda k: tuple(m[1](k) for m in ms)
        if isinstance(it, ReversedV):
            n, e = self.iter_model(it.inner, st)
            return n, lambda k: e(z3.simplify(z3ify(n) - 1 - k))
        if hasattr(it, "iter_model"):
            return it.iter_model(self, st)
        raise Undecided(f"iteration over {type(it).__name__}")

    def loop_with_invariant(self, s, st, fr, k, spec, guard, pre_body, step, counter=None, length=None, bind_next=None):
        c = self.contract_for(fr)
        tag = f"{self.prop}.{c.short}.loop{k}"
        line = s.lineno
        if bind_next:
            bind_next()
        # python lists that the loop appends to become symbolic sequences (promote={name: (sort, wrap)})
        for nm, (sortname, wrapname) in spec.get("promote", {}).items():
            cur = st.locals.get(nm)
            if isinstance(cur, list):
                sq = Seq.new(sortname, nm, len(cur))
                arr = sq.arr
                for i_, x in enumerate(cur):
                    arr = z3.Store(arr, i_, x.term if hasattr(x, "term") else z3ify(x))
                sq.arr = arr
                sq.wrap = self.specns.get(wrapname) if wrapname else None
                st.locals[nm] = sq
        # locals whose python type changes inside the loop (e.g. int 0 that becomes a tensor) are coerced up front
        for nm, fn in spec.get("coerce", {}).items():
            if nm in st.locals:
                st.locals[nm] = self.specns[fn](st.locals[nm])
        for gs in spec.get("ghost_init", []):
            c.exec_ghost(self, gs, st, fr)
        # 1. invariant holds on entry
        for j, inv in enumerate(spec["invariant"]):
            g = c.eval_spec(self, inv, st, fr)
            self.oblige(st, f"{tag}.init.{j}", g, "inv-init", line, inv)
        # 2. havoc the write set
        self.havoc_loop(s, st, fr, spec, counter)
        if counter is not None:
            kk = z3.Int(fresh_name(counter))
            st.locals[counter] = kk
            st.assume(kk >= 0)
            st.assume(kk <= z3ify(length))
            if bind_next:
                bind_next()
        for inv in spec["invariant"]:
            st.assume(z3ify(c.eval_spec(self, inv, st, fr)))
        dec0 = None
        g = guard()
        if self.decide(st, g):
            st.trace.append(f"L{line}:loop-body")
            if "decreases" in spec:
                dec0 = z3ify(c.eval_spec(self, spec["decreases"], st, fr))
            pre_body()
            for gs in spec.get("ghost_pre", []):
                c.exec_ghost(self, gs, st, fr)
            r = self.exec_block(s.body, st, fr)
            if r[0] in (NORMAL, CONTINUE):
                for gs in spec.get("ghost_post", []):
                    c.exec_ghost(self, gs, st, fr)
                step()
                if bind_next:
                    bind_next()
                for j, inv in enumerate(spec["invariant"]):
                    gl = c.eval_spec(self, inv, st, fr)
                    self.oblige(st, f"{tag}.pres.{j}", gl, "inv-pres", line, inv)
                if dec0 is not None:
                    d1 = z3ify(c.eval_spec(self, spec["decreases"], st, fr))
                    self.oblige(st, f"{tag}.decreases", z3.And(dec0 >= 0, d1 < dec0), "decreases", line,
                                spec["decreases"])
                raise PathEnd("loop cut")
            if r[0] == BREAK:
                for gs in spec.get("ghost_break", []):
                    c.exec_ghost(self, gs, st, fr)
                st.trace.append(f"L{line}:break")
                return None
            return r
        st.trace.append(f"L{line}:loop-exit")
        for gs in spec.get("ghost_exit", []):
            c.exec_ghost(self, gs, st, fr)
        if getattr(s, "orelse", None):
            return self.exec_block(s.orelse, st, fr)
        return None

    @staticmethod
    def count_loops(body):
        n = 0
        for b in body:
            for x in ast.walk(b):
                if isinstance(x, (ast.For, ast.While)):
                    n += 1
        return n

    def havoc_loop(self, s, st, fr, spec, counter):
        names, paths = set(), set()
        self.writes_of_block(s.body, st, fr, "self", names, paths, 0)
        if isinstance(s, ast.For):
            self.collect_targets(s.target, names, paths, "self")
        for n in spec.get("havoc_names", []):
            names.add(n)
        for p in spec.get("havoc", []):
            paths.add(p)
        for n in sorted(names):
            if n in st.locals and n != counter:
                st.locals[n] = self.havoc_value(st.locals[n], n, st)
        # ghost variables assigned by the loop's ghost code are part of the loop state: havoc them too
        gnames = set(spec.get("havoc_names", []))
        for key in ("ghost_pre", "ghost_post", "ghost_break"):
            for gs in spec.get(key, []):
                for x in ast.walk(ast.parse(gs.strip())):
                    if isinstance(x, ast.Assign) and isinstance(x.targets[0], ast.Name):
                        gnames.add(x.targets[0].id)
        c = self.contract_for(fr)
        for key, stmts in (c.ghost_after.items() if c is not None else []):
            for gs in stmts:
                for x in ast.walk(ast.parse(gs.strip())):
                    if isinstance(x, ast.Assign) and isinstance(x.targets[0], ast.Name):
                        gnames.add(x.targets[0].id)
        for n in sorted(gnames):
            if n in st.ghost:
                st.ghost[n] = self.havoc_value(st.ghost[n], n, st)
        for p in sorted(paths):
            self.havoc_path(p, st, fr)

    def havoc_path(self, path, st, fr):
        e = ast.parse(path, mode="eval").body
        if isinstance(e, ast.Name):
            if e.id in st.locals:
                st.locals[e.id] = self.havoc_value(st.locals[e.id], e.id, st)
            return
        if not isinstance(e, ast.Attribute):
            raise Undecided(f"cannot havoc path {path}")
        try:
            base = self.ev(e.value, st, fr)
        except (Undecided, PyRaise):
            return
        if isinstance(base, Opt):
            base = base.val
        if isinstance(base, Obj):
            if e.attr not in base.fields:
                return
            cur = base.fields[e.attr]
            if isinstance(cur, Seq) or hasattr(cur, "havoc"):
                self.havoc_inplace(cur, path, st)
            else:
                base.fields[e.attr] = self.havoc_value(cur, path, st)
            return
        if hasattr(base, "havoc_attr"):
            base.havoc_attr(self, st, e.attr)
            return
        raise Undecided(f"cannot havoc path {path} on {type(base).__name__}")

    def writes_of_block(self, stmts, st, fr, selfexpr, names, paths, depth, local_scope=True):
        """Syntactic write set of a block: local names assigned, and heap paths (strings such as
        'self.tree') written directly or through calls (callee contract `modifies`, or the callee body when
        it is inlined)."""
        for b in stmts:
            for x in ast.walk(b):
                if isinstance(x, (ast.Assign, ast.AugAssign, ast.AnnAssign)):
                    tgts = x.targets if isinstance(x, ast.Assign) else [x.target]
                    for t in tgts:
                        self.collect_targets(t, names if local_scope else set(), paths, selfexpr, st, fr, depth)
                elif isinstance(x, ast.For):
                    self.collect_targets(x.target, names if local_scope else set(), paths, selfexpr)
                elif isinstance(x, ast.Call) and isinstance(x.func, ast.Attribute):
                    recv = x.func.value
                    rtxt = ast.unparse(recv)
                    if x.func.attr in ("append", "extend", "pop", "insert", "update", "clear", "popleft",
                                       "index_add_", "copy_", "fill_", "add_", "mul_", "clamp_", "lerp_"):
                        if isinstance(recv, ast.Name):
                            if local_scope:
                                names.add(recv.id)
                        else:
                            paths.add(self.rebase(rtxt, selfexpr))
                    self.call_writes(recv, x.func.attr, st, fr, selfexpr, paths, depth)

    @staticmethod
    def rebase(path, selfexpr):
        if selfexpr != "self" and (path == "self" or path.startswith("self.")):
            return selfexpr + path[4:]
        return path

    def call_writes(self, recv_node, mname, st, fr, selfexpr, paths, depth):
        if depth > 4:
            return
        rtxt = ast.unparse(recv_node)
        if not (rtxt == "self" or rtxt.startswith("self.") or rtxt == "super()"):
            return
        try:
            if rtxt == "super()":
                base = st.locals.get("self")
                after = fr.cls
                rexpr = selfexpr
            else:
                base = self.ev(ast.parse(self.rebase(rtxt, selfexpr), mode="eval").body, st, self.top_frame or fr)
                after = None
                rexpr = self.rebase(rtxt, selfexpr)
        except (Undecided, PyRaise):
            return
        if isinstance(base, Opt):
            base = base.val
        if hasattr(base, "method_writes"):
            for p in base.method_writes(mname):
                paths.add(rexpr + p)
            return
        if not isinstance(base, Obj) or not base.cls.startswith("agilerl"):
            return
        r = front.find_method(base.cls, mname, after=after)
        if r is None:
            return
        owner, mod, fn = r
        q = owner + "." + fn.name
        c = self.contracts.get(q)
        if c is not None:
            for p in c.modifies:
                paths.add(self.rebase(p, rexpr))
            return
        fr2 = Frame(mod, owner, fn, q, depth + 1)
        self.writes_of_block(fn.body, st, fr2, rexpr, set(), paths, depth + 1, local_scope=False)

    def collect_targets(self, t, names, paths, selfexpr, st=None, fr=None, depth=0):
        if isinstance(t, ast.Name):
            names.add(t.id)
        elif isinstance(t, (ast.Tuple, ast.List)):
            for e in t.elts:
                self.collect_targets(e, names, paths, selfexpr, st, fr, depth)
        elif isinstance(t, ast.Subscript):
            v = t.value
            if isinstance(v, ast.Name):
                names.add(v.id)
            else:
                paths.add(self.rebase(ast.unparse(v), selfexpr))
                if st is not None:
                    self.call_writes(v, "__setitem__", st, fr, selfexpr, paths, depth)
        elif isinstance(t, ast.Attribute):
            paths.add(self.rebase(ast.unparse(t), selfexpr))

    def havoc_value(self, v, name, st):
        if isinstance(v, bool):
            return z3.Bool(fresh_name(name))
        if isinstance(v, int):
            return z3.Int(fresh_name(name))
        if isinstance(v, z3.ExprRef):
            return z3.Const(fresh_name(name), v.sort())
        if hasattr(v, "havoc_copy"):
            return v.havoc_copy(self, st, name)
        if isinstance(v, Opt):
            return Opt(z3.Bool(fresh_name(name + ".isnone")), self.havoc_value(v.val, name, st))
        if isinstance(v, (Seq, Obj, list, dict)) or hasattr(v, "havoc"):
            self.havoc_inplace(v, name, st)
            return v
        if v is None or isinstance(v, (str, Opaque, ModRef, FuncRef, tuple, Fn, BoundMethod)):
            return v
        raise Undecided(f"cannot havoc {name} of type {type(v).__name__}")

    def havoc_inplace(self, v, name, st):
        if isinstance(v, Seq):
            v.arr = z3.Const(fresh_name(v.label), v.arr.sort())
            v.len = z3.Int(fresh_name(v.label + ".len"))     # loops may append: the length is part of the havocked state
            st.assume(v.len >= 0)
            return
        if hasattr(v, "havoc"):
            v.havoc(self, st, name)
            return
        if isinstance(v, Obj):
            # attribute stores `self.x = ...` inside the loop: havoc scalar fields written syntactically
            return
        if isinstance(v, (list, dict)):
            raise Undecided(f"concrete container {name} mutated in a symbolic loop")
        if is_sym(v) or v is None or isinstance(v, (int, str)):
            return
        raise Undecided(f"cannot havoc in place {name}: {type(v).__name__}")


class DefClosure:
    """Nested def: callable inline."""

    def __init__(self, node, env, mod, cls):
        self.node, self.env, self.mod, self.cls = node, env, mod, cls

    def call(self, ex, st, args, kwargs):
        fr2 = Frame(self.mod, self.cls, self.node, "<nested>." + self.node.name, 1)
        loc = ex.bind_params(self.node, args, kwargs, st, fr2)
        env = dict(self.env)
        env.update(loc)
        return ex.inline(self.node, env, st, fr2)
