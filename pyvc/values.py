"""Value model of the symbolic executor (see DESIGN.md 2.3).

Concrete Python values (int, bool, str, None, tuple, list, dict) stay concrete: the executor is a
partial evaluator.  Symbolic scalars are z3 terms (Int / Real / Bool sorts, or an uninterpreted sort).
Mutable symbolic structures are the classes below.
"""
import itertools
from fractions import Fraction

import z3

_counter = [0]


def reset_fresh():
    _counter[0] = 0


def fresh_name(base):
    _counter[0] += 1
    return f"{base}!{_counter[0]}"


class Undecided(Exception):
    """The function left the supported subset / a contract could not be bound.  Never a violation."""


class PathEnd(Exception):
    """The current path ends here (infeasible, or cut at a loop head after the preservation check)."""


class PyRaise(Exception):
    """A Python exception raised by the code under analysis (class name only)."""

    def __init__(self, exc, msg=""):
        self.exc = exc
        self.msg = msg


def is_sym(v):
    return isinstance(v, z3.ExprRef)


def is_num(v):
    return (isinstance(v, (int, Fraction)) and not isinstance(v, bool)) or isinstance(v, bool) or \
        (isinstance(v, z3.ArithRef))


def realval(x):
    if isinstance(x, float):
        return z3.RealVal(str(Fraction(repr(x))))
    return z3.RealVal(str(x))


def sort_of(tname):
    if tname == "int":
        return z3.IntSort()
    if tname == "real":
        return z3.RealSort()
    if tname == "bool":
        return z3.BoolSort()
    return z3.DeclareSort(tname)


def fresh(tname, base):
    s = sort_of(tname)
    return z3.Const(fresh_name(base), s)


class Obj:
    """Mutable record.  `cls` is a qualified repo class name (for method resolution) or a free label."""

    def __init__(self, cls, fields=None, label=None):
        self.cls = cls
        self.fields = dict(fields or {})
        self.label = label or cls.split(".")[-1]

    def __repr__(self):
        return f"<Obj {self.label} {list(self.fields)}>"


class Seq:
    """Mutable sequence of symbolic length: (len: Int term or python int, arr: z3 Array Int->elem).
    Element sort is fixed.  Used for list[int]/list[real]/deque windows etc."""

    def __init__(self, length, arr, elem="real", label="seq", wrap=None):
        self.len = length
        self.arr = arr
        self.elem = elem
        self.label = label
        self.wrap = wrap  # optional python callable: z3 element term -> Value (for sequences of records)

    @staticmethod
    def new(elem, label, length=None):
        if length is None:
            length = z3.Int(fresh_name(label + ".len"))
        arr = z3.Const(fresh_name(label), z3.ArraySort(z3.IntSort(), sort_of(elem)))
        return Seq(length, arr, elem, label)

    def get(self, i):
        v = z3.Select(self.arr, i)
        return self.wrap(v) if self.wrap else v

    def __repr__(self):
        return f"<Seq {self.label} len={self.len}>"


class Opt:
    """A value that may be None: `isnone` z3 Bool, `val` the value when present."""

    def __init__(self, isnone, val):
        self.isnone = isnone
        self.val = val


class Fn:
    """Callable value: either a z3 FuncDecl (uninterpreted), or a Python model function
    model(ex, st, args, kwargs) -> value."""

    def __init__(self, decl=None, model=None, name="fn"):
        self.decl = decl
        self.model = model
        self.name = name


class BoundMethod:
    def __init__(self, obj, owner, mod, fn):
        self.obj = obj
        self.owner = owner
        self.mod = mod
        self.fn = fn


class FuncRef:
    """A repo function (module-level) or class reference."""

    def __init__(self, qual):
        self.qual = qual


class ModRef:
    """Reference to a (library or repo) module / dotted name not yet resolved to a value."""

    def __init__(self, dotted):
        self.dotted = dotted

    def __repr__(self):
        return f"<ModRef {self.dotted}>"

    def __eq__(self, other):
        return isinstance(other, ModRef) and other.dotted == self.dotted

    def __hash__(self):
        return hash(("ModRef", self.dotted))


class Closure:
    def __init__(self, node, env, mod, cls):
        self.node = node
        self.env = env
        self.mod = mod
        self.cls = cls


class Opaque:
    """Opaque python-side token (strings built by f-strings, devices, dtypes...)."""

    def __init__(self, what):
        self.what = what

    def __repr__(self):
        return f"<Opaque {self.what}>"
