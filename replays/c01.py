"""Native (bounded) check for C01: clone is faithful and shares no tensor storage / list object with its parent."""
import numpy as np
import torch
from tensordict import TensorDict


def _ptrs(agent):
    out = set()
    for name in agent.evolvable_attributes(networks_only=True):
        net = getattr(agent, name)
        for m in (net if isinstance(net, list) else [net]):
            out |= {t.data_ptr() for t in m.state_dict().values() if torch.is_tensor(t) and t.numel() > 0}
    for cfg in agent.registry.optimizers:
        opt = getattr(agent, cfg.name).optimizer
        for o in (opt if isinstance(opt, list) else [opt]):
            for s in o.state_dict()["state"].values():
                out |= {v.data_ptr() for v in s.values() if torch.is_tensor(v) and v.numel() > 0}
    return out


def _opt_state(agent):
    out = []
    for cfg in agent.registry.optimizers:
        opt = getattr(agent, cfg.name).optimizer
        for o in (opt if isinstance(opt, list) else [opt]):
            sd = o.state_dict()
            out.append(([{k: v for k, v in g.items() if k != "params"} for g in sd["param_groups"]],
                        [{k: (v.clone() if torch.is_tensor(v) else v) for k, v in s.items()} for s in sd["state"].values()]))
    return out


def clone(payload):
    from gymnasium import spaces
    from agilerl.algorithms.ddpg import DDPG
    from agilerl.algorithms.dqn import DQN
    from agilerl.algorithms.td3 import TD3
    torch.manual_seed(0)
    obs = spaces.Box(-1, 1, (4,))
    cases = 0

    def batch(cont):
        a = torch.rand(8, 2) * 2 - 1 if cont else torch.randint(0, 3, (8, 1))
        return TensorDict({"obs": torch.randn(8, 4), "action": a, "reward": torch.randn(8, 1), "next_obs": torch.randn(8, 4), "done": torch.zeros(8, 1)}, batch_size=[8])

    def learn(agent, name, e):
        return agent.learn((e["obs"], e["action"], e["reward"], e["next_obs"], e["done"])) if name == "TD3" else agent.learn(e)
    for name, mk, cont in (("DQN", lambda: DQN(obs, spaces.Discrete(3)), False), ("DDPG", lambda: DDPG(obs, spaces.Box(-1, 1, (2,)), share_encoders=False, policy_freq=1), True),
                           ("TD3", lambda: TD3(obs, spaces.Box(-1, 1, (2,)), share_encoders=False, policy_freq=1), True)):
        parent = mk()
        for _ in range(2):
            learn(parent, name, batch(cont))
        parent.fitness += [1.0, 2.0]; parent.scores += [3.0]; parent.steps[-1] += 7
        c1, c2 = parent.clone(), parent.clone(index=9)
        cases += 1
        for who, c in (("clone", c1), ("second clone", c2)):
            for n in parent.evolvable_attributes(networks_only=True):
                if "target" in n:
                    continue
                for (k, a), (_, b) in zip(getattr(parent, n).state_dict().items(), getattr(c, n).state_dict().items()):
                    if torch.is_tensor(a) and not torch.equal(a, b):
                        return {"status": "fail", "cases": cases, "detail": f"{name}: {who} weight {n}.{k} differs from the parent"}
            sp, sc = _opt_state(parent), _opt_state(c)
            for (gp, stp), (gc, stc) in zip(sp, sc):
                if gp != gc or len(stp) != len(stc) or any(set(a) != set(b) or any((torch.is_tensor(a[k]) and not torch.equal(a[k], b[k])) or (not torch.is_tensor(a[k]) and a[k] != b[k]) for k in a) for a, b in zip(stp, stc)):
                    return {"status": "fail", "cases": cases, "detail": f"{name}: optimizer settings/state of the {who} differ from the parent"}
            if c.fitness != parent.fitness or c.scores != parent.scores or c.steps != parent.steps:
                return {"status": "fail", "cases": cases, "detail": f"{name}: bookkeeping of the {who} differs"}
            if c.fitness is parent.fitness or c.scores is parent.scores or c.steps is parent.steps or c.registry is parent.registry:
                return {"status": "fail", "cases": cases, "detail": f"{name}: {who} shares a list / registry object with the parent"}
        if c2.index != 9:
            return {"status": "fail", "cases": cases, "detail": "clone(index=9) did not take the index"}
        for x, y, what in ((parent, c1, "parent and clone"), (c1, c2, "two sibling clones")):
            sh = _ptrs(x) & _ptrs(y)
            if sh:
                return {"status": "fail", "cases": cases, "witness_key": "shared-storage", "detail": f"{name}: {what} share {len(sh)} tensor storages (weights or optimizer moments)"}
        before = _opt_state(parent)
        w_before = {n: {k: v.clone() for k, v in getattr(parent, n).state_dict().items() if torch.is_tensor(v)} for n in parent.evolvable_attributes(networks_only=True)}
        for _ in range(2):
            learn(c1, name, batch(cont))
        c1.fitness.append(5.0)
        after = _opt_state(parent)
        for (gp, stp), (gc, stc) in zip(before, after):
            if any(any(torch.is_tensor(a[k]) and not torch.equal(a[k], b[k]) for k in a) for a, b in zip(stp, stc)):
                return {"status": "fail", "cases": cases, "detail": f"{name}: training the clone changed the parent's optimizer state"}
        for n, ws in w_before.items():
            for k, v in getattr(parent, n).state_dict().items():
                if torch.is_tensor(v) and not torch.equal(v, ws[k]):
                    return {"status": "fail", "cases": cases, "detail": f"{name}: training the clone changed the parent's weights ({n}.{k})"}
        if len(parent.fitness) != 2 + 0 and parent.fitness[-1] == 5.0:
            return {"status": "fail", "cases": cases, "detail": f"{name}: the clone's fitness list is the parent's"}
    return {"status": "pass", "cases": cases}
