"""Native (bounded) check for C02: agents stay coherent over generations of mutations."""
import os
import random

import numpy as np
import torch


def _arch(net):
    return str(net.init_dict)


def coherent(payload):
    from gymnasium import spaces
    from tensordict import TensorDict
    from agilerl.algorithms.ddpg import DDPG
    from agilerl.algorithms.dqn import DQN
    from agilerl.algorithms.td3 import TD3
    from agilerl.hpo.mutation import Mutations
    obs = spaces.Box(-1, 1, (4,))
    cases = 0
    specs = [("DQN", lambda i: DQN(obs, spaces.Discrete(3), index=i), False, [("actor", "actor_target")], []),
             ("DDPG", lambda i: DDPG(obs, spaces.Box(-1, 1, (2,)), index=i, share_encoders=False, policy_freq=1), True,
              [("actor", "actor_target"), ("critic", "critic_target")], ["critic"]),
             ("TD3", lambda i: TD3(obs, spaces.Box(-1, 1, (2,)), index=i, share_encoders=False, policy_freq=1), True,
              [("actor", "actor_target"), ("critic_1", "critic_target_1"), ("critic_2", "critic_target_2")], ["critic_1", "critic_2"])]
    for name, mk, cont, pairs, critics in specs:
        for seed in range(2 if payload.get("tier") != "thorough" else 6):
            torch.manual_seed(seed); np.random.seed(seed); random.seed(seed)
            pop = [mk(i) for i in range(3)]
            muts = Mutations(no_mutation=0.1, architecture=0.5, new_layer_prob=0.7, parameters=0.1, activation=0.1, rl_hp=0.2, mutation_sd=0.1,
                             rand_seed=seed, device="cpu")
            for gen in range(3):
                idx_before = [a.index for a in pop]
                heads_before = [{c: list(getattr(a, c).head_net.hidden_size) + list(getattr(a, c).encoder.hidden_size) for c in ["actor"] + critics} for a in pop]
                pop = muts.mutation(pop)
                cases += 1
                if [a.index for a in pop] != idx_before:
                    return {"status": "fail", "cases": cases, "detail": f"{name}: population order/size changed by mutation"}
                for ai, a in enumerate(pop):
                    where = f"{name} seed {seed} gen {gen} agent {ai} (mut={a.mut})"
                    for cfg in a.registry.optimizers:
                        opt = getattr(a, cfg.name)
                        nets = cfg.networks if isinstance(cfg.networks, list) else [cfg.networks]
                        want = {id(p) for n in nets for p in getattr(a, n).parameters()}
                        got = {id(p) for g in opt.optimizer.param_groups for p in g["params"]}
                        if want != got:
                            return {"status": "fail", "cases": cases, "detail": f"{where}: optimizer {cfg.name} does not hold exactly the current parameters of {nets}"}
                        if any(g["lr"] != getattr(a, cfg.lr) for g in opt.optimizer.param_groups):
                            return {"status": "fail", "cases": cases, "detail": f"{where}: optimizer {cfg.name} lr differs from agent.{cfg.lr}"}
                    for o, t in pairs:
                        if _arch(getattr(a, o)) != _arch(getattr(a, t)):
                            return {"status": "fail", "cases": cases, "detail": f"{where}: target {t} does not have the architecture of {o}"}
                    for c in critics:
                        da = [x - y for x, y in zip(list(a.actor.head_net.hidden_size) + list(a.actor.encoder.hidden_size), heads_before[ai]["actor"])] \
                            if len(list(a.actor.head_net.hidden_size) + list(a.actor.encoder.hidden_size)) == len(heads_before[ai]["actor"]) else "layers"
                        cur = list(getattr(a, c).head_net.hidden_size) + list(getattr(a, c).encoder.hidden_size)
                        dc = [x - y for x, y in zip(cur, heads_before[ai][c])] if len(cur) == len(heads_before[ai][c]) else "layers"
                        is_arch = a.mut not in ("None", "param", "act", "lr", "lr_actor", "lr_critic", "batch_size", "learn_step")
                        if is_arch and getattr(a, c).last_mutation_attr != a.actor.last_mutation_attr:
                            return {"status": "fail", "cases": cases, "detail": f"{where}: {c} applied {getattr(a, c).last_mutation_attr}, the policy {a.actor.last_mutation_attr}"}
                        moved = lambda d: d == "layers" or any(x != 0 for x in d)
                        # the same (method, arguments) can be stopped by a bound in one network only: compare when both moved
                        if is_arch and moved(da) and moved(dc) and da != dc:
                            return {"status": "fail", "cases": cases, "witness_key": "critic-follows-policy",
                                    "detail": f"{where}: {c} did not receive the policy's architecture change (actor delta {da}, {c} delta {dc})"}
                    a.get_action(np.zeros((1, 4), dtype=np.float32))
    return {"status": "pass", "cases": cases}
