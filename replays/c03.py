"""Native (bounded) check for C03/C04: clone-and-mutate walks over the evolvable building blocks and a Q network:
bounds, finite forward output of the declared shape, strict reload from the constructor description, clone outputs."""
import itertools
import random

import numpy as np
import torch
from gymnasium import spaces


def _blocks():
    from agilerl.modules.cnn import EvolvableCNN
    from agilerl.modules.lstm import EvolvableLSTM
    from agilerl.modules.mlp import EvolvableMLP
    from agilerl.modules.multi_input import EvolvableMultiInput
    from agilerl.modules.simba import EvolvableSimBa
    from agilerl.networks.q_networks import QNetwork
    dict_space = spaces.Dict({"vec": spaces.Box(-1, 1, (4,)), "img": spaces.Box(0, 1, (1, 8, 8))})
    return [
        ("MLP", lambda: EvolvableMLP(4, 3, [32], min_hidden_layers=1, max_hidden_layers=2, min_mlp_nodes=16, max_mlp_nodes=80), lambda b: torch.randn(b, 4), 3),
        ("LSTM", lambda: EvolvableLSTM(4, 16, 3, min_hidden_size=16, max_hidden_size=80, min_layers=1, max_layers=2), lambda b: torch.randn(b, 5, 4), 3),
        ("SimBa", lambda: EvolvableSimBa(4, 3, 32, 1, min_blocks=1, max_blocks=2, min_mlp_nodes=16, max_mlp_nodes=80), lambda b: torch.randn(b, 4), 3),
        ("CNN", lambda: EvolvableCNN((1, 12, 12), 3, [8], [3], [1], min_hidden_layers=1, max_hidden_layers=2, min_channel_size=8, max_channel_size=24),
         lambda b: torch.rand(b, 1, 12, 12), 3),
        ("MultiInput", lambda: EvolvableMultiInput(dict_space, 8, vector_space_mlp=True), lambda b: {"vec": torch.randn(b, 4), "img": torch.rand(b, 1, 8, 8)}, 8),
        ("QNetwork", lambda: QNetwork(spaces.Box(-1, 1, (4,)), spaces.Discrete(3)), lambda b: torch.randn(b, 4), 3),
    ]


def _bounds_msg(name, m):
    g = lambda k: getattr(m, k, None)
    if name == "MLP":
        hs = list(m.hidden_size)
        if not (m.min_hidden_layers <= len(hs) <= m.max_hidden_layers) or any(not (m.min_mlp_nodes <= h <= m.max_mlp_nodes) for h in hs):
            return f"hidden_size {hs} outside [{m.min_hidden_layers}..{m.max_hidden_layers}] layers x [{m.min_mlp_nodes}..{m.max_mlp_nodes}] nodes"
    if name == "LSTM":
        if not (m.min_layers <= m.num_layers <= m.max_layers and m.min_hidden_size <= m.hidden_size <= m.max_hidden_size):
            return f"num_layers {m.num_layers} / hidden_size {m.hidden_size} outside the declared bounds"
    if name == "SimBa":
        if not (m.min_blocks <= m.num_blocks <= m.max_blocks and m.min_mlp_nodes <= m.hidden_size <= m.max_mlp_nodes):
            return f"num_blocks {m.num_blocks} / hidden_size {m.hidden_size} outside the declared bounds"
    if name == "CNN":
        cs = list(m.channel_size)
        if not (m.min_hidden_layers <= len(cs) <= m.max_hidden_layers) or any(not (m.min_channel_size <= c <= m.max_channel_size) for c in cs) \
                or not (len(cs) == len(m.kernel_size) == len(m.stride_size)):
            return f"channels {cs} kernels {m.kernel_size} strides {m.stride_size} outside the declared bounds / unequal lengths"
    return None


def _check(name, m, mk_input, out_dim, where):
    msg = _bounds_msg(name, m)
    if msg:
        return f"{where}: {msg}"
    for b in (1, 2, 3):
        x = mk_input(b)
        with torch.no_grad():
            y = m(x)
        y = y[0] if isinstance(y, tuple) else y
        if y.shape[0] != b or y.shape[-1] != out_dim or not torch.isfinite(y).all():
            return f"{where}: forward of a batch of {b} gave shape {tuple(y.shape)} / non-finite values (declared output size {out_dim})"
    rebuilt = type(m)(**m.init_dict)
    try:
        rebuilt.load_state_dict(m.state_dict(), strict=True)
    except TimeoutError:
        raise
    except Exception as e:
        return f"{where}: the constructor description does not rebuild an architecture that accepts the current weights: {str(e)[:160]}"
    c = m.clone()
    x = mk_input(2)
    with torch.no_grad():
        y1, y2 = m(x), c(x)
    y1 = y1[0] if isinstance(y1, tuple) else y1
    y2 = y2[0] if isinstance(y2, tuple) else y2
    if not torch.allclose(y1, y2, atol=1e-6):
        return f"{where}: clone() does not reproduce the outputs (max diff {float((y1 - y2).abs().max()):.3e})"
    return None


def walk(payload):
    rnd = random.Random(payload.get("seed", 0))
    torch.manual_seed(0)
    np.random.seed(0)
    cases = 0
    for name, mk, mk_input, out_dim in _blocks():
        try:
            base = mk()
        except TimeoutError:
            raise
        except TimeoutError:
            raise
        except Exception as e:
            return {"status": "fail", "cases": cases, "detail": f"{name}: constructing the block raised {type(e).__name__}: {str(e)[:160]}"}
        methods = sorted(base.mutation_methods)
        words = list(itertools.product(methods, repeat=1)) + list(itertools.product(methods, repeat=2))
        words = words if len(words) <= 60 else rnd.sample(words, 60)
        words += [tuple(rnd.choice(methods) for _ in range(12)) for _ in range(3)]
        for w in words:
            m = mk()
            with torch.no_grad():
                for p_ in m.parameters():
                    p_.add_(torch.randn_like(p_) * 0.05)          # stand-in for training
            done = []
            for meth in w:
                try:
                    m = m.clone()
                    getattr(m, meth)()
                    done.append(meth)
                    cases += 1
                    msg = _check(name, m, mk_input, out_dim, f"{name} after {done}")
                except TimeoutError:
                    raise
                except Exception as e:
                    msg = f"{name} after {done + [meth]}: {type(e).__name__}: {str(e)[:160]}"
                if msg:
                    return {"status": "fail", "cases": cases, "detail": msg, "input": dict(block=name, word=done)}
    return {"status": "pass", "cases": cases}
