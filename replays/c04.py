"""Native (bounded) check for C04: weights present before and after a mutation keep their values on the common index range;
a mutation that leaves the architecture unchanged leaves the function unchanged."""
import numpy as np
import torch
from gymnasium import spaces


def preserve(payload):
    from agilerl.modules.mlp import EvolvableMLP
    from agilerl.networks.q_networks import QNetwork
    torch.manual_seed(0)
    np.random.seed(0)
    cases = 0
    mks = [("MLP", lambda: EvolvableMLP(4, 3, [32, 32], min_mlp_nodes=16, max_mlp_nodes=64, max_hidden_layers=3), lambda: torch.randn(3, 4)),
           ("QNetwork", lambda: QNetwork(spaces.Box(-1, 1, (4,)), spaces.Discrete(3)), lambda: torch.randn(3, 4))]
    for name, mk, mkx in mks:
        for meth in sorted(mk().mutation_methods):
            for rep in range(3):
                m = mk()
                with torch.no_grad():
                    for p_ in m.parameters():
                        p_.copy_(torch.randn_like(p_))                 # learned values (norm weights move away from 1/0 too)
                before = {k: v.detach().clone() for k, v in m.named_parameters()}
                x = mkx()
                with torch.no_grad():
                    y0 = m(x)
                arch0 = str(m.init_dict)
                getattr(m, meth)()
                cases += 1
                after = dict(m.named_parameters())
                for k, old in before.items():
                    if k in after:
                        new = after[k].detach()
                        if new.dim() != old.dim():
                            continue
                        idx = tuple(slice(0, min(o, n)) for o, n in zip(old.shape, new.shape))
                        if not torch.equal(new[idx], old[idx]):
                            return {"status": "fail", "cases": cases,
                                    "detail": f"{name}.{meth}: parameter '{k}' {tuple(old.shape)}->{tuple(new.shape)} lost its values on the common index range",
                                    "input": dict(block=name, method=meth)}
                if str(m.init_dict) == arch0:
                    with torch.no_grad():
                        y1 = m(x)
                    if not torch.allclose(y0, y1, atol=1e-6):
                        return {"status": "fail", "cases": cases, "detail": f"{name}.{meth}: architecture unchanged but the function changed (max diff {float((y0 - y1).abs().max()):.3e})"}
    # normalisation parameters and BatchNorm statistics of CNN encoders (scripts written as contract checks of the same two functions)
    from replays import demos
    for name in ("C04_demo_1", "C04_demo_2"):
        r = demos.run({"name": name, "budget_s": 200})
        cases += 1
        if r["status"] != "pass":
            return dict(r, cases=cases)
    return {"status": "pass", "cases": cases}
