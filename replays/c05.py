"""Native contract check of TournamentSelection.select (C05) with stub agents (only fitness/index/clone are used)."""
import copy
import random

import numpy as np

from agilerl.hpo.tournament import TournamentSelection


class Stub:
    def __init__(self, index, fitness, origin=None):
        self.index, self.fitness, self.origin = index, list(fitness), origin if origin is not None else index
        self.cloned = 0
        self.accelerator = None

    def clone(self, index=None, wrap=True):
        self.cloned += 1
        return Stub(self.index if index is None else index, copy.deepcopy(self.fitness), self.origin)


def _case(pop_fit, indices, tsize, elitism, psize, evl, seed):
    pop = [Stub(i, f) for i, f in zip(indices, pop_fit)]
    snapshot = [(a.index, list(a.fitness)) for a in pop]
    draws = []
    orig = np.random.randint

    def spy(*a, **k):
        r = orig(*a, **k)
        draws.append(np.array(r).copy())
        return r
    np.random.seed(seed)
    np.random.randint = spy
    try:
        elite, new = TournamentSelection(tsize, elitism, psize, evl).select(pop)
    finally:
        np.random.randint = orig
    means = [float(np.mean(f[-evl:])) for f in pop_fit]
    by_index = {a.index: k for k, a in enumerate(pop)}
    if means[by_index[elite.origin]] < max(means) - 1e-12:
        return f"elite is a copy of agent #{elite.origin} (mean of last {evl} = {means[by_index[elite.origin]]}) but the highest mean is {max(means)}"
    if len(new) != psize:
        return f"new population has {len(new)} members, configured size {psize}"
    if elitism and (new[0].origin != elite.origin or new[0].fitness != elite.fitness):
        return "with elitism the first member is not the elite"
    objs = [elite] + list(new) + list(pop)
    if len({id(o) for o in objs}) != len(objs) or len({id(o.fitness) for o in objs}) != len(objs):
        return "the returned elite, the new members and the old population are not pairwise distinct objects (shared mutable state)"
    off = 1 if elitism else 0
    if len(draws) != psize - off:
        return f"{len(draws)} tournaments for {psize - off} members"
    order = sorted(range(len(pop)), key=lambda k: means[k])
    for t, d in enumerate(draws):
        member = new[off + t]
        best = max(means[int(i)] for i in d)
        if member.origin not in [pop[int(i)].index for i in d]:
            return f"member {off + t} is a copy of agent #{member.origin}, which was not drawn ({list(d)})"
        if means[by_index[member.origin]] < best - 1e-12:
            return f"member {off + t} copies agent #{member.origin} (mean {means[by_index[member.origin]]}) but a drawn agent has mean {best}"
        if member.fitness != pop[by_index[member.origin]].fitness:
            return "member is not a faithful copy of its parent"
    idxs = [m.index for m in new]
    if len(set(idxs)) != len(idxs):
        return f"indices of the new population are not distinct: {idxs}"
    if any(m.index in indices for m in new[off:]):
        return f"a new member reuses an old index: {idxs} vs old {indices}"
    if [(a.index, a.fitness) for a in pop] != snapshot:
        return "the old population was modified"
    return None


def select(payload):
    if payload.get("mode") == "replay":
        p = payload
        msg = _case(p["fitness"], p["indices"], p["tsize"], p["elitism"], p["psize"], p["eval_loop"], p.get("seed", 0))
        return {"status": "fail" if msg else "pass", "cases": 1, "detail": msg, "input": p}
    rnd = random.Random(payload.get("seed", 0))
    cases = 0
    for _ in range(300 if payload.get("tier") != "thorough" else 3000):
        n = rnd.randint(1, 5)
        evl = rnd.randint(1, 4)
        # ties, negative scores, unequal-length histories (some shorter than the evaluation window)
        fit = [[rnd.choice([-10, -5, -4, 0, 4, 5, 6, 7, 10]) for _ in range(rnd.randint(1, 5))] for _ in range(n)]
        indices = rnd.sample(range(0, 3 * n + 2), n)
        tsize, elitism, psize = rnd.randint(1, 4), rnd.random() < 0.5, rnd.randint(1, 6)
        cases += 1
        seed = rnd.randint(0, 10 ** 6)
        msg = _case(fit, indices, tsize, elitism, psize, evl, seed)
        if msg:
            return {"status": "fail", "cases": cases, "detail": msg,
                    "input": dict(fitness=fit, indices=indices, tsize=tsize, elitism=elitism, psize=psize, eval_loop=evl, seed=seed)}
    return {"status": "pass", "cases": cases}
