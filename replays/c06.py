"""Native contract checks for C06: RLParameter.mutate and Mutations.rl_hyperparam_mutation on real agents."""
import random

import numpy as np
import torch


def _clip(x, lo, hi):
    return min(max(x, lo), hi)


def mutate(payload):
    from agilerl.algorithms.core.registry import RLParameter
    rnd = random.Random(payload.get("seed", 0))
    cases = 0
    orig = torch.rand
    if payload.get("mode") == "replay":      # the verifier's counterexample
        dt = float if payload["dtype"] == "float" else int
        p = RLParameter(min=payload["min"], max=payload["max"], shrink_factor=payload["shrink"], grow_factor=payload["grow"], dtype=dt)
        p.value = payload["value"]
        torch.rand = lambda *a, **k: torch.tensor([payload["draw"]])
        try:
            r = p.mutate()
        finally:
            torch.rand = orig
        f = p.shrink_factor if payload["draw"] < 0.5 else p.grow_factor
        exp = dt(_clip(payload["value"] * f, p.min, p.max))
        bad = (r != exp) or (dt is float and p.min <= p.max and not (p.min <= r <= p.max))
        return {"status": "fail" if bad else "pass", "cases": 1, "input": payload,
                "detail": f"mutate() of {payload['value']} with draw {payload['draw']} gave {r}, expected {dt.__name__}(clip(value*{f}, {p.min}, {p.max})) = {exp}"}
    try:
        for _ in range(400):
            dt = rnd.choice([float, int])
            lo = rnd.choice([1e-5, 0.5, 1, 8, 16])
            hi = lo * rnd.choice([1, 1.5, 10, 1000])
            p = RLParameter(min=lo, max=hi, shrink_factor=rnd.choice([0.5, 0.8, 0.95]), grow_factor=rnd.choice([1.05, 1.2, 2.0]), dtype=dt)
            v = rnd.uniform(lo, hi) if dt is float else int(rnd.uniform(lo, hi))
            for u in (0.0, 0.49999, 0.5, 0.99):
                p.value = v
                torch.rand = lambda *a, **k: torch.tensor([u])
                r = p.mutate()
                cases += 1
                f = p.shrink_factor if u < 0.5 else p.grow_factor
                exp = dt(_clip(v * f, lo, hi))
                if r != exp or p.value != r or (dt is float and not (lo <= r <= hi)):
                    return {"status": "fail", "cases": cases, "detail": f"mutate() of value {v} (draw {u}) gave {r}, expected {dt.__name__}(clip({v}*{f}, {lo}, {hi})) = {exp}",
                            "input": dict(min=lo, max=hi, value=v, draw=u, dtype=dt.__name__)}
    finally:
        torch.rand = orig
    return {"status": "pass", "cases": cases}


def rlhp(payload):
    from gymnasium import spaces
    from agilerl.algorithms.core.registry import HyperparameterConfig, RLParameter
    from agilerl.algorithms.dqn import DQN
    from agilerl.hpo.mutation import Mutations
    rnd = random.Random(payload.get("seed", 0))
    cases = 0
    obs, act = spaces.Box(-1, 1, (4,)), spaces.Discrete(2)
    for trial in range(6 if payload.get("tier") != "thorough" else 40):
        hp = HyperparameterConfig(lr=RLParameter(min=1e-5, max=1e-1), batch_size=RLParameter(min=8, max=64, dtype=int),
                                  learn_step=RLParameter(min=1, max=16, dtype=int, grow_factor=1.5, shrink_factor=0.75))
        lrs = [rnd.choice([1e-4, 1e-2, 3e-3]) for _ in range(3)]
        pop = [DQN(obs, act, index=i, hp_config=hp, lr=lrs[i], batch_size=rnd.choice([16, 32, 64]), learn_step=rnd.choice([2, 5]),
                   net_config={"encoder_config": {"hidden_size": [8]}, "head_config": {"hidden_size": [8]}}) for i in range(3)]
        mut = Mutations(no_mutation=0, architecture=0, new_layer_prob=0, parameters=0, activation=0, rl_hp=1, mutation_sd=0.1, device="cpu")
        for step in range(4):
            order = list(range(3))
            rnd.shuffle(order)
            for i in order:
                before = [{k: getattr(a, k) for k in ("lr", "batch_size", "learn_step")} for a in pop]
                torch.manual_seed(rnd.randint(0, 10 ** 6))
                mut.rl_hyperparam_mutation(pop[i])
                cases += 1
                a = pop[i]
                name = a.mut
                after = {k: getattr(a, k) for k in ("lr", "batch_size", "learn_step")}
                changed = [k for k in after if after[k] != before[i][k]]
                if name not in after or any(k != name for k in changed):
                    return {"status": "fail", "cases": cases, "detail": f"agent {i}: reports mutation '{name}' but changed {changed}"}
                p = hp.config[name]
                cands = [p.dtype(_clip(before[i][name] * f, p.min, p.max)) for f in (p.shrink_factor, p.grow_factor)]
                if not any(abs(after[name] - c) <= 1e-12 * max(1, abs(c)) for c in cands):
                    return {"status": "fail", "cases": cases, "witness_key": "own-value",
                            "detail": f"agent {i}: {name} {before[i][name]} -> {after[name]}, expected its own value x factor clipped: one of {cands} "
                                      f"(population built from one shared hp_config; lrs={lrs})",
                            "input": dict(lrs=lrs, agent=i, name=name)}
                for j in range(3):
                    if j != i and {k: getattr(pop[j], k) for k in after} != before[j]:
                        return {"status": "fail", "cases": cases, "detail": f"mutating agent {i} moved a value of agent {j}"}
                if name == "lr":
                    groups = a.optimizer.optimizer.param_groups
                    if any(g["lr"] != a.lr for g in groups):
                        return {"status": "fail", "cases": cases, "detail": f"agent {i}: optimizer groups use lr {[g['lr'] for g in groups]} but agent.lr={a.lr}"}
                    ids = {id(p_) for g in groups for p_ in g["params"]}
                    if ids != {id(p_) for p_ in a.actor.parameters()}:
                        return {"status": "fail", "cases": cases, "detail": f"agent {i}: optimizer does not step the agent's current actor parameters"}
    # several optimizers registered under one learning-rate name (TD3 critic_2_optimizer, MATD3, IPPO critics)
    from replays import demos
    r = demos.run({"name": "C02_demo_1", "budget_s": 230, "witness_key": "shared-lr-name"})
    cases += 1
    if r["status"] != "pass":
        return dict(r, cases=cases)
    return {"status": "pass", "cases": cases}
