"""Native (bounded) check for C07: save -> load() / load_checkpoint() restores an equivalent agent."""
import os
import tempfile

import numpy as np
import torch
from tensordict import TensorDict


def _sd(m):
    return {k: v.detach().clone() for k, v in m.state_dict().items() if torch.is_tensor(v)}


def _cmp_agents(a, b, where):
    for n in a.evolvable_attributes(networks_only=True):
        na, nb = getattr(a, n), getattr(b, n)
        if str(na.init_dict) != str(nb.init_dict):
            return f"{where}: architecture of {n} differs"
        sa, sb = _sd(na), _sd(nb)
        if set(sa) != set(sb) or any(not torch.equal(sa[k], sb[k]) for k in sa):
            return f"{where}: weights of {n} differ"
        x = torch.zeros(2, 4)
    for cfg in a.registry.optimizers:
        oa, ob = getattr(a, cfg.name).optimizer.state_dict(), getattr(b, cfg.name).optimizer.state_dict()
        ga = [{k: v for k, v in g.items() if k != "params"} for g in oa["param_groups"]]
        gb = [{k: v for k, v in g.items() if k != "params"} for g in ob["param_groups"]]
        if ga != gb:
            diff = [(k, g1[k], g2.get(k)) for g1, g2 in zip(ga, gb) for k in g1 if g1[k] != g2.get(k)]
            return f"{where}: optimizer {cfg.name} settings differ: {diff[:2]}"
        if len(oa["state"]) != len(ob["state"]) or any(any(torch.is_tensor(s1[k]) and not torch.equal(s1[k], s2[k]) for k in s1)
                                                        for s1, s2 in zip(oa["state"].values(), ob["state"].values())):
            return f"{where}: optimizer {cfg.name} state differs"
    for k in ("lr", "batch_size", "learn_step", "index", "fitness", "steps", "scores", "mut"):
        if hasattr(a, k) and getattr(a, k) != getattr(b, k):
            return f"{where}: attribute {k} differs ({getattr(a, k)} vs {getattr(b, k)})"
    return None


def roundtrip(payload):
    from gymnasium import spaces
    from agilerl.algorithms.cqn import CQN
    from agilerl.algorithms.ddpg import DDPG
    from agilerl.algorithms.dqn import DQN
    from agilerl.hpo.mutation import Mutations
    obs = spaces.Box(-1, 1, (4,))
    cases = 0

    def batch(cont):
        a = torch.rand(8, 2) * 2 - 1 if cont else torch.randint(0, 3, (8, 1))
        return TensorDict({"obs": torch.randn(8, 4), "action": a, "reward": torch.randn(8, 1), "next_obs": torch.randn(8, 4), "done": torch.zeros(8, 1)}, batch_size=[8])

    def learn(agent, name, e):
        return agent.learn((e["obs"], e["action"], e["reward"], e["next_obs"], e["done"])) if name == "CQN" else agent.learn(e)
    for name, mk, cont in (("CQN", lambda **k: CQN(obs, spaces.Discrete(3), **k), False), ("DQN", lambda **k: DQN(obs, spaces.Discrete(3), **k), False),
                           ("DDPG", lambda **k: DDPG(obs, spaces.Box(-1, 1, (2,)), share_encoders=False, policy_freq=1, **k), True)):
        torch.manual_seed(0); np.random.seed(0)
        agent = mk()
        learn(agent, name, batch(cont))
        muts = Mutations(no_mutation=0, architecture=1, new_layer_prob=0.5, parameters=0, activation=0, rl_hp=0, mutation_sd=0.1, rand_seed=1, device="cpu")
        agent = muts.mutation([agent])[0]
        # a learning rate that differs from the constructor default (as after an RL-hyperparameter mutation)
        lrname = agent.registry.optimizers[0].lr
        setattr(agent, lrname, getattr(agent, lrname) * 0.8)
        muts.reinit_opt(agent)
        learn(agent, name, batch(cont))
        agent.fitness.append(1.5); agent.steps[-1] += 11
        with tempfile.TemporaryDirectory() as d:
            path = os.path.join(d, "ckpt.pt")
            agent.save_checkpoint(path)
            loaded = type(agent).load(path)
            fresh = mk()
            fresh.load_checkpoint(path)
        for how, r in (("load()", loaded), ("load_checkpoint()", fresh)):
            cases += 1
            msg = _cmp_agents(agent, r, f"{name} via {how}")
            if msg:
                return {"status": "fail", "cases": cases, "detail": msg, "witness_key": f"{name}:{how}:{msg.split(':')[-1].strip()[:40]}",
                        "input": dict(algo=name, path=how)}
            x = np.random.RandomState(0).randn(5, 4).astype(np.float32)
            a1 = agent.get_action(x, 0.0) if name in ("DQN", "CQN") else agent.get_action(x, training=False)
            a2 = r.get_action(x, 0.0) if name in ("DQN", "CQN") else r.get_action(x, training=False)
            if not np.allclose(np.asarray(a1), np.asarray(a2)):
                return {"status": "fail", "cases": cases, "detail": f"{name} via {how}: greedy actions differ"}
    return {"status": "pass", "cases": cases}
