"""Native contract checks for C08: after a learn step every target network equals tau*online + (1-tau)*previous target;
done transitions ignore their next observation."""
import copy
import random

import numpy as np
import torch
from tensordict import TensorDict


def _weights(m):
    return {k: v.detach().clone() for k, v in m.state_dict().items() if v.dtype.is_floating_point}


def _batch(B, obs_dim, act, cont, done=0.0):
    a = torch.rand(B, act) * 2 - 1 if cont else torch.randint(0, act, (B, 1))
    return TensorDict({"obs": torch.randn(B, obs_dim), "action": a, "reward": torch.randn(B, 1), "next_obs": torch.randn(B, obs_dim),
                       "done": torch.full((B, 1), done)}, batch_size=[B])


def _learn(agent, name, e):
    if name.startswith('CQN') or name.startswith('TD3'):
        return agent.learn((e['obs'], e['action'], e['reward'], e['next_obs'], e['done']))
    return agent.learn(e)


def soft_update(payload):
    from gymnasium import spaces
    from agilerl.algorithms.cqn import CQN
    from agilerl.algorithms.ddpg import DDPG
    from agilerl.algorithms.dqn import DQN
    from agilerl.algorithms.dqn_rainbow import RainbowDQN
    from agilerl.algorithms.td3 import TD3
    torch.manual_seed(payload.get("seed", 0))
    obs = spaces.Box(-1, 1, (4,))
    cases = 0
    specs = [("DQN", lambda: DQN(obs, spaces.Discrete(3), tau=0.3, lr=1e-2), [("actor", "actor_target")], False, 1),
             ("DQN-double", lambda: DQN(obs, spaces.Discrete(3), tau=0.3, lr=1e-2, double=True), [("actor", "actor_target")], False, 1),
             ("CQN", lambda: CQN(obs, spaces.Discrete(3), tau=0.3, lr=1e-2), [("actor", "actor_target")], False, 1),
             ("RainbowDQN", lambda: RainbowDQN(obs, spaces.Discrete(3), tau=0.3, lr=1e-2, batch_size=8), [("actor", "actor_target")], False, 1),
             ("DDPG", lambda: DDPG(obs, spaces.Box(-1, 1, (2,)), tau=0.3, share_encoders=False, policy_freq=2),
              [("actor", "actor_target"), ("critic", "critic_target")], True, 2),
             ("TD3", lambda: TD3(obs, spaces.Box(-1, 1, (2,)), tau=0.3, share_encoders=False, policy_freq=2),
              [("actor", "actor_target"), ("critic_1", "critic_target_1"), ("critic_2", "critic_target_2")], True, 2)]
    for name, mk, pairs, cont, freq in specs:
        for variant in ("fresh", "clone"):
            agent = mk()
            if variant == "clone":
                agent = agent.clone()
            for step in range(1, 5):
                before_t = {t: _weights(getattr(agent, t)) for _, t in pairs}
                exp = _batch(8, 4, 2 if cont else 3, cont)
                _learn(agent, name, exp)
                cases += 1
                due = (step % freq == 0)
                for o, t in pairs:
                    on, tg = _weights(getattr(agent, o)), _weights(getattr(agent, t))
                    pnames = {n for n, _ in getattr(agent, o).named_parameters()}
                    for k in tg:
                        if k not in pnames:
                            continue        # buffers (e.g. noisy-net noise) are not weights
                        want = agent.tau * on[k] + (1 - agent.tau) * before_t[t][k] if due else before_t[t][k]
                        if not torch.allclose(tg[k], want, atol=1e-6):
                            return {"status": "fail", "cases": cases,
                                    "detail": f"{name} ({variant}) learn step {step}: target weight '{t}.{k}' is not tau*online + (1-tau)*previous target "
                                              f"(max deviation {float((tg[k] - want).abs().max()):.3e}; target {'unchanged' if torch.equal(tg[k], before_t[t][k]) else 'changed'})",
                                    "input": dict(algo=name, step=step, variant=variant)}
    return {"status": "pass", "cases": cases}


def bellman(payload):
    """done transitions never let their next observation influence the update (same seed, only next_obs of done rows differ)."""
    from gymnasium import spaces
    from agilerl.algorithms.cqn import CQN
    from agilerl.algorithms.ddpg import DDPG
    from agilerl.algorithms.dqn import DQN
    from agilerl.algorithms.td3 import TD3
    obs = spaces.Box(-1, 1, (4,))
    cases = 0
    specs = [("DQN", lambda: DQN(obs, spaces.Discrete(3)), False), ("CQN", lambda: CQN(obs, spaces.Discrete(3)), False),
             ("DDPG", lambda: DDPG(obs, spaces.Box(-1, 1, (2,)), share_encoders=False, policy_freq=1), True),
             ("TD3", lambda: TD3(obs, spaces.Box(-1, 1, (2,)), share_encoders=False, policy_freq=1), True)]
    for name, mk, cont in specs:
        torch.manual_seed(1)
        base = mk()
        exp = _batch(8, 4, 2 if cont else 3, cont, done=1.0)
        outs = []
        for alt in (0, 1):
            agent = base.clone()
            e = exp.clone()
            if alt:
                e["next_obs"] = e["next_obs"] + 5.0
            torch.manual_seed(7)
            _learn(agent, name, e)
            outs.append(_weights(agent.critic if hasattr(agent, "critic") else (agent.critic_1 if hasattr(agent, "critic_1") else agent.actor)))
            cases += 1
        for k in outs[0]:
            if not torch.allclose(outs[0][k], outs[1][k], atol=1e-7):
                return {"status": "fail", "cases": cases, "detail": f"{name}: all transitions are done, yet changing next_obs changed the updated weights ({k})"}
    return {"status": "pass", "cases": cases}
