"""Native contract checks for ReplayBuffer (C09): ring-buffer content vs. the history of additions."""
import random

import torch
from tensordict import TensorDict

from agilerl.components.replay_buffer import ReplayBuffer


def _batch(ids):
    n = len(ids)
    t = torch.tensor(ids, dtype=torch.float32)
    return TensorDict({"obs": torch.stack([t, t + 0.5], dim=1), "action": t.clone().long(), "reward": t.clone() * 2,
                       "next_obs": torch.stack([t + 1, t + 1.5], dim=1), "done": (t % 2).clone()}, batch_size=[n])


def _row_ok(storage, i, ident):
    r = storage[i]
    return (float(r["obs"][0]) == ident and float(r["obs"][1]) == ident + 0.5 and int(r["action"].reshape(-1)[0]) == ident
            and float(r["reward"].reshape(-1)[0]) == 2 * ident and float(r["next_obs"][0]) == ident + 1
            and float(r["done"].reshape(-1)[0]) == ident % 2)


def _check_contents(buf, hist, N):
    size = min(len(hist), N)
    if len(buf) != size:
        return f"len(buffer)={len(buf)} but min(N, added)={size}"
    if size == 0:
        return None
    want = sorted(hist[-size:])
    got = sorted(int(buf.storage["action"][i].reshape(-1)[0]) for i in range(size))
    if got != want:
        return f"stored ids {got} != last {size} added {want}"
    for i in range(size):
        ident = int(buf.storage["action"][i].reshape(-1)[0])
        if not _row_ok(buf.storage, i, ident):
            return f"row {i} (id {ident}) has fields that do not belong together: {buf.storage[i].to_dict()}"
    return None


def _run_sequence(N, widths, clear_at=None, sample_every=0, rnd=None):
    buf = ReplayBuffer(N)
    hist = []
    nxt = 0
    handed = []
    for step, w in enumerate(widths):
        if clear_at is not None and step == clear_at:
            buf.clear()
            hist = []
            if len(buf) != 0:
                return "len != 0 after clear()"
        ids = list(range(nxt, nxt + w))
        nxt += w
        buf.add(_batch(ids))
        hist += ids
        msg = _check_contents(buf, hist, N)
        if msg:
            return f"after adds {widths[:step + 1]} (N={N}): {msg}"
        for b, snap in handed:
            if not all(torch.equal(b[k], snap[k]) for k in snap.keys()):
                return "a batch handed out earlier was altered by a later add"
        if sample_every and len(buf) > 0:
            k = rnd.randint(1, len(buf))
            b = buf.sample(k, return_idx=True)
            idxs = [int(x) for x in b["idxs"]]
            if len(set(idxs)) != len(idxs):
                return f"duplicate indices in one uniform batch: {idxs}"
            if any(not (0 <= x < len(buf)) for x in idxs):
                return f"sampled index outside stored range: {idxs} size={len(buf)}"
            if len(idxs) != k:
                return f"batch of {len(idxs)} rows for batch_size {k}"
            stored = set(hist[-min(len(hist), N):])
            for j in range(k):
                ident = int(b["action"][j].reshape(-1)[0])
                if ident not in stored or not _row_ok(b, j, ident):
                    return f"sampled row {j} (id {ident}) is not a stored transition"
            handed.append((b, b.clone()))
            handed = handed[-3:]
    return None


def rb_add(payload):
    mode = payload.get("mode", "search")
    if mode == "replay":
        msg = _run_sequence(payload["N"], payload["widths"], payload.get("clear_at"), 1, random.Random(0))
        return {"status": "fail" if msg else "pass", "cases": 1, "detail": msg, "input": payload}
    rnd = random.Random(payload.get("seed", 0))
    cases = 0
    for N in (1, 2, 3, 4, 5, 8):
        for _ in range(40 if payload.get("tier") != "thorough" else 200):
            widths = [rnd.randint(1, N) for _ in range(rnd.randint(1, 8))]
            clear_at = rnd.choice([None, None, rnd.randrange(len(widths))])
            cases += 1
            msg = _run_sequence(N, widths, clear_at, 1, rnd)
            if msg:
                return {"status": "fail", "cases": cases, "detail": msg, "input": dict(N=N, widths=widths, clear_at=clear_at)}
    return {"status": "pass", "cases": cases}


rb_sample = rb_add


def ma_buffer(payload):
    """MultiAgentReplayBuffer: last min(N, added) experiences; fields and agents of one transition stay together."""
    import numpy as np
    from agilerl.components.multi_agent_replay_buffer import MultiAgentReplayBuffer
    rnd = random.Random(payload.get("seed", 0))
    agents, fields = ["agent_0", "agent_1"], ["obs", "action", "reward", "next_obs", "done"]
    cases = 0

    def exp(ident, a):
        return {"obs": np.array([ident, a], dtype=np.float32), "action": np.array([ident * 10 + a]), "reward": float(ident + a / 10),
                "next_obs": np.array([ident + 1, a], dtype=np.float32), "done": bool(ident % 2)}
    for N in (1, 2, 3, 5):
        for _ in range(20):
            buf = MultiAgentReplayBuffer(N, fields, agents)
            hist, nxt = [], 0
            for step in range(rnd.randint(1, 7)):
                E = rnd.choice([0, 0, 1, 2, 3])
                if E == 0:
                    ident = nxt; nxt += 1
                    buf.save_to_memory(*[{ag: exp(ident, a)[f] for a, ag in enumerate(agents)} for f in fields], is_vectorised=False)
                    hist.append(ident)
                else:
                    ids = list(range(nxt, nxt + E)); nxt += E
                    buf.save_to_memory(*[{ag: np.array([exp(i, a)[f] for i in ids]) for a, ag in enumerate(agents)} for f in fields], is_vectorised=True)
                    hist += ids
                cases += 1
                size = min(len(hist), N)
                if len(buf) != size:
                    return {"status": "fail", "cases": cases, "detail": f"len(buffer)={len(buf)}, min(N, added)={size}"}
                stored = [int(np.asarray(e.obs["agent_0"]).reshape(-1)[0]) for e in buf.memory]
                if stored != hist[-size:]:
                    return {"status": "fail", "cases": cases, "detail": f"N={N}: stored experiences {stored} != last {size} added {hist[-size:]}"}
                for e in buf.memory:
                    ident = int(np.asarray(e.obs["agent_0"]).reshape(-1)[0])
                    for a, ag in enumerate(agents):
                        w = exp(ident, a)
                        if int(np.asarray(e.action[ag]).reshape(-1)[0]) != ident * 10 + a or abs(float(np.asarray(e.reward[ag]).reshape(-1)[0]) - w["reward"]) > 1e-6 \
                                or int(np.asarray(e.next_obs[ag]).reshape(-1)[0]) != ident + 1 or int(np.asarray(e.obs[ag]).reshape(-1)[1]) != a:
                            return {"status": "fail", "cases": cases, "detail": f"stored experience {ident}: fields/agents do not belong together ({ag})"}
                if size:
                    k = rnd.randint(1, size)
                    obs, act, rew, nobs, done = buf.sample(k)
                    ids = [int(np.asarray(obs["agent_0"][b]).reshape(-1)[0]) for b in range(k)]
                    if len(set(ids)) != k or any(i not in hist[-size:] for i in ids):
                        return {"status": "fail", "cases": cases, "detail": f"sampled ids {ids} not distinct stored experiences {hist[-size:]}"}
                    for b, ident in enumerate(ids):
                        for a, ag in enumerate(agents):
                            if int(np.asarray(act[ag][b]).reshape(-1)[0]) != ident * 10 + a or int(np.asarray(nobs[ag][b]).reshape(-1)[0]) != ident + 1:
                                return {"status": "fail", "cases": cases, "detail": f"batch row {b}: fields of different experiences mixed ({ag})"}
    # vectorised additions of dict / tuple observations: one stored experience per ENVIRONMENT, sub-spaces of one env kept together
    for kind in ("dict", "tuple"):
        for E in (1, 2, 3, 4):
            buf = MultiAgentReplayBuffer(8, fields, agents)

            def obs_of(a, base):
                x = np.array([[100 * a + base + i, 1.0, 2.0] for i in range(E)], dtype=np.float32)
                y = np.array([[100 * a + base + i + 0.5] for i in range(E)], dtype=np.float32)
                return {"x": x, "y": y} if kind == "dict" else (x, y)
            args = [{ag: obs_of(a, 0) for a, ag in enumerate(agents)}, {ag: np.zeros((E, 1)) for ag in agents}, {ag: np.arange(E, dtype=np.float32) for ag in agents},
                    {ag: obs_of(a, 50) for a, ag in enumerate(agents)}, {ag: np.zeros(E, dtype=bool) for ag in agents}]
            cases += 1
            try:
                buf.save_to_memory(*args, is_vectorised=True)
            except IndexError as e:
                return {"status": "fail", "cases": cases, "witness_key": "ma-vect-structured-obs",
                        "detail": f"vectorised save of {kind} observations with {E} environment(s) raised IndexError: {e}", "input": {"kind": kind, "envs": E}}
            if len(buf) != E:
                return {"status": "fail", "cases": cases, "witness_key": "ma-vect-structured-obs",
                        "detail": f"vectorised save of {kind} observations from {E} environments stored {len(buf)} experiences", "input": {"kind": kind, "envs": E}}
            for i, e in enumerate(buf.memory):
                for a, ag in enumerate(agents):
                    o = e.obs[ag]
                    x, y = (o["x"], o["y"]) if kind == "dict" else o
                    if float(np.asarray(x).reshape(-1)[0]) != 100 * a + i or float(np.asarray(y).reshape(-1)[0]) != 100 * a + i + 0.5 \
                            or float(np.asarray(e.reward[ag]).reshape(-1)[0]) != i:
                        return {"status": "fail", "cases": cases, "witness_key": "ma-vect-structured-obs",
                                "detail": f"{kind} observations, env {i}, {ag}: sub-spaces / fields of different environments mixed", "input": {"kind": kind, "envs": E}}
    return {"status": "pass", "cases": cases}
