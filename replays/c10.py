"""Native contract check for MultiStepReplayBuffer (C10): every fused row against the property's relation."""
import itertools
import random

import torch
from tensordict import TensorDict

from agilerl.components.replay_buffer import MultiStepReplayBuffer, ReplayBuffer


def _td(t, E, dones, rewards):
    ids = torch.tensor([[t * 100 + e] for e in range(E)], dtype=torch.float32)
    return TensorDict({"obs": ids.clone(), "action": ids.clone() + 0.25, "reward": torch.tensor(rewards, dtype=torch.float32).reshape(E, 1),
                       "next_obs": ids.clone() + 0.5, "done": torch.tensor(dones, dtype=torch.float32).reshape(E, 1)}, batch_size=[E])


def _check_stream(n, gamma, E, dones, rewards, cap=64):
    """dones[t][e], rewards[t][e] for t in range(T)."""
    T = len(dones)
    ms, one = MultiStepReplayBuffer(cap, n_step=n, gamma=gamma), ReplayBuffer(cap)
    k_rows = 0
    for t in range(T):
        ret = ms.add(_td(t, E, dones[t], rewards[t]))
        if ret is None:
            if t >= n - 1:
                return f"add() returned None although the window is full (t={t}, n={n})"
            continue
        one.add(ret)
        t0 = t - n + 1          # the window is steps t0..t
        for e in range(E):
            row = ms.storage[(k_rows + e) % cap]
            row1 = one.storage[(k_rows + e) % cap]
            if float(row["obs"][0]) != t0 * 100 + e or float(row["action"].reshape(-1)[0]) != t0 * 100 + e + 0.25:
                return f"fused row {k_rows + e} does not start from the observed (obs, action) of step {t0} env {e}"
            if float(row1["obs"][0]) != float(row["obs"][0]) or float(row1["action"].reshape(-1)[0]) != float(row["action"].reshape(-1)[0]):
                return f"row {k_rows + e}: 1-step buffer and n-step buffer describe different (obs, action)"
            ok = False
            for j in range(n):
                if any(dones[t0 + k][e] for k in range(j)):
                    break            # nothing after a terminal step of this env may be mixed in
                if not (j == n - 1 or any(dones[t0 + j][x] for x in range(E))):
                    continue         # a window may be cut only at its end or where some environment ends
                ret_j = sum((gamma ** k) * rewards[t0 + k][e] for k in range(j + 1))
                if abs(float(row["reward"].reshape(-1)[0]) - ret_j) <= 1e-4 * max(1, abs(ret_j)) \
                        and float(row["next_obs"][0]) == (t0 + j) * 100 + e + 0.5 \
                        and float(row["done"].reshape(-1)[0]) == float(dones[t0 + j][e]):
                    ok = True
                    break
            if not ok:
                return (f"n={n} gamma={gamma} E={E} window steps {t0}..{t} env {e}: stored reward={float(row['reward'].reshape(-1)[0])} "
                        f"next_obs={float(row['next_obs'][0])} done={float(row['done'].reshape(-1)[0])} is not a discounted sum that "
                        f"stops at or before the episode end (dones={[d[e] for d in dones[t0:t + 1]]}, rewards={[r[e] for r in rewards[t0:t + 1]]})")
        k_rows += E
    return None


def nstep(payload):
    if payload.get("mode") == "replay":
        msg = _check_stream(payload["n"], payload["gamma"], payload["E"], payload["dones"], payload["rewards"])
        return {"status": "fail" if msg else "pass", "cases": 1, "detail": msg, "input": payload}
    cases = 0
    # exhaustive over small windows: every placement of done flags in one window, 1 and 2 envs
    for n in (1, 2, 3):
        for E in (1, 2):
            for flags in itertools.product([0, 1], repeat=n * E):
                dones = [[flags[t * E + e] for e in range(E)] for t in range(n)]
                rewards = [[10 ** t * (e + 1) for e in range(E)] for t in range(n)]
                cases += 1
                msg = _check_stream(n, 0.5, E, dones, rewards)
                if msg:
                    return {"status": "fail", "cases": cases, "detail": msg, "witness_key": f"n={n},E={E},dones={dones}",
                            "input": dict(n=n, gamma=0.5, E=E, dones=dones, rewards=rewards)}
    rnd = random.Random(payload.get("seed", 0))
    for _ in range(60 if payload.get("tier") != "thorough" else 600):
        n, E, T = rnd.randint(1, 4), rnd.randint(1, 3), rnd.randint(1, 12)
        dones = [[int(rnd.random() < 0.25) for _ in range(E)] for _ in range(T)]
        rewards = [[rnd.randint(-3, 3) for _ in range(E)] for _ in range(T)]
        cases += 1
        msg = _check_stream(n, rnd.choice([0.0, 0.5, 0.99, 1.0]), E, dones, rewards, cap=rnd.choice([3, 7, 64]) * E)
        if msg:
            return {"status": "fail", "cases": cases, "detail": msg, "input": dict(n=n, E=E, dones=dones, rewards=rewards)}
    return {"status": "pass", "cases": cases}


def clear(payload):
    """MultiStepReplayBuffer.clear(): nothing added before the clear may show up in a transition stored afterwards."""
    import torch
    from tensordict import TensorDict
    from agilerl.components.replay_buffer import MultiStepReplayBuffer
    cases = 0

    def tr(tag):
        return TensorDict({"obs": torch.full((1, 2), float(tag)), "action": torch.full((1, 1), float(tag)), "reward": torch.full((1, 1), float(tag)),
                           "next_obs": torch.full((1, 2), tag + 0.5), "done": torch.zeros((1, 1))}, batch_size=[1])
    for n in (2, 3, 4):
        for before in range(1, n + 2):
            buf = MultiStepReplayBuffer(max_size=16, n_step=n, gamma=0.5)
            for t in range(1, before + 1):
                buf.add(tr(t))
            buf.clear()
            cases += 1
            for k in range(1, n + 1):
                buf.add(tr(100 + k))
                want = 1 if k == n else 0
                if len(buf) != want:
                    return {"status": "fail", "cases": cases, "detail": f"n_step={n}: {before} adds, clear(), then {k} add(s): len {len(buf)} instead of {want} "
                            f"(the window kept {min(before, n)} transition(s) from before the clear)", "input": {"n_step": n, "before": before, "after": k}}
            row = buf.sample(1)
            if float(row["obs"].reshape(-1)[0]) != 101.0:
                return {"status": "fail", "cases": cases, "detail": f"n_step={n}: stored transition starts from obs tagged {float(row['obs'].reshape(-1)[0])}, added before clear()",
                        "input": {"n_step": n, "before": before}}
    return {"status": "pass", "cases": cases}


def per_nstep(payload):
    """Prioritised 1-step buffer + n-step buffer filled alongside: the n-step batch drawn with the PER indices has one row per index
    (same batch shape as the 1-step batch) and row k is the stored n-step transition idxs[k]."""
    import torch
    from tensordict import TensorDict
    from agilerl.components.replay_buffer import MultiStepReplayBuffer, PrioritizedReplayBuffer, ReplayBuffer
    cases = 0
    for per in (True, False):
        for n in (1, 3):
            mem = PrioritizedReplayBuffer(max_size=32, alpha=0.6) if per else ReplayBuffer(max_size=32)
            nmem = MultiStepReplayBuffer(max_size=32, n_step=n, gamma=0.9)
            for t in range(12):
                tr = TensorDict({"obs": torch.full((1, 3), float(t)), "action": torch.full((1, 1), float(t)), "reward": torch.ones((1, 1)),
                                 "next_obs": torch.full((1, 3), t + 1.0), "done": torch.zeros((1, 1))}, batch_size=[1])
                one = nmem.add(tr)
                if one is not None:
                    mem.add(one)
            B = 4
            torch.manual_seed(payload.get("seed", 0))
            batch = mem.sample(B, 0.4) if per else mem.sample(B, return_idx=True)
            nb = nmem.sample_from_indices(batch["idxs"])
            cases += 1
            if tuple(nb.batch_size) != tuple(batch.batch_size):
                return {"status": "fail", "cases": cases, "witness_key": "per-nstep-index-shape",
                        "detail": f"{'prioritised' if per else 'uniform'} buffer, n_step={n}: 1-step batch {tuple(batch.batch_size)} with obs {tuple(batch['obs'].shape)}, "
                                  f"n-step batch drawn with its indices {tuple(nb.batch_size)} with obs {tuple(nb['obs'].shape)}", "input": {"per": per, "n_step": n}}
            for k in range(B):
                if float(nb["obs"][k].reshape(-1)[0]) != float(batch["obs"][k].reshape(-1)[0]):
                    return {"status": "fail", "cases": cases, "detail": f"row {k}: n-step sample starts from another observation than the 1-step sample", "input": {"per": per, "n_step": n}}
    return {"status": "pass", "cases": cases}
