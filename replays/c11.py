"""Native contract checks for the segment trees and the prioritised buffer (C11)."""
import itertools
import operator
import random

from agilerl.components.segment_tree import MinSegmentTree, SegmentTree, SumSegmentTree


def _wf(t):
    return all(t.tree[i] == t.operation(t.tree[2 * i], t.tree[2 * i + 1]) for i in range(1, t.capacity))


def _setitem_case(kind, cap, leaves, idx, val):
    t = SumSegmentTree(cap) if kind == "sum" else MinSegmentTree(cap)
    for i, x in enumerate(leaves):
        t[i] = x
    if not _wf(t):
        return "tree not well-formed after building it with __setitem__ (node != op(children))"
    before = list(t.tree[cap:])
    t[idx] = val
    after = list(t.tree[cap:])
    exp = list(before)
    exp[idx] = val
    if after != exp:
        return f"leaves after t[{idx}]={val}: {after}, expected {exp}"
    if not _wf(t):
        bad = [i for i in range(1, cap) if t.tree[i] != t.operation(t.tree[2 * i], t.tree[2 * i + 1])]
        return f"inner nodes {bad} are not op(children) after t[{idx}]={val}; tree={t.tree}"
    direct = sum(after) if kind == "sum" else min(after)
    got = t.sum() if kind == "sum" else t.min()
    if got != direct:
        return f"root aggregate {got} != direct computation {direct}"
    return None


def setitem(payload):
    mode = payload.get("mode", "search")
    cases = 0
    if mode == "replay":
        p = payload
        msg = _setitem_case(p.get("kind", "sum"), p["cap"], p["leaves"], p["idx"], p["val"])
        return {"status": "fail" if msg else "pass", "cases": 1, "detail": msg, "input": p}
    rnd = random.Random(payload.get("seed", 0))
    for kind in ("sum", "min"):
        for cap in (1, 2, 4, 8, 16):
            for _ in range(60):
                leaves = [rnd.randint(0, 9) for _ in range(cap)]
                idx = rnd.randrange(cap)
                val = rnd.randint(0, 20)
                cases += 1
                msg = _setitem_case(kind, cap, leaves, idx, val)
                if msg:
                    return {"status": "fail", "cases": cases, "detail": msg,
                            "input": dict(kind=kind, cap=cap, leaves=leaves, idx=idx, val=val)}
    return {"status": "pass", "cases": cases}


def _retrieve_case(cap, leaves, ub):
    t = SumSegmentTree(cap)
    for i, x in enumerate(leaves):
        t[i] = x
    r = t.retrieve(ub)
    if not (0 <= r < cap):
        return f"retrieve({ub}) returned {r} outside [0,{cap})"
    lo = sum(leaves[:r])
    if not (lo <= ub < lo + leaves[r]):
        return f"retrieve({ub}) returned {r}, whose mass interval is [{lo},{lo + leaves[r]}) (leaves {leaves})"
    return None


def retrieve(payload):
    if payload.get("mode") == "replay":
        msg = _retrieve_case(payload["cap"], payload["leaves"], payload["ub"])
        return {"status": "fail" if msg else "pass", "cases": 1, "detail": msg, "input": payload}
    rnd = random.Random(payload.get("seed", 0))
    cases = 0
    for cap in (1, 2, 4, 8, 16):
        for _ in range(80):
            leaves = [rnd.randint(0, 4) for _ in range(cap)]
            tot = sum(leaves)
            if tot == 0:
                continue
            # exact boundaries of every mass interval and points strictly inside (integers and halves are exact in floats)
            pts = sorted({float(sum(leaves[:k])) for k in range(cap + 1)} | {sum(leaves[:k]) + 0.5 for k in range(cap)})
            for ub in pts:
                if 0 <= ub < tot:
                    cases += 1
                    msg = _retrieve_case(cap, leaves, ub)
                    if msg:
                        return {"status": "fail", "cases": cases, "detail": msg, "input": dict(cap=cap, leaves=leaves, ub=ub)}
    return {"status": "pass", "cases": cases}


def operate(payload):
    """sum(start, end) / min(start, end) over every sub-range agree with a direct computation."""
    rnd = random.Random(payload.get("seed", 0))
    cases = 0
    for cap in (1, 2, 4, 8, 16):
        for _ in range(6):
            leaves = [rnd.randint(0, 9) for _ in range(cap)]
            ts, tm = SumSegmentTree(cap), MinSegmentTree(cap)
            for i, x in enumerate(leaves):
                ts[i] = x
                tm[i] = x
            for start in range(cap):
                for end in range(start + 1, cap + 1):
                    cases += 1
                    e = end if end < cap else 0     # end == capacity is expressed as 0 in this API
                    try:
                        got_s, got_m = ts.sum(start, e if e else 0), tm.min(start, e if e else 0)
                    except RecursionError:
                        return {"status": "fail", "cases": cases, "detail": "unbounded recursion in _operate_helper",
                                "input": dict(cap=cap, leaves=leaves, start=start, end=end)}
                    if got_s != sum(leaves[start:end]) or got_m != min(leaves[start:end]):
                        return {"status": "fail", "cases": cases,
                                "detail": f"sum/min({start},{end}) = {got_s}/{got_m}, direct {sum(leaves[start:end])}/{min(leaves[start:end])}",
                                "input": dict(cap=cap, leaves=leaves, start=start, end=end)}
    return {"status": "pass", "cases": cases}


# ------------------------------------------------------------------------------------- PrioritizedReplayBuffer
def _per_batch(ids):
    import torch
    from tensordict import TensorDict
    t = torch.tensor(ids, dtype=torch.float32)
    return TensorDict({"obs": t.clone().reshape(-1, 1), "action": t.clone().long(), "reward": t.clone(),
                       "next_obs": t.clone().reshape(-1, 1) + 1, "done": torch.zeros(len(ids))}, batch_size=[len(ids)])


def _per_check(buf, prio, maxseen, N, alpha, where):
    """prio: reference list of priorities by slot (None = not stored).  Returns error message or None."""
    size = len(buf)
    stored = [j for j in range(N) if prio[j] is not None]
    if size != len(stored):
        return f"{where}: len(buffer)={size} but {len(stored)} slots are stored"
    cap = buf.sum_tree.capacity
    exp = [(prio[j] ** alpha if j < N and prio[j] is not None else 0.0) for j in range(cap)]
    got = [buf.sum_tree[j] for j in range(cap)]
    if any(abs(g - e) > 1e-9 * max(1, abs(e)) for g, e in zip(got, exp)):
        return f"{where}: sum-tree leaves {got} != priorities^alpha {exp}"
    gotm = [buf.min_tree[j] for j in range(cap)]
    expm = [(prio[j] ** alpha if j < N and prio[j] is not None else float('inf')) for j in range(cap)]
    if any((g != e) and abs(g - e) > 1e-9 * max(1, abs(e)) for g, e in zip(gotm, expm)):
        return f"{where}: min-tree leaves {gotm} != {expm}"
    if stored:
        tot, mn = sum(exp), min(e for e in expm)
        if abs(buf.sum_tree.sum() - tot) > 1e-9 * max(1, tot):
            return f"{where}: running total {buf.sum_tree.sum()} != direct sum {tot}"
        if abs(buf.min_tree.min() - mn) > 1e-9 * max(1, mn):
            return f"{where}: running minimum {buf.min_tree.min()} != direct min {mn}"
    if abs(buf.max_priority - maxseen) > 1e-12 * max(1, maxseen):
        return f"{where}: max_priority {buf.max_priority} != highest priority seen so far {maxseen}"
    return None


def _per_sequence(N, alpha, beta, ops, rnd):
    import torch
    from agilerl.components.replay_buffer import PrioritizedReplayBuffer
    buf = PrioritizedReplayBuffer(N, alpha=alpha)
    prio = [None] * N
    cur, nxt, maxseen = 0, 0, 1.0
    for step, op in enumerate(ops):
        where = f"N={N} alpha={alpha} ops={ops[:step + 1]}"
        if op[0] == "add":
            w = op[1]
            buf.add(_per_batch(list(range(nxt, nxt + w))))
            nxt += w
            for _ in range(w):
                prio[cur] = maxseen
                cur = (cur + 1) % N
        elif op[0] == "clear":
            buf.clear()
            prio = [None] * N
            cur = 0
            maxseen = buf.max_priority     # a cleared buffer may keep or reset its running max; both are consistent
        elif op[0] == "update" and len(buf) > 0:
            stored = [j for j in range(N) if prio[j] is not None]
            idxs = [rnd.choice(stored) for _ in range(op[1])]
            ps = [rnd.choice([1e-9, 1e-3, 0.5, 1.0, 3.0, 1e4]) for _ in idxs]
            buf.update_priorities(torch.tensor(idxs), torch.tensor(ps, dtype=torch.float64))
            for j, p in zip(idxs, ps):
                p = max(p, 1e-5)
                prio[j] = p
                maxseen = max(maxseen, p)
        elif op[0] == "setp":
            stored = [j for j in range(N) if prio[j] is not None]
            ps = [op[2] if j == op[1] else 2.0 for j in stored]
            buf.update_priorities(torch.tensor(stored), torch.tensor(ps, dtype=torch.float64))
            for j, p in zip(stored, ps):
                prio[j] = p
                maxseen = max(maxseen, p)
        elif op[0] == "sample" and len(buf) > 0:
            k = op[1]
            # controlled variates, including the ends of each stratum
            for u in (0.0, 0.5, 1.0 - 2 ** -24):
                orig = torch.rand
                torch.rand = lambda *a, **kw: torch.tensor([u])
                try:
                    b = buf.sample(k, beta)
                finally:
                    torch.rand = orig
                idxs = [int(x) for x in b["idxs"].reshape(-1)]
                if any(not (0 <= j < N) or prio[j] is None for j in idxs):
                    return f"{where}: sampled indices {idxs} include a slot that holds no stored transition (u={u})"
                pa = [(p ** alpha if p is not None else 0.0) for p in prio]
                tot = sum(pa)
                seg = tot / k
                for s_i, j in enumerate(idxs):
                    ub = u * seg + seg * s_i
                    lo = sum(pa[:j])
                    if not (lo - 1e-9 * tot <= ub < lo + pa[j] + 1e-9 * tot):
                        return f"{where}: stratum {s_i} draw {ub} returned index {j} whose mass interval is [{lo},{lo + pa[j]})"
                size = len(buf)
                wmax = max((size * p / tot) ** -beta for p in pa if p > 0)
                ws = [float(x) for x in b["weights"].reshape(-1)]
                for j, wj in zip(idxs, ws):
                    e = ((size * pa[j] / tot) ** -beta) / wmax
                    if abs(wj - e) > 1e-5 * max(1, e) or not (0 < wj <= 1 + 1e-6):
                        return f"{where}: weight {wj} for index {j} != (N*P(i))^-beta / max = {e} (must lie in (0,1])"
        msg = _per_check(buf, prio, maxseen, N, alpha, where)
        if msg:
            return msg
    return None


def per(payload):
    rnd = random.Random(payload.get("seed", 0))
    if payload.get("mode") == "replay":
        msg = _per_sequence(payload["N"], payload["alpha"], payload["beta"], [tuple(o) for o in payload["ops"]], rnd)
        return {"status": "fail" if msg else "pass", "cases": 1, "detail": msg, "input": payload}
    cases = 0
    # systematic part: every fill level, every position of the strictly smallest / largest priority
    for N in (1, 2, 3, 4, 5):
        for fill in range(1, N + 3):
            for special in range(min(fill, N)):
                for lowhigh in (0.25, 7.0):
                    ops = [("add", 1)] * fill + [("setp", special, lowhigh)] + [("sample", min(fill, N))]
                    cases += 1
                    msg = _per_sequence(N, 0.6, 0.4, ops, rnd)
                    if msg:
                        return {"status": "fail", "cases": cases, "detail": msg, "witness_key": msg.split(":")[-1][:60],
                                "input": dict(N=N, alpha=0.6, beta=0.4, ops=ops)}
    n = 25 if payload.get("tier") != "thorough" else 150
    for N in (1, 2, 3, 4, 5, 8):
        for _ in range(n):
            alpha, beta = rnd.choice([0.0, 0.5, 0.6, 1.0]), rnd.choice([0.0, 0.4, 1.0])
            ops = []
            for _ in range(rnd.randint(2, 9)):
                kind = rnd.choice(["add", "add", "add", "update", "sample", "clear"])
                ops.append((kind, rnd.randint(1, N)))
            cases += 1
            msg = _per_sequence(N, alpha, beta, ops, rnd)
            if msg:
                return {"status": "fail", "cases": cases, "detail": msg, "witness_key": msg.split(":")[-1][:60],
                        "input": dict(N=N, alpha=alpha, beta=beta, ops=ops)}
    return {"status": "pass", "cases": cases}
