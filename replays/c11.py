"""Native contract checks for the segment trees and the prioritised buffer (C11)."""
import itertools
import operator
import random

from agilerl.components.segment_tree import MinSegmentTree, SegmentTree, SumSegmentTree


def _wf(t):
    return all(t.tree[i] == t.operation(t.tree[2 * i], t.tree[2 * i + 1]) for i in range(1, t.capacity))


def _setitem_case(kind, cap, leaves, idx, val):
    t = SumSegmentTree(cap) if kind == "sum" else MinSegmentTree(cap)
    for i, x in enumerate(leaves):
        t[i] = x
    if not _wf(t):
        return "tree not well-formed after building it with __setitem__ (node != op(children))"
    before = list(t.tree[cap:])
    t[idx] = val
    after = list(t.tree[cap:])
    exp = list(before)
    exp[idx] = val
    if after != exp:
        return f"leaves after t[{idx}]={val}: {after}, expected {exp}"
    if not _wf(t):
        bad = [i for i in range(1, cap) if t.tree[i] != t.operation(t.tree[2 * i], t.tree[2 * i + 1])]
        return f"inner nodes {bad} are not op(children) after t[{idx}]={val}; tree={t.tree}"
    direct = sum(after) if kind == "sum" else min(after)
    got = t.sum() if kind == "sum" else t.min()
    if got != direct:
        return f"root aggregate {got} != direct computation {direct}"
    return None


def setitem(payload):
    mode = payload.get("mode", "search")
    cases = 0
    if mode == "replay":
        p = payload
        msg = _setitem_case(p.get("kind", "sum"), p["cap"], p["leaves"], p["idx"], p["val"])
        return {"status": "fail" if msg else "pass", "cases": 1, "detail": msg, "input": p}
    rnd = random.Random(payload.get("seed", 0))
    for kind in ("sum", "min"):
        for cap in (1, 2, 4, 8, 16):
            for _ in range(60):
                leaves = [rnd.randint(0, 9) for _ in range(cap)]
                idx = rnd.randrange(cap)
                val = rnd.randint(0, 20)
                cases += 1
                msg = _setitem_case(kind, cap, leaves, idx, val)
                if msg:
                    return {"status": "fail", "cases": cases, "detail": msg,
                            "input": dict(kind=kind, cap=cap, leaves=leaves, idx=idx, val=val)}
    return {"status": "pass", "cases": cases}
