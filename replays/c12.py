"""Native contract check for C12: the vectorised PettingZoo env against N independently stepped copies of a scripted
environment (episode lengths differ per sub-env; ends by termination, truncation, mixed; an agent may leave early)."""
import functools
import itertools

import numpy as np
from gymnasium import spaces


class Scripted:
    """Deterministic ParallelEnv-like environment: observation encodes (env id, episode, t, agent)."""
    metadata = {"render_modes": [], "name": "scripted"}
    render_mode = None

    def __init__(self, ident, length, mode, leave_early=False, img=False):
        self.ident, self.length, self.mode, self.leave_early, self.img = ident, length, mode, leave_early, img
        self.possible_agents = ["a0", "a1"]
        self.agents = list(self.possible_agents)
        self.episode, self.t = -1, 0
        self.acc = 0.0

    def observation_space(self, agent):
        return spaces.Box(-1e6, 1e6, (2, 3, 3) if self.img else (4,), dtype=np.float32)

    def action_space(self, agent):
        return spaces.Discrete(5)

    def _obs(self, a):
        v = np.array([self.ident, self.episode, self.t, a], dtype=np.float32)
        return np.broadcast_to(v[:2, None, None] + 10 * self.t + a, (2, 3, 3)).astype(np.float32).copy() if self.img else v

    def reset(self, seed=None, options=None):
        self.episode += 1
        self.t = 0
        self.acc = 0.0
        self.agents = list(self.possible_agents)
        return {a: self._obs(i) for i, a in enumerate(self.possible_agents)}, {a: {"ep": self.episode, "t": 0} for a in self.possible_agents}

    def step(self, actions):
        self.t += 1
        self.acc += sum(int(np.asarray(actions[a]).reshape(-1)[0]) for a in actions)
        end = self.t >= self.length
        present = [a for i, a in enumerate(self.possible_agents) if not (self.leave_early and i == 0 and self.t >= 2 and not end)]
        term, trunc = {}, {}
        for i, a in enumerate(self.possible_agents):
            if a not in present:
                continue
            if self.mode == "term":
                term[a], trunc[a] = end, False
            elif self.mode == "trunc":
                term[a], trunc[a] = False, end
            else:      # mixed: a0 terminated, a1 truncated at the end
                term[a], trunc[a] = (end and i == 0), (end and i == 1)
        obs = {a: self._obs(self.possible_agents.index(a)) for a in present}
        rew = {a: float(self.acc + self.possible_agents.index(a)) for a in present}
        info = {a: {"ep": self.episode, "t": self.t} for a in present}
        return obs, rew, term, trunc, info

    def close(self):
        pass

    def render(self):
        return None


def _make(ident, length, mode, leave, img):
    return Scripted(ident, length, mode, leave, img)


def _eq(a, b):
    return np.array_equal(np.asarray(a, dtype=np.float64), np.asarray(b, dtype=np.float64))


def _run(lengths, mode, steps, copy, leave=False, img=False):
    from agilerl.vector.pz_async_vec_env import AsyncPettingZooVecEnv
    n = len(lengths)
    fns = [functools.partial(_make, i, lengths[i], mode, leave, img) for i in range(n)]
    vec = AsyncPettingZooVecEnv(fns, copy=copy)
    refs = [f() for f in fns]
    try:
        vobs, vinfo = vec.reset()
        robs = [r.reset()[0] for r in refs]
        for i in range(n):
            for a in ("a0", "a1"):
                if not _eq(vobs[a][i], robs[i][a]):
                    return f"reset: observation of env {i} agent {a} differs from the environment reset alone"
        rnd = np.random.RandomState(0)
        for s in range(steps):
            acts = {a: rnd.randint(0, 5, size=n) for a in ("a0", "a1")}
            vo, vr, vt, vtr, vi = vec.step(acts)
            for i, r in enumerate(refs):
                o, rew, te, tr, inf = r.step({a: acts[a][i] for a in ("a0", "a1")})
                finished = all((te.get(a, True) or tr.get(a, False)) for a in r.possible_agents)
                if finished:
                    o, _ = r.reset()      # an independent environment restarts under the same condition
                for a in r.possible_agents:
                    if a in rew and not _eq(vr[a][i], rew[a]):
                        return f"step {s} env {i} {a}: reward {vr[a][i]} != {rew[a]} (stepped alone)"
                    if a in te and (bool(vt[a][i]) != bool(te[a]) or bool(vtr[a][i]) != bool(tr[a])):
                        return f"step {s} env {i} {a}: termination/truncation ({vt[a][i]},{vtr[a][i]}) != ({te[a]},{tr[a]})"
                    if a in o and not _eq(vo[a][i], o[a]):
                        return (f"step {s} env {i} {a}: observation {np.asarray(vo[a][i]).reshape(-1)[:4]} != {np.asarray(o[a]).reshape(-1)[:4]} "
                                f"({'first observation of the new episode expected' if finished else 'same step'})")
                    if a not in o:
                        # agent left early: placeholder values
                        if not (np.asarray(vo[a][i]) == -1).all() and not np.isnan(np.asarray(vo[a][i], dtype=np.float64)).all():
                            return f"step {s} env {i}: agent {a} left the episode but its slot holds stale data {np.asarray(vo[a][i]).reshape(-1)[:4]}"
    finally:
        vec.close()
    return None


def vecenv(payload):
    cases = 0
    scen = [([3], "term", 7, True), ([2, 3], "term", 7, True), ([4, 3, 6], "trunc", 13, True), ([2, 5], "mixed", 11, True), ([3, 2], "term", 7, False),
            ([1, 1], "trunc", 4, True)]
    for lengths, mode, steps, copy in scen:
        cases += 1
        msg = _run(lengths, mode, steps, copy)
        if msg:
            return {"status": "fail", "cases": cases, "detail": f"mode={mode} lengths={lengths} copy={copy}: {msg}", "witness_key": mode,
                    "input": dict(lengths=lengths, mode=mode, copy=copy)}
    for img in (False, True):
        cases += 1
        msg = _run([5, 4], "term", 9, True, leave=True, img=img)
        if msg:
            return {"status": "fail", "cases": cases, "detail": f"agent leaves early (img={img}): {msg}", "witness_key": "leave-early"}
    return {"status": "pass", "cases": cases}


def wrapper(payload):
    from agilerl.wrappers.pettingzoo_wrappers import PettingZooAutoResetParallelWrapper
    cases = 0
    for mode in ("term", "trunc", "mixed"):
        env = PettingZooAutoResetParallelWrapper(Scripted(0, 3, mode))
        env.reset()
        eps = []
        for s in range(7):
            o, r, te, tr, inf = env.step({"a0": 1, "a1": 1})
            eps.append(int(o["a0"][1]))
            cases += 1
        want = [0, 0, 1, 1, 1, 2, 2]
        if eps != want:
            return {"status": "fail", "cases": cases, "witness_key": "wrapper-" + mode,
                    "detail": f"auto-reset wrapper, episodes of length 3 ending by {mode}: episode index seen after each step {eps}, expected {want}"}
    return {"status": "pass", "cases": cases}
