"""Native contract check for C12: the vectorised PettingZoo env against N independently stepped copies of a scripted
environment (episode lengths differ per sub-env; ends by termination, truncation, mixed; an agent may leave early)."""
import functools
import itertools

import numpy as np
from gymnasium import spaces


class Scripted:
    """Deterministic ParallelEnv-like environment: observation encodes (env id, episode, t, agent)."""
    metadata = {"render_modes": [], "name": "scripted"}
    render_mode = None

    def __init__(self, ident, length, mode, leave_early=False, img=False):
        self.ident, self.length, self.mode, self.leave_early, self.img = ident, length, mode, leave_early, img
        self.possible_agents = ["a0", "a1"]
        self.agents = list(self.possible_agents)
        self.episode, self.t = -1, 0
        self.acc = 0.0

    def observation_space(self, agent):
        return spaces.Box(-1e6, 1e6, (2, 3, 3) if self.img else (4,), dtype=np.float32)

    def action_space(self, agent):
        return spaces.Discrete(5)

    def _obs(self, a):
        v = np.array([self.ident, self.episode, self.t, a], dtype=np.float32)
        return np.broadcast_to(v[:2, None, None] + 10 * self.t + a, (2, 3, 3)).astype(np.float32).copy() if self.img else v

    def reset(self, seed=None, options=None):
        self.episode += 1
        self.t = 0
        self.acc = 0.0
        self.agents = list(self.possible_agents)
        return {a: self._obs(i) for i, a in enumerate(self.possible_agents)}, {a: {"ep": self.episode, "t": 0} for a in self.possible_agents}

    def step(self, actions):
        self.t += 1
        self.acc += sum(int(np.asarray(actions[a]).reshape(-1)[0]) for a in actions)
        end = self.t >= self.length
        present = [a for i, a in enumerate(self.possible_agents) if not (self.leave_early and i == 0 and self.t >= 2 and not end)]
        term, trunc = {}, {}
        for i, a in enumerate(self.possible_agents):
            if a not in present:
                continue
            if self.mode == "term":
                term[a], trunc[a] = end, False
            elif self.mode == "trunc":
                term[a], trunc[a] = False, end
            else:      # mixed: a0 terminated, a1 truncated at the end
                term[a], trunc[a] = (end and i == 0), (end and i == 1)
        obs = {a: self._obs(self.possible_agents.index(a)) for a in present}
        rew = {a: float(self.acc + self.possible_agents.index(a)) for a in present}
        info = {a: {"ep": self.episode, "t": self.t} for a in present}
        return obs, rew, term, trunc, info

    def close(self):
        pass

    def render(self):
        return None


def _make(ident, length, mode, leave, img):
    return Scripted(ident, length, mode, leave, img)


def _eq(a, b):
    return np.array_equal(np.asarray(a, dtype=np.float64), np.asarray(b, dtype=np.float64))


def _run(lengths, mode, steps, copy, leave=False, img=False):
    from agilerl.vector.pz_async_vec_env import AsyncPettingZooVecEnv
    n = len(lengths)
    fns = [functools.partial(_make, i, lengths[i], mode, leave, img) for i in range(n)]
    vec = AsyncPettingZooVecEnv(fns, copy=copy)
    refs = [f() for f in fns]
    try:
        vobs, vinfo = vec.reset()
        robs = [r.reset()[0] for r in refs]
        for i in range(n):
            for a in ("a0", "a1"):
                if not _eq(vobs[a][i], robs[i][a]):
                    return f"reset: observation of env {i} agent {a} differs from the environment reset alone"
        rnd = np.random.RandomState(0)
        for s in range(steps):
            acts = {a: rnd.randint(0, 5, size=n) for a in ("a0", "a1")}
            vo, vr, vt, vtr, vi = vec.step(acts)
            for i, r in enumerate(refs):
                o, rew, te, tr, inf = r.step({a: acts[a][i] for a in ("a0", "a1")})
                finished = all((te.get(a, True) or tr.get(a, False)) for a in r.possible_agents)
                if finished:
                    o, _ = r.reset()      # an independent environment restarts under the same condition
                for a in r.possible_agents:
                    if a in rew and not _eq(vr[a][i], rew[a]):
                        return f"step {s} env {i} {a}: reward {vr[a][i]} != {rew[a]} (stepped alone)"
                    if a in te and (bool(vt[a][i]) != bool(te[a]) or bool(vtr[a][i]) != bool(tr[a])):
                        return f"step {s} env {i} {a}: termination/truncation ({vt[a][i]},{vtr[a][i]}) != ({te[a]},{tr[a]})"
                    if a in o and not _eq(vo[a][i], o[a]):
                        return (f"step {s} env {i} {a}: observation {np.asarray(vo[a][i]).reshape(-1)[:4]} != {np.asarray(o[a]).reshape(-1)[:4]} "
                                f"({'first observation of the new episode expected' if finished else 'same step'})")
                    if a not in o:
                        # agent left early: placeholder values
                        if not (np.asarray(vo[a][i]) == -1).all() and not np.isnan(np.asarray(vo[a][i], dtype=np.float64)).all():
                            return f"step {s} env {i}: agent {a} left the episode but its slot holds stale data {np.asarray(vo[a][i]).reshape(-1)[:4]}"
    finally:
        vec.close()
    return None


def vecenv(payload):
    cases = 0
    scen = [([3], "term", 7, True), ([2, 3], "term", 7, True), ([4, 3, 6], "trunc", 13, True), ([2, 5], "mixed", 11, True), ([3, 2], "term", 7, False),
            ([1, 1], "trunc", 4, True)]
    for lengths, mode, steps, copy in scen:
        cases += 1
        msg = _run(lengths, mode, steps, copy)
        if msg:
            return {"status": "fail", "cases": cases, "detail": f"mode={mode} lengths={lengths} copy={copy}: {msg}", "witness_key": mode,
                    "input": dict(lengths=lengths, mode=mode, copy=copy)}
    for img in (False, True):
        cases += 1
        msg = _run([5, 4], "term", 9, True, leave=True, img=img)
        if msg:
            return {"status": "fail", "cases": cases, "detail": f"agent leaves early (img={img}): {msg}", "witness_key": "leave-early"}
    return {"status": "pass", "cases": cases}


def wrapper(payload):
    from agilerl.wrappers.pettingzoo_wrappers import PettingZooAutoResetParallelWrapper
    cases = 0
    for mode in ("term", "trunc", "mixed"):
        env = PettingZooAutoResetParallelWrapper(Scripted(0, 3, mode))
        env.reset()
        eps = []
        for s in range(7):
            o, r, te, tr, inf = env.step({"a0": 1, "a1": 1})
            eps.append(int(o["a0"][1]))
            cases += 1
        want = [0, 0, 1, 1, 1, 2, 2]
        if eps != want:
            return {"status": "fail", "cases": cases, "witness_key": "wrapper-" + mode,
                    "detail": f"auto-reset wrapper, episodes of length 3 ending by {mode}: episode index seen after each step {eps}, expected {want}"}
    return {"status": "pass", "cases": cases}


class EchoEnv:
    """Reports, in obs and info, the action (value, shape, dtype kind) it was handed."""
    metadata = {"name": "echo_v0", "render_modes": []}
    render_mode = None
    SPACES = None

    def __init__(self):
        self.possible_agents = list(self.SPACES)
        self.agents = self.possible_agents[:]

    def observation_space(self, agent):
        from gymnasium import spaces
        return spaces.Box(-100, 100, (4,), np.float32)

    def action_space(self, agent):
        return self.SPACES[agent]

    def reset(self, seed=None, options=None):
        self.agents = self.possible_agents[:]
        return ({a: np.zeros(4, np.float32) for a in self.agents}, {a: {} for a in self.agents})

    def step(self, actions):
        obs, info = {}, {}
        for a in self.agents:
            act = np.asarray(actions[a])
            flat = act.astype(np.float64).reshape(-1)
            o = np.zeros(4, np.float32)
            o[:min(4, flat.size)] = flat[:4]
            obs[a] = o
            info[a] = {"shape_seen": str(act.shape), "float_kind": bool(act.dtype.kind == "f")}
        z = {a: False for a in self.agents}
        return obs, {a: 0.0 for a in self.agents}, z, dict(z), info

    def close(self):
        pass


def actions(payload):
    """Each sub-environment must receive exactly the action it would receive when stepped alone: same values, same shape, floats stay floats."""
    from gymnasium import spaces
    from pettingzoo import ParallelEnv
    from agilerl.vector.pz_async_vec_env import AsyncPettingZooVecEnv
    cases = 0
    layouts = [
        {"a0": spaces.Box(-1, 1, (1,), np.float32), "a1": spaces.Box(-1, 1, (1, 2), np.float32)},
        {"a0": spaces.Box(-1, 1, (3,), np.float32), "a1": spaces.Discrete(4)},
        {"a0": spaces.MultiDiscrete([5]), "a1": spaces.MultiDiscrete([3, 2])},
        {"a0": spaces.Box(-1, 1, (), np.float32), "a1": spaces.Discrete(3)},
    ]
    n = 3
    for li, sp in enumerate(layouts):
        cls = type(f"Echo{li}", (EchoEnv, ParallelEnv), {"SPACES": sp})
        globals()[cls.__name__] = cls                      # picklable by the worker processes (fork)
        rng = np.random.RandomState(li)
        acts = {}
        for a, s in sp.items():
            if isinstance(s, spaces.Discrete):
                acts[a] = rng.randint(0, s.n, size=n)
            elif isinstance(s, spaces.MultiDiscrete):
                acts[a] = np.stack([s.sample() for _ in range(n)])
            else:
                acts[a] = (rng.rand(n, *s.shape) * 1.5 - 0.75).astype(np.float32)
        ref = []
        for i in range(n):
            e = cls()
            e.reset()
            ref.append(e.step({a: acts[a][i] for a in sp}))
        vec = AsyncPettingZooVecEnv([cls for _ in range(n)])
        try:
            vec.reset()
            cases += 1
            try:
                obs, rew, term, trunc, info = vec.step(acts)
            except Exception as exc:
                return {"status": "fail", "cases": cases, "witness_key": "action-mangled",
                        "detail": f"layout {li}: vec.step raised {type(exc).__name__}: {exc}", "input": {"layout": {a: str(s) for a, s in sp.items()}}}
            for i in range(n):
                for a in sp:
                    if not np.allclose(np.asarray(obs[a][i], dtype=np.float64), np.asarray(ref[i][0][a], dtype=np.float64)):
                        return {"status": "fail", "cases": cases, "witness_key": "action-mangled",
                                "detail": f"layout {li} ({sp[a]}), env {i}, {a}: the sub-environment saw action values {np.asarray(obs[a][i]).tolist()}, "
                                          f"stepped alone it sees {np.asarray(ref[i][0][a]).tolist()}", "input": {"space": str(sp[a])}}
                    seen, alone = info[a]["shape_seen"][i], ref[i][4][a]["shape_seen"]
                    if seen != alone:
                        return {"status": "fail", "cases": cases, "witness_key": "action-mangled",
                                "detail": f"layout {li} ({sp[a]}), env {i}, {a}: the sub-environment received an action of shape {seen}, stepped alone {alone}",
                                "input": {"space": str(sp[a])}}
        finally:
            vec.close(terminate=True)
    return {"status": "pass", "cases": cases}


class _KeyedBase:
    metadata = {"name": "keyed_done_v0", "render_modes": []}
    render_mode = None
    max_cycles = 3

    def __init__(self):
        self.possible_agents = ["a0", "a1"]
        self.agents = self.possible_agents[:]
        self.t, self.episode = 0, -1

    def observation_space(self, agent):
        from gymnasium import spaces
        return spaces.Box(0, 100, (2,), np.float32)

    def action_space(self, agent):
        from gymnasium import spaces
        return spaces.Discrete(2)

    def _obs(self, agents):
        return {a: np.array([self.episode, self.t], np.float32) for a in agents}

    def reset(self, seed=None, options=None):
        self.episode += 1
        self.t = 0
        self.agents = self.possible_agents[:]
        return self._obs(self.agents), {a: {} for a in self.agents}

    def close(self):
        pass


def keyorder(payload):
    """Episode ends when every agent is terminated OR truncated - whatever the key order / key sets of the two dicts the
    environment returns.  Reference: the same environment under the single-environment auto-reset wrapper."""
    from pettingzoo import ParallelEnv
    from agilerl.vector.pz_async_vec_env import AsyncPettingZooVecEnv
    from agilerl.wrappers.pettingzoo_wrappers import PettingZooAutoResetParallelWrapper

    class OrderSwap(_KeyedBase, ParallelEnv):
        def step(self, actions):
            self.t += 1
            live = self.agents[:]
            term = {a: (a == "a0" and self.t == 2) for a in live}
            trunc = {a: (a == "a1" and self.t == 2) for a in reversed(live)}
            obs, rew = self._obs(live), {a: 1.0 for a in live}
            self.agents = [a for a in live if not (term[a] or trunc[a])]
            return obs, rew, term, trunc, {a: {} for a in live}

    class LiveTermAllTrunc(_KeyedBase, ParallelEnv):
        def step(self, actions):
            self.t += 1
            live = self.agents[:]
            term = {a: (a == "a0" and self.t == 1) for a in live}
            trunc = {a: (a in live and self.t >= self.max_cycles) for a in self.possible_agents}
            obs, rew = self._obs(live), {a: 1.0 for a in live}
            self.agents = [a for a in live if not (term[a] or trunc[a])]
            return obs, rew, term, trunc, {a: {} for a in live}
    cases = 0
    for cls in (OrderSwap, LiveTermAllTrunc):
        globals()[cls.__name__] = cls
        cls.__qualname__ = cls.__name__
        ref = PettingZooAutoResetParallelWrapper(cls())
        ref.reset()
        vec = AsyncPettingZooVecEnv([cls, cls])
        try:
            vec.reset()
            for s in range(5):
                cases += 1
                obs, rew, term, trunc, info = vec.step({"a0": np.array([0, 1]), "a1": np.array([1, 0])})
                r_obs = ref.step({"a0": 0, "a1": 1})[0]
                for i in range(2):
                    for a in r_obs:
                        if not np.array_equal(obs[a][i], r_obs[a]):
                            return {"status": "fail", "cases": cases, "witness_key": "done-key-order",
                                    "detail": f"{cls.__name__}: step {s}, env {i}, {a}: observation (episode, t) = {np.asarray(obs[a][i]).tolist()} but the environment "
                                              f"stepped alone under the auto-reset wrapper gives {np.asarray(r_obs[a]).tolist()} (termination and truncation flags were paired by position)",
                                    "input": {"env": cls.__name__, "step": s}}
        finally:
            vec.close(terminate=True)
    return {"status": "pass", "cases": cases}


def dtypes(payload):
    """Every observation dtype a space can declare is vectorised with the declared dtype and the values of the environment stepped alone."""
    from gymnasium import spaces
    from pettingzoo import ParallelEnv
    from agilerl.vector.pz_async_vec_env import AsyncPettingZooVecEnv
    cases = 0
    for dt in (np.bool_, np.int8, np.uint8, np.int16, np.int32, np.int64, np.uint64, np.float32, np.float64):
        lo, hi = (0, 1) if dt is np.bool_ else (0, 100)

        class DtEnv(ParallelEnv):
            metadata = {"name": "dtype_v0", "render_modes": []}
            render_mode = None
            DT, LO, HI = dt, lo, hi

            def __init__(self):
                self.possible_agents = ["a0", "a1"]
                self.agents = self.possible_agents[:]
                self.t = 0

            def observation_space(self, agent):
                box = spaces.Box(self.LO, self.HI, (4,), self.DT)
                return box if agent == "a0" else spaces.Dict({"m": box, "v": spaces.Box(-1, 1, (2,), np.float32)})

            def action_space(self, agent):
                return spaces.Discrete(2)

            def _o(self, a):
                m = np.array([(self.t + k) % 2 if self.DT is np.bool_ else (self.t * 7 + k) % 100 for k in range(4)]).astype(self.DT)
                return m if a == "a0" else {"m": m, "v": np.array([0.5, -0.5], np.float32)}

            def reset(self, seed=None, options=None):
                self.t = 0
                self.agents = self.possible_agents[:]
                return {a: self._o(a) for a in self.agents}, {a: {} for a in self.agents}

            def step(self, actions):
                self.t += 1
                z = {a: False for a in self.agents}
                return {a: self._o(a) for a in self.agents}, {a: 0.0 for a in self.agents}, z, dict(z), {a: {} for a in self.agents}

            def close(self):
                pass
        DtEnv.__qualname__ = DtEnv.__name__ = f"DtEnv_{np.dtype(dt).name}"
        globals()[DtEnv.__name__] = DtEnv
        cases += 1
        try:
            vec = AsyncPettingZooVecEnv([DtEnv, DtEnv])
        except TypeError as e:
            return {"status": "fail", "cases": cases, "witness_key": "obs-dtype-unsupported",
                    "detail": f"observation dtype {np.dtype(dt).name}: constructing the vector env raised TypeError: {e}", "input": {"dtype": np.dtype(dt).name}}
        try:
            vec.reset()
            obs = vec.step({"a0": np.array([0, 1]), "a1": np.array([1, 0])})[0]
            ref = DtEnv()
            ref.reset()
            r = ref.step({"a0": 0, "a1": 1})[0]
            for i in range(2):
                got, want = np.asarray(obs["a0"][i]), r["a0"]
                gotm, wantm = np.asarray(obs["a1"]["m"][i]), r["a1"]["m"]
                if got.dtype != want.dtype or not np.array_equal(got, want) or gotm.dtype != wantm.dtype or not np.array_equal(gotm, wantm):
                    return {"status": "fail", "cases": cases, "witness_key": "obs-dtype-unsupported",
                            "detail": f"observation dtype {np.dtype(dt).name}, env {i}: got {got.dtype} {got.tolist()}, stepped alone {want.dtype} {want.tolist()}",
                            "input": {"dtype": np.dtype(dt).name}}
        finally:
            vec.close(terminate=True)
    return {"status": "pass", "cases": cases}


def declared(payload):
    """Returned observation batches lie in the vector env's declared (batched) observation space."""
    from gymnasium import spaces
    from pettingzoo import ParallelEnv
    from agilerl.vector.pz_async_vec_env import AsyncPettingZooVecEnv
    SP = {"plain": spaces.Discrete(5), "in_dict": spaces.Dict({"d": spaces.Discrete(5), "v": spaces.Box(-1, 1, (2,), np.float32)}),
          "in_tuple": spaces.Tuple((spaces.Discrete(5), spaces.Box(-1, 1, (2,), np.float32))), "vec": spaces.Box(-1, 1, (3,), np.float32),
          "img": spaces.Box(0, 255, (2, 2, 3), np.uint8), "md": spaces.MultiDiscrete([3, 4]), "mb": spaces.MultiBinary(3)}

    class DeclEnv(ParallelEnv):
        metadata = {"name": "declared_v0", "render_modes": []}
        render_mode = None

        def __init__(self):
            self.possible_agents = list(SP)
            self.agents = self.possible_agents[:]

        def observation_space(self, agent):
            return SP[agent]

        def action_space(self, agent):
            return spaces.Discrete(2)

        def _obs(self):
            v = np.array([0.5, -0.5], np.float32)
            return {"plain": 3, "in_dict": {"d": 3, "v": v}, "in_tuple": (3, v), "vec": np.array([0.1, 0.2, 0.3], np.float32),
                    "img": np.full((2, 2, 3), 7, np.uint8), "md": np.array([2, 3]), "mb": np.array([1, 0, 1], np.int8)}

        def reset(self, seed=None, options=None):
            self.agents = self.possible_agents[:]
            return self._obs(), {a: {} for a in self.agents}

        def step(self, actions):
            f = {a: False for a in self.agents}
            return self._obs(), {a: 0.0 for a in self.agents}, dict(f), dict(f), {a: {} for a in self.agents}

        def close(self):
            pass
    DeclEnv.__qualname__ = "DeclEnv"
    globals()["DeclEnv"] = DeclEnv
    vec = AsyncPettingZooVecEnv([DeclEnv for _ in range(3)])
    try:
        obs, _ = vec.reset()
        got = {"plain": obs["plain"], "in_dict.d": obs["in_dict"]["d"], "in_dict.v": obs["in_dict"]["v"], "in_tuple.0": obs["in_tuple"][0], "in_tuple.1": obs["in_tuple"][1],
               "vec": obs["vec"], "img": obs["img"], "md": obs["md"], "mb": obs["mb"]}
        decl = {"plain": vec.observation_space("plain"), "in_dict.d": vec.observation_space("in_dict")["d"], "in_dict.v": vec.observation_space("in_dict")["v"],
                "in_tuple.0": vec.observation_space("in_tuple")[0], "in_tuple.1": vec.observation_space("in_tuple")[1], "vec": vec.observation_space("vec"),
                "img": vec.observation_space("img"), "md": vec.observation_space("md"), "mb": vec.observation_space("mb")}
    finally:
        vec.close(terminate=True)
    bad = [k for k in got if np.asarray(got[k]).shape != decl[k].shape]
    disc = [k for k in bad if k in ("plain", "in_dict.d", "in_tuple.0")]
    other = [k for k in bad if k not in disc]
    if other:
        k = other[0]
        return {"status": "fail", "cases": len(got), "detail": f"{k}: returned shape {np.asarray(got[k]).shape}, declared {decl[k]} of shape {decl[k].shape}", "input": {"member": k}}
    if disc:
        return {"status": "fail", "cases": len(got), "witness_key": "discrete-obs-declared-shape",
                "detail": "Discrete observations: " + "; ".join(f"{k} returned {np.asarray(got[k]).shape}, declared {decl[k].shape}" for k in disc), "input": {"members": disc}}
    return {"status": "pass", "cases": len(got)}
