"""Native contract check for C13 (bounded): misuse errors, exception type propagation, timeouts; each call under a watchdog."""
import functools
import multiprocessing as mp
import threading
import time

import numpy as np

from replays.c12 import Scripted


class Faulty(Scripted):
    def __init__(self, ident, raise_at=None, sleep_at=None):
        super().__init__(ident, 50, "term")
        self.raise_at, self.sleep_at, self.n = raise_at, sleep_at, 0

    def step(self, actions):
        self.n += 1
        if self.raise_at == self.n:
            raise KeyError("boom")
        if self.sleep_at == self.n:
            time.sleep(3.0)
        return super().step(actions)


def _mk(i, ra, sa):
    return Faulty(i, ra, sa)


def _watch(fn, limit=8.0):
    out = {}

    def run():
        try:
            out["r"] = fn()
        except BaseException as e:
            out["e"] = e
    t = threading.Thread(target=run, daemon=True)
    t.start()
    t.join(limit)
    if t.is_alive():
        return "hang", None
    return ("exc", out["e"]) if "e" in out else ("ok", out.get("r"))


def misuse(payload):
    from agilerl.vector.pz_async_vec_env import AsyncPettingZooVecEnv
    from gymnasium.error import AlreadyPendingCallError, ClosedEnvironmentError, NoAsyncCallError
    cases = 0
    acts = {"a0": np.zeros(3, dtype=int), "a1": np.zeros(3, dtype=int)}
    per_env = [[0, 0], [0, 0], [0, 0]]

    def make(faults):
        return AsyncPettingZooVecEnv([functools.partial(_mk, i, *faults.get(i, (None, None))) for i in range(3)])
    # out-of-order calls
    env = make({})
    try:
        env.reset()
        for name, fn, exc in (("step_wait without step_async", lambda: env.step_wait(), NoAsyncCallError),
                              ("reset_wait without reset_async", lambda: env.reset_wait(), NoAsyncCallError),
                              ("call_wait without call_async", lambda: env.call_wait(), NoAsyncCallError)):
            cases += 1
            k, v = _watch(fn)
            if k != "exc" or not isinstance(v, exc):
                return {"status": "fail", "cases": cases, "detail": f"{name}: expected {exc.__name__}, got {k} {type(v).__name__ if v is not None else ''}"}
        env.step_async(per_env)
        cases += 1
        k, v = _watch(lambda: env.step_async(per_env))
        if k != "exc" or not isinstance(v, AlreadyPendingCallError):
            return {"status": "fail", "cases": cases, "detail": f"second step_async while pending: expected AlreadyPendingCallError, got {k}"}
        k, v = _watch(lambda: env.step_wait())
        if k != "ok":
            return {"status": "fail", "cases": cases, "detail": f"environment unusable after a rejected call: step_wait gave {k} {v!r}"}
    finally:
        _watch(lambda: env.close(terminate=True), 10)
    cases += 1
    k, v = _watch(lambda: env.step_async(per_env))
    if k != "exc" or not isinstance(v, ClosedEnvironmentError):
        return {"status": "fail", "cases": cases, "detail": f"use after close: expected ClosedEnvironmentError, got {k}"}
    # worker exception keeps its type; timeout is reported as timeout; raiser + sleeper must not hang
    for faults, want in (({1: (2, None)}, "KeyError"), ({0: (None, 2)}, "TimeoutError"), ({0: (2, None), 1: (None, 2)}, "either")):
        env = make(faults)
        try:
            env.reset()
            env.step(acts)
            env.step_async(per_env)
            cases += 1
            k, v = _watch(lambda: env.step_wait(timeout=0.5))
            name = type(v).__name__ if k == "exc" else k
            ok = (k == "exc") and (name == want or (want == "either" and name in ("KeyError", "TimeoutError")))
            if not ok:
                return {"status": "fail", "cases": cases, "witness_key": f"fault:{want}",
                        "detail": f"faults {faults}: step_wait(timeout=0.5) -> {name}, expected {want} (a hang means the call did not return within 8 s)"}
        finally:
            k2, _ = _watch(lambda: env.close(terminate=True), 12)
            if k2 == "hang":
                return {"status": "fail", "cases": cases, "detail": f"faults {faults}: close(terminate=True) did not return"}
            alive = [p.is_alive() for p in getattr(env, "processes", [])]
            if any(alive):
                return {"status": "fail", "cases": cases, "detail": f"faults {faults}: worker processes still alive after close: {alive}"}
    return {"status": "pass", "cases": cases}


def faults(payload):
    """close() after worker faults; the exception type that reaches the caller; the interface after a timeout.
    Every scenario runs under a watchdog thread; workers are killed at the end of each scenario."""
    import time
    import warnings
    import gymnasium
    from agilerl.vector.pz_async_vec_env import AsyncPettingZooVecEnv
    from replays.faultenv import ACTION_LIST, ACTIONS, TwoArgError, Watchdog, kill_all, make
    gymnasium.logger.min_level = 50
    warnings.filterwarnings("ignore")
    PROMPT = 4.0
    cases = 0
    only = payload.get("only")

    def vec3(fault, who=1):
        fns = [make(fault if i == who else None) for i in range(3)]
        return AsyncPettingZooVecEnv(fns)

    def closed_ok(vec, **kw):
        w = Watchdog(lambda: vec.close(**kw), PROMPT)
        time.sleep(0.3)
        alive = [p.is_alive() for p in vec.processes]
        bad = None
        if w.hung:
            bad = f"close({kw}) did not return within {PROMPT}s"
        elif w.exc is not None:
            bad = f"close({kw}) raised {type(w.exc).__name__}: {w.exc}"
        elif any(alive):
            bad = f"close({kw}) returned but workers alive = {alive}"
        kill_all(vec)
        return bad
    scenarios = []
    # (key, description, runner) - runner returns None or a failure text
    def s_pending_error(term):
        vec = vec3(dict(cmd="step", at=0, kind="raise"))
        vec.reset()
        vec.step_async(ACTION_LIST(3))
        time.sleep(0.5)
        return closed_ok(vec, **({"terminate": True} if term else {}))
    scenarios += [("close-pending-error", "worker 1 raises in step; close() while the step is pending", lambda: s_pending_error(False)),
                  ("close-pending-error", "worker 1 raises in step; close(terminate=True) while the step is pending", lambda: s_pending_error(True))]

    def s_exc_type(exc, name):
        vec = vec3(dict(cmd="step", at=0, kind="raise", exc=exc))
        vec.reset()
        w = Watchdog(lambda: vec.step(ACTIONS(3)), PROMPT)
        bad = None
        if w.hung:
            bad = f"step() hung after the worker raised {name}"
        elif type(w.exc).__name__ != name:
            bad = f"worker raised {name}, the caller received {type(w.exc).__name__}: {w.exc}"
        bad = bad or closed_ok(vec)
        kill_all(vec)
        return bad
    scenarios += [("exception-type", "worker raises UnicodeDecodeError (5-argument constructor)",
                   lambda: s_exc_type(lambda: UnicodeDecodeError("utf-8", b"x", 0, 1, "bad"), "UnicodeDecodeError")),
                  ("exception-type", "worker raises a user exception with a two-argument constructor", lambda: s_exc_type(lambda: TwoArgError(7, "seven"), "TwoArgError")),
                  ("exception-type", "worker raises ValueError", lambda: s_exc_type(lambda: ValueError("boom"), "ValueError"))]

    def s_timeout_then_close():
        vec = vec3(dict(cmd="step", at=0, kind="sleep", secs=30.0))
        vec.reset()
        vec.step_async(ACTION_LIST(3))
        try:
            vec.step_wait(timeout=0.2)
            return "step_wait(timeout=0.2) returned although worker 1 sleeps 30 s"
        except Exception as e:
            if type(e).__name__ != "TimeoutError":
                kill_all(vec)
                return f"timeout reported as {type(e).__name__}"
        return closed_ok(vec, timeout=0.5)
    scenarios.append(("timeout-close", "worker 1 sleeps 30 s in step; step_wait times out; close(timeout=0.5)", s_timeout_then_close))

    def s_timeout_then_call():
        vec = vec3(dict(cmd="step", at=0, kind="sleep", secs=1.0))
        vec.reset()
        vec.step_async(ACTION_LIST(3))
        try:
            vec.step_wait(timeout=0.1)
        except Exception:
            pass
        time.sleep(1.5)
        bad = None
        try:
            r = vec.call("ping")
            if tuple(r) != ("pong", "pong", "pong"):
                bad = f"after a timed-out step, call('ping') returned a stale reply: {str(r)[:120]}"
        except Exception as e:
            if type(e).__name__ != "AlreadyPendingCallError":
                bad = f"after a timed-out step, call('ping') raised {type(e).__name__}"
        bad = bad or closed_ok(vec, timeout=1.0)
        kill_all(vec)
        return bad
    scenarios.append(("timeout-stale", "worker 1 is 1 s late; step_wait times out; call('ping') afterwards", s_timeout_then_call))

    def s_killed(where, who):
        vec = vec3(dict(cmd="step", at=0, kind="kill") if where == "step" else None, who)
        vec.reset()
        if where == "step":
            w = Watchdog(lambda: vec.step(ACTIONS(3)), PROMPT)
            if w.hung:
                kill_all(vec)
                return "step() hung after a worker was killed"
        else:
            vec.processes[who].kill()
            time.sleep(0.3)
        return closed_ok(vec)
    scenarios += [("killed-worker", "worker 1 SIGKILLed inside step; close()", lambda: s_killed("step", 1)),
                  ("killed-worker", "worker 0 SIGKILLed inside step; close()", lambda: s_killed("step", 0)),
                  ("killed-worker", "worker 1 killed while idle; close()", lambda: s_killed("idle", 1))]
    def s_unpicklable(exc, name):
        # the type cannot cross the process boundary: it must still surface as an error (no hang) and leave close() working
        vec = vec3(dict(cmd="step", at=0, kind="raise", exc=exc))
        vec.reset()
        w = Watchdog(lambda: vec.step(ACTIONS(3)), PROMPT)
        bad = None
        if w.hung:
            bad = f"step() hung after the worker raised {name}"
        elif w.exc is None:
            bad = f"step() returned although the worker raised {name}"
        if bad:
            kill_all(vec)
            return bad
        return closed_ok(vec)
    from replays.faultenv import CallbackError, FormattedError
    scenarios += [("unpicklable-exception", "worker raises an exception that cannot be rebuilt from its pickle", lambda: s_unpicklable(lambda: FormattedError(3, "x"), "FormattedError")),
                  ("unpicklable-exception", "worker raises an exception holding a lambda", lambda: s_unpicklable(lambda: CallbackError("cb"), "CallbackError"))]
    for key, what, run in scenarios:
        if only and key != only:
            continue
        cases += 1
        bad = run()
        if bad:
            return {"status": "fail", "cases": cases, "witness_key": key, "detail": f"{what}: {bad}", "input": {"scenario": what}}
    return {"status": "pass", "cases": cases}
