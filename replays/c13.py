"""Native contract check for C13 (bounded): misuse errors, exception type propagation, timeouts; each call under a watchdog."""
import functools
import multiprocessing as mp
import threading
import time

import numpy as np

from replays.c12 import Scripted


class Faulty(Scripted):
    def __init__(self, ident, raise_at=None, sleep_at=None):
        super().__init__(ident, 50, "term")
        self.raise_at, self.sleep_at, self.n = raise_at, sleep_at, 0

    def step(self, actions):
        self.n += 1
        if self.raise_at == self.n:
            raise KeyError("boom")
        if self.sleep_at == self.n:
            time.sleep(3.0)
        return super().step(actions)


def _mk(i, ra, sa):
    return Faulty(i, ra, sa)


def _watch(fn, limit=8.0):
    out = {}

    def run():
        try:
            out["r"] = fn()
        except BaseException as e:
            out["e"] = e
    t = threading.Thread(target=run, daemon=True)
    t.start()
    t.join(limit)
    if t.is_alive():
        return "hang", None
    return ("exc", out["e"]) if "e" in out else ("ok", out.get("r"))


def misuse(payload):
    from agilerl.vector.pz_async_vec_env import AsyncPettingZooVecEnv
    from gymnasium.error import AlreadyPendingCallError, ClosedEnvironmentError, NoAsyncCallError
    cases = 0
    acts = {"a0": np.zeros(3, dtype=int), "a1": np.zeros(3, dtype=int)}
    per_env = [[0, 0], [0, 0], [0, 0]]

    def make(faults):
        return AsyncPettingZooVecEnv([functools.partial(_mk, i, *faults.get(i, (None, None))) for i in range(3)])
    # out-of-order calls
    env = make({})
    try:
        env.reset()
        for name, fn, exc in (("step_wait without step_async", lambda: env.step_wait(), NoAsyncCallError),
                              ("reset_wait without reset_async", lambda: env.reset_wait(), NoAsyncCallError),
                              ("call_wait without call_async", lambda: env.call_wait(), NoAsyncCallError)):
            cases += 1
            k, v = _watch(fn)
            if k != "exc" or not isinstance(v, exc):
                return {"status": "fail", "cases": cases, "detail": f"{name}: expected {exc.__name__}, got {k} {type(v).__name__ if v is not None else ''}"}
        env.step_async(per_env)
        cases += 1
        k, v = _watch(lambda: env.step_async(per_env))
        if k != "exc" or not isinstance(v, AlreadyPendingCallError):
            return {"status": "fail", "cases": cases, "detail": f"second step_async while pending: expected AlreadyPendingCallError, got {k}"}
        k, v = _watch(lambda: env.step_wait())
        if k != "ok":
            return {"status": "fail", "cases": cases, "detail": f"environment unusable after a rejected call: step_wait gave {k} {v!r}"}
    finally:
        _watch(lambda: env.close(terminate=True), 10)
    cases += 1
    k, v = _watch(lambda: env.step_async(per_env))
    if k != "exc" or not isinstance(v, ClosedEnvironmentError):
        return {"status": "fail", "cases": cases, "detail": f"use after close: expected ClosedEnvironmentError, got {k}"}
    # worker exception keeps its type; timeout is reported as timeout; raiser + sleeper must not hang
    for faults, want in (({1: (2, None)}, "KeyError"), ({0: (None, 2)}, "TimeoutError"), ({0: (2, None), 1: (None, 2)}, "either")):
        env = make(faults)
        try:
            env.reset()
            env.step(acts)
            env.step_async(per_env)
            cases += 1
            k, v = _watch(lambda: env.step_wait(timeout=0.5))
            name = type(v).__name__ if k == "exc" else k
            ok = (k == "exc") and (name == want or (want == "either" and name in ("KeyError", "TimeoutError")))
            if not ok:
                return {"status": "fail", "cases": cases, "witness_key": f"fault:{want}",
                        "detail": f"faults {faults}: step_wait(timeout=0.5) -> {name}, expected {want} (a hang means the call did not return within 8 s)"}
        finally:
            k2, _ = _watch(lambda: env.close(terminate=True), 12)
            if k2 == "hang":
                return {"status": "fail", "cases": cases, "detail": f"faults {faults}: close(terminate=True) did not return"}
            alive = [p.is_alive() for p in getattr(env, "processes", [])]
            if any(alive):
                return {"status": "fail", "cases": cases, "detail": f"faults {faults}: worker processes still alive after close: {alive}"}
    return {"status": "pass", "cases": cases}
