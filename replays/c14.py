"""Native contract checks for C14: masked discrete selection (DQN, CQN) for extreme draws; Box bounds (DDPG, TD3)."""
import itertools
import random

import numpy as np
import torch


def dqn(payload):
    from gymnasium import spaces
    from agilerl.algorithms.cqn import CQN
    from agilerl.algorithms.dqn import DQN
    cases = 0
    obs_space = spaces.Box(-1, 1, (3,))
    for n in (2, 3, 4):
        a = DQN(obs_space, spaces.Discrete(n))
        c = CQN(obs_space, spaces.Discrete(n))
        obs = np.random.RandomState(0).randn(2, 3).astype(np.float32)
        for mask in itertools.product([0, 1], repeat=n):
            if not any(mask):
                continue
            m = np.array([mask, mask])
            for eps in (0.0, 1.0):
                for draw in (0.0, 0.5, 1.0 - 2 ** -24):
                    o_rl, o_un = torch.rand_like, np.random.uniform
                    torch.rand_like = lambda x, *a_, **k_: torch.full_like(x, draw)
                    np.random.uniform = lambda lo=0, hi=1, size=None: np.full(size, draw)
                    try:
                        acts = [("DQN", a.get_action(obs, epsilon=eps, action_mask=m)), ("CQN", c.get_action(obs, epsilon=eps, action_mask=m))]
                    finally:
                        torch.rand_like, np.random.uniform = o_rl, o_un
                    cases += 1
                    for name, act in acts:
                        act = np.asarray(act).reshape(-1)
                        if act.shape[0] != 2:
                            return {"status": "fail", "cases": cases, "detail": f"{name}: action batch shape {act.shape} for 2 observations"}
                        for b in range(2):
                            if not (0 <= act[b] < n) or mask[int(act[b])] == 0:
                                return {"status": "fail", "cases": cases,
                                        "detail": f"{name}: mask {mask}, epsilon={eps}, uniform draw {draw}: returned masked action {int(act[b])}",
                                        "input": dict(mask=mask, epsilon=eps, draw=draw, algo=name)}
                        if eps == 0.0 and draw > 0:
                            with torch.no_grad():
                                net = a.actor if name == "DQN" else c.actor
                                q = net(torch.as_tensor(obs)).numpy()
                            for b in range(2):
                                best = max(q[b][k] for k in range(n) if mask[k])
                                if q[b][int(act[b])] < best - 1e-6:
                                    return {"status": "fail", "cases": cases, "detail": f"{name}: greedy choice {int(act[b])} is not the best legal action (mask {mask})"}
    return {"status": "pass", "cases": cases}


def box(payload):
    from gymnasium import spaces
    from agilerl.algorithms.ddpg import DDPG
    from agilerl.algorithms.td3 import TD3
    torch.manual_seed(0)
    cases = 0
    obs_space = spaces.Box(-1, 1, (3,))
    boxes = [spaces.Box(-1, 1, (2,)), spaces.Box(np.array([-1.1540825, 0.0], dtype=np.float32), np.array([1.9899813, 2.0], dtype=np.float32)),
             spaces.Box(np.array([0.0, -3.0], dtype=np.float32), np.array([2.0, -1.0], dtype=np.float32))]
    for cls in (DDPG, TD3):
        for bx in boxes:
            for act_fn in ("Tanh", "Identity"):
                agent = cls(obs_space, bx, share_encoders=False,
                            net_config={"head_config": {"hidden_size": [16], "output_activation": act_fn}, "encoder_config": {"hidden_size": [16]}})
                for scale in (1.0, 50.0):
                    obs = (np.random.RandomState(1).randn(6, 3) * scale).astype(np.float32)
                    for training in (False, True):
                        a = np.asarray(agent.get_action(obs, training=training))
                        cases += 1
                        if a.shape[0] != 6:
                            return {"status": "fail", "cases": cases, "detail": f"{cls.__name__}: batch shape {a.shape}"}
                        if (a < bx.low - 0).any() or (a > bx.high + 0).any():
                            i = np.argwhere((a < bx.low) | (a > bx.high))[0]
                            return {"status": "fail", "cases": cases,
                                    "detail": f"{cls.__name__} head={act_fn} training={training}: action[{i[0]},{i[1]}]={a[i[0], i[1]]} outside [{bx.low[i[1]]}, {bx.high[i[1]]}]",
                                    "input": dict(algo=cls.__name__, head=act_fn, training=training)}
    return {"status": "pass", "cases": cases}


def _ma_agents(discrete):
    from gymnasium import spaces
    from agilerl.algorithms.maddpg import MADDPG
    from agilerl.algorithms.matd3 import MATD3
    obs_spaces = [spaces.Box(-1, 1, (4,)) for _ in range(2)]
    out = []
    if discrete:
        acts = [[spaces.Discrete(3), spaces.Discrete(3)], [spaces.Discrete(2), spaces.Discrete(4)]]
    else:
        acts = [[spaces.Box(low=np.array([-2, -0.5], dtype=np.float32), high=np.array([2, 0.5], dtype=np.float32))] * 2,
                [spaces.Box(low=np.array([-1, -3, 0], dtype=np.float32) - 0.0, high=np.array([1, 3, 0.25], dtype=np.float32)),
                 spaces.Box(-1, 1, (2,))],
                [spaces.Box(0, 1, (1,)), spaces.Box(low=np.array([-0.1, -5], dtype=np.float32), high=np.array([0.1, 5], dtype=np.float32))]]
    for sp in acts:
        for cls in (MADDPG, MATD3):
            try:
                out.append((cls.__name__, sp, cls(observation_spaces=obs_spaces, action_spaces=sp, agent_ids=["a_0", "b_0"], expl_noise=5.0, O_U_noise=False)))
            except AssertionError:
                continue          # the constructor rejects bounds whose first component is not (<= 0, > 0)
    return out


def ma_box(payload):
    """MADDPG / MATD3 with per-dimension Box bounds: every returned action must lie inside its own space, with and without
    exploration noise (large noise so that the clamp decides)."""
    cases = 0
    torch.manual_seed(payload.get("seed", 0))
    obs = {"a_0": np.zeros((3, 4), dtype=np.float32), "b_0": np.ones((3, 4), dtype=np.float32)}
    for name, sp, agent in _ma_agents(False):
        for training in (True, False):
            for _ in range(6):
                act, _d = agent.get_action(obs, training=training)
                cases += 1
                for k, (aid, a) in enumerate(act.items()):
                    a = np.asarray(a)
                    if a.shape != (3,) + sp[k].shape:
                        return {"status": "fail", "cases": cases, "detail": f"{name}: action batch shape {a.shape} for 3 observations of {sp[k]}"}
                    for row in a:
                        if not (np.all(row >= sp[k].low - 1e-6) and np.all(row <= sp[k].high + 1e-6)):
                            return {"status": "fail", "cases": cases, "witness_key": "ma-box-first-dim",
                                    "detail": f"{name}.get_action(training={training}) agent {aid}: action {row.tolist()} outside low={sp[k].low.tolist()} high={sp[k].high.tolist()}",
                                    "input": {"low": sp[k].low.tolist(), "high": sp[k].high.tolist(), "training": training}}
    return {"status": "pass", "cases": cases}


def ma_discrete(payload):
    """MADDPG / MATD3 with Discrete actions: returned indices are in range and never masked, for every mask with a legal action."""
    cases = 0
    torch.manual_seed(payload.get("seed", 0))
    obs = {"a_0": np.zeros((2, 4), dtype=np.float32), "b_0": np.ones((2, 4), dtype=np.float32)}
    for name, sp, agent in _ma_agents(True):
        ns = [s.n for s in sp]
        for m0 in itertools.product([0, 1], repeat=ns[0]):
            for m1 in itertools.product([0, 1], repeat=ns[1]):
                if not any(m0) or not any(m1):
                    continue
                infos = {"a_0": {"action_mask": np.array([m0, m0])}, "b_0": {"action_mask": np.array([m1, m1])}}
                for training in (True, False):
                    _c, disc = agent.get_action(obs, training=training, infos=infos)
                    cases += 1
                    for aid, mask, n in (("a_0", m0, ns[0]), ("b_0", m1, ns[1])):
                        d = np.asarray(disc[aid]).reshape(-1)
                        if d.shape[0] != 2:
                            return {"status": "fail", "cases": cases, "detail": f"{name}: {d.shape[0]} actions for 2 observations"}
                        for x in d:
                            if not (0 <= int(x) < n) or mask[int(x)] == 0:
                                return {"status": "fail", "cases": cases, "detail": f"{name} agent {aid}: mask {mask}, training={training}: returned masked action {int(x)}",
                                        "input": {"mask": list(mask), "training": training}}
    return {"status": "pass", "cases": cases}


def bandit(payload):
    """NeuralUCB / NeuralTS: the returned arm is in range and never masked, for every mask with a legal arm."""
    from gymnasium import spaces
    from agilerl.algorithms.neural_ts_bandit import NeuralTS
    from agilerl.algorithms.neural_ucb_bandit import NeuralUCB
    cases = 0
    torch.manual_seed(payload.get("seed", 0))
    for cls in (NeuralUCB, NeuralTS):
        for n in (2, 3, 4):
            agent = cls(spaces.Box(-1, 1, (3 * n,)), spaces.Discrete(n))
            obs = np.random.RandomState(1).randn(n, 3 * n).astype(np.float32)
            for mask in [None] + [m for m in itertools.product([0, 1], repeat=n) if any(m)]:
                a = agent.get_action(obs, action_mask=None if mask is None else np.array(mask))
                cases += 1
                if not (0 <= int(a) < n) or (mask is not None and mask[int(a)] == 0):
                    return {"status": "fail", "cases": cases, "detail": f"{cls.__name__}: arms={n} mask={mask}: returned arm {int(a)}", "input": {"mask": mask, "arms": n}}
    return {"status": "pass", "cases": cases}


def pg_eval(payload):
    """Evaluation-mode policy-gradient agents on Box spaces: PPO (net_config, squash on/off) and IPPO (custom squashing actor /
    default). The returned action has the batch shape of the observation and lies inside the bounds."""
    from gymnasium import spaces
    from agilerl.algorithms.ippo import IPPO
    from agilerl.algorithms.ppo import PPO
    from agilerl.networks.actors import StochasticActor
    from agilerl.networks.value_networks import ValueNetwork
    cases = 0
    torch.manual_seed(payload.get("seed", 0))
    obs_space = spaces.Box(-1, 1, (4,))
    boxes = [spaces.Box(low=np.array([-2, -0.5], dtype=np.float32), high=np.array([2, 0.5], dtype=np.float32)),
             spaces.Box(low=np.array([0.0, -3, 1], dtype=np.float32), high=np.array([1, -1, 1.5], dtype=np.float32)), spaces.Box(-1, 1, (2,))]
    obs = (np.random.RandomState(0).randn(6, 4) * 3).astype(np.float32)
    only = payload.get("only")

    def check(name, a, box):
        a = np.asarray(a)
        if a.shape != (6,) + box.shape:
            return f"{name}: action batch shape {a.shape} for 6 observations of {box}"
        for row in a:
            if not (np.all(row >= box.low - 1e-5) and np.all(row <= box.high + 1e-5)):
                return f"{name}: evaluation-mode action {row.tolist()} outside low={box.low.tolist()} high={box.high.tolist()}"
        return None
    for box in boxes:
        for squash in (False, True):
            if only in (None, "ppo"):
                net = {"encoder_config": {"hidden_size": [16]}, "head_config": {"hidden_size": [16]}, "squash_output": squash}
                p = PPO(obs_space, box, net_config=net, share_encoders=False)
                with torch.no_grad():
                    for q in p.actor.parameters():
                        q.mul_(8)                                  # saturate some outputs
                p.training = False
                cases += 1
                try:
                    a = p.get_action(obs)[0]
                except TypeError as e:
                    return {"status": "fail", "cases": cases, "witness_key": "pg-eval-squash-typeerror",
                            "detail": f"PPO(squash_output={squash}).get_action in evaluation mode raised TypeError: {e}", "input": {"squash": squash}}
                bad = check(f"PPO(squash_output={squash})", a, box)
                if bad:
                    return {"status": "fail", "cases": cases, "detail": bad, "input": {"squash": squash, "low": box.low.tolist(), "high": box.high.tolist()}}
            # IPPO has no squashing configuration: its net_config rejects squash_output and get_action cannot handle entropy=None
            if only in (None, "ippo") and not squash:
                kw = {}
                ag = IPPO(observation_spaces=[obs_space, obs_space], action_spaces=[box, box], agent_ids=["a_0", "a_1"], **kw)
                with torch.no_grad():
                    for q in ag.actors[0].parameters():
                        q.mul_(8)
                ag.training = False
                cases += 1
                try:
                    act = ag.get_action({"a_0": obs, "a_1": obs})[0]
                except TypeError as e:
                    return {"status": "fail", "cases": cases, "witness_key": "ippo-eval-squash",
                            "detail": f"IPPO(squashing actor={squash}).get_action in evaluation mode raised TypeError: {e}", "input": {"squash": squash}}
                for aid, a in act.items():
                    bad = check(f"IPPO(squashing actor={squash}) agent {aid}", a, box)
                    if bad:
                        return {"status": "fail", "cases": cases, "witness_key": "ippo-eval-squash" if squash else None, "detail": bad,
                                "input": {"squash": squash, "low": box.low.tolist(), "high": box.high.tolist()}}
    return {"status": "pass", "cases": cases}
