"""Native contract checks for C14: masked discrete selection (DQN, CQN) for extreme draws; Box bounds (DDPG, TD3)."""
import itertools
import random

import numpy as np
import torch


def dqn(payload):
    from gymnasium import spaces
    from agilerl.algorithms.cqn import CQN
    from agilerl.algorithms.dqn import DQN
    cases = 0
    obs_space = spaces.Box(-1, 1, (3,))
    for n in (2, 3, 4):
        a = DQN(obs_space, spaces.Discrete(n))
        c = CQN(obs_space, spaces.Discrete(n))
        obs = np.random.RandomState(0).randn(2, 3).astype(np.float32)
        for mask in itertools.product([0, 1], repeat=n):
            if not any(mask):
                continue
            m = np.array([mask, mask])
            for eps in (0.0, 1.0):
                for draw in (0.0, 0.5, 1.0 - 2 ** -24):
                    o_rl, o_un = torch.rand_like, np.random.uniform
                    torch.rand_like = lambda x, *a_, **k_: torch.full_like(x, draw)
                    np.random.uniform = lambda lo=0, hi=1, size=None: np.full(size, draw)
                    try:
                        acts = [("DQN", a.get_action(obs, epsilon=eps, action_mask=m)), ("CQN", c.get_action(obs, epsilon=eps, action_mask=m))]
                    finally:
                        torch.rand_like, np.random.uniform = o_rl, o_un
                    cases += 1
                    for name, act in acts:
                        act = np.asarray(act).reshape(-1)
                        if act.shape[0] != 2:
                            return {"status": "fail", "cases": cases, "detail": f"{name}: action batch shape {act.shape} for 2 observations"}
                        for b in range(2):
                            if not (0 <= act[b] < n) or mask[int(act[b])] == 0:
                                return {"status": "fail", "cases": cases,
                                        "detail": f"{name}: mask {mask}, epsilon={eps}, uniform draw {draw}: returned masked action {int(act[b])}",
                                        "input": dict(mask=mask, epsilon=eps, draw=draw, algo=name)}
                        if eps == 0.0 and draw > 0:
                            with torch.no_grad():
                                net = a.actor if name == "DQN" else c.actor
                                q = net(torch.as_tensor(obs)).numpy()
                            for b in range(2):
                                best = max(q[b][k] for k in range(n) if mask[k])
                                if q[b][int(act[b])] < best - 1e-6:
                                    return {"status": "fail", "cases": cases, "detail": f"{name}: greedy choice {int(act[b])} is not the best legal action (mask {mask})"}
    return {"status": "pass", "cases": cases}


def box(payload):
    from gymnasium import spaces
    from agilerl.algorithms.ddpg import DDPG
    from agilerl.algorithms.td3 import TD3
    torch.manual_seed(0)
    cases = 0
    obs_space = spaces.Box(-1, 1, (3,))
    boxes = [spaces.Box(-1, 1, (2,)), spaces.Box(np.array([-1.1540825, 0.0], dtype=np.float32), np.array([1.9899813, 2.0], dtype=np.float32)),
             spaces.Box(np.array([0.0, -3.0], dtype=np.float32), np.array([2.0, -1.0], dtype=np.float32))]
    for cls in (DDPG, TD3):
        for bx in boxes:
            for act_fn in ("Tanh", "Identity"):
                agent = cls(obs_space, bx, share_encoders=False,
                            net_config={"head_config": {"hidden_size": [16], "output_activation": act_fn}, "encoder_config": {"hidden_size": [16]}})
                for scale in (1.0, 50.0):
                    obs = (np.random.RandomState(1).randn(6, 3) * scale).astype(np.float32)
                    for training in (False, True):
                        a = np.asarray(agent.get_action(obs, training=training))
                        cases += 1
                        if a.shape[0] != 6:
                            return {"status": "fail", "cases": cases, "detail": f"{cls.__name__}: batch shape {a.shape}"}
                        if (a < bx.low - 0).any() or (a > bx.high + 0).any():
                            i = np.argwhere((a < bx.low) | (a > bx.high))[0]
                            return {"status": "fail", "cases": cases,
                                    "detail": f"{cls.__name__} head={act_fn} training={training}: action[{i[0]},{i[1]}]={a[i[0], i[1]]} outside [{bx.low[i[1]]}, {bx.high[i[1]]}]",
                                    "input": dict(algo=cls.__name__, head=act_fn, training=training)}
    return {"status": "pass", "cases": cases}
