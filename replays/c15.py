"""Native contract checks for observation handling (C15)."""
import itertools

import numpy as np
import torch
from gymnasium import spaces

from agilerl.utils.algo_utils import get_vect_dim, maybe_add_batch_dim, preprocess_observation


def shapes(payload):
    cases = 0
    for r in range(0, 4):
        sp = (3, 4, 5)[:r]
        for lead, want in (((), (1,)), ((2,), (2,)), ((1,), (1,)), ((2, 3), (6,))):
            for mk in (np.zeros, torch.zeros):
                out = maybe_add_batch_dim(mk(lead + sp), sp)
                cases += 1
                if tuple(out.shape) != want + sp:
                    return {"status": "fail", "cases": cases, "detail": f"maybe_add_batch_dim: input {lead + sp} for space shape {sp} gave {tuple(out.shape)}, expected {want + sp}"}
    for space, sp in ((spaces.Box(0, 1, ()), ()), (spaces.Box(0, 1, (3,)), (3,)), (spaces.Box(0, 1, (3, 4, 5)), (3, 4, 5)), (spaces.MultiBinary(4), (4,)),
                      (spaces.MultiDiscrete([2, 3]), (2,)), (spaces.Discrete(3), ())):
        for lead, want in (((), 1), ((5,), 5)):
            cases += 1
            try:
                got = get_vect_dim(np.zeros(lead + sp), space)
            except TimeoutError:
                raise
            except Exception as e:
                return {"status": "fail", "cases": cases, "detail": f"get_vect_dim raised {type(e).__name__} for {space} and input shape {lead + sp}"}
            if got != want:
                return {"status": "fail", "cases": cases, "detail": f"get_vect_dim({lead + sp}, {space}) = {got}, expected {want}"}
    return {"status": "pass", "cases": cases}


def _expected(space, x):
    """reference for ONE unbatched observation x -> 1-D/ND float array of the network input shape"""
    if isinstance(space, spaces.Box):
        x = np.asarray(x, dtype=np.float32)
        if len(space.shape) == 3 and not (np.all(space.high == 1) and np.all(space.low == 0)) and np.isfinite(space.high).all() and np.isfinite(space.low).all():
            return (x - space.low) / (space.high - space.low)
        if x.ndim == 0:
            return x.reshape(1)          # a scalar Box is one feature: the network's input shape is (1,)
        return x
    if isinstance(space, spaces.Discrete):
        return np.eye(int(space.n), dtype=np.float32)[int(x)]
    if isinstance(space, spaces.MultiDiscrete):
        return np.concatenate([np.eye(int(n), dtype=np.float32)[int(v)] for n, v in zip(space.nvec, x)])
    if isinstance(space, spaces.MultiBinary):
        return np.asarray(x, dtype=np.float32)
    raise TypeError(space)


def values(payload):
    rng = np.random.RandomState(payload.get("seed", 0))
    cases = 0
    lo = np.zeros((2, 3, 3), dtype=np.float32); lo[1] = 16.0
    hi = np.full((2, 3, 3), 255.0, dtype=np.float32); hi[1] = 20.0      # per-channel bounds (e.g. intensity + depth)
    leaf = [spaces.Box(-1, 1, ()), spaces.Box(-2, 3, (3,)), spaces.Box(0, 255, (2, 4, 4), dtype=np.uint8), spaces.Box(0, 1, (2, 3, 3)),
            spaces.Box(lo, hi, dtype=np.float32),
            spaces.Discrete(1), spaces.Discrete(2), spaces.Discrete(4), spaces.MultiDiscrete([2, 3]), spaces.MultiBinary(3)]
    for sp in leaf:
        sp.seed(0)
        known = []
        for form in ("unbatched", "batched", "batch-of-one", "step-env"):
            for conv in (np.asarray, torch.as_tensor):
                if form == "unbatched":
                    xs = [sp.sample()]; arr = np.asarray(xs[0]); B = 1
                elif form == "batch-of-one":
                    xs = [sp.sample()]; arr = np.stack([np.asarray(x) for x in xs]); B = 1
                elif form == "batched":
                    xs = [sp.sample() for _ in range(3)]; arr = np.stack([np.asarray(x) for x in xs]); B = 3
                else:
                    xs = [sp.sample() for _ in range(6)]; arr = np.stack([np.asarray(x) for x in xs]).reshape((2, 3) + np.asarray(xs[0]).shape); B = 6
                cases += 1
                key = f"{sp} input={form} as {conv.__name__}"
                try:
                    out = preprocess_observation(conv(arr), sp, "cpu", True)
                except TimeoutError:
                    raise
                except Exception as e:
                    return {"status": "fail", "cases": cases, "witness_key": f"{type(sp).__name__}:{form}:raises",
                            "detail": f"preprocess_observation raised {type(e).__name__}: {str(e)[:120]} for {key}"}
                want = np.stack([_expected(sp, x) for x in xs]).astype(np.float32)
                got = out.detach().numpy()
                if got.shape != want.shape or not np.allclose(got, want, atol=1e-6):
                    return {"status": "fail", "cases": cases, "witness_key": f"{type(sp).__name__}:{form}:value",
                            "detail": f"{key}: result shape {got.shape} / values differ from preparing each observation on its own (expected shape {want.shape})"}
    return {"status": "pass", "cases": cases}
