"""Native (bounded) check for C16: reported log-probability / entropy vs. the distribution defined by the network outputs."""
import numpy as np
import torch
from gymnasium import spaces


def _ref(space, logits, action, mask, log_std):
    """reference log-prob / entropy of one row from raw network outputs"""
    if isinstance(space, spaces.Discrete):
        lg = logits.clone()
        if mask is not None:
            lg[~mask] = -1e8
        d = torch.distributions.Categorical(logits=lg)
        return d.log_prob(action.long()), d.entropy()
    if isinstance(space, spaces.MultiDiscrete):
        lp, en, off = 0.0, 0.0, 0
        for i, n in enumerate(space.nvec):
            lg = logits[off:off + n].clone()
            if mask is not None:
                lg[~mask[off:off + n]] = -1e8
            d = torch.distributions.Categorical(logits=lg)
            lp, en, off = lp + d.log_prob(action[i].long()), en + d.entropy(), off + n
        return lp, en
    if isinstance(space, spaces.MultiBinary):
        lg = logits.clone()
        if mask is not None:
            lg[~mask] = -1e8
        d = torch.distributions.Bernoulli(logits=lg)
        return d.log_prob(action.float()).sum(), d.entropy().sum()
    d = torch.distributions.Normal(logits, log_std.exp())
    return d.log_prob(action).sum(), d.entropy().sum()


def logprob(payload):
    from agilerl.networks.actors import StochasticActor
    torch.manual_seed(payload.get("seed", 0))
    cases = 0
    obs = spaces.Box(-1, 1, (5,))
    for space in (spaces.Discrete(4), spaces.MultiDiscrete([2, 3]), spaces.MultiBinary(4), spaces.MultiBinary(1), spaces.Box(-1, 1, (3,)), spaces.Box(-2, 2, (1,))):
        actor = StochasticActor(obs, space)
        x = torch.randn(6, 5)
        masks = [None]
        if not isinstance(space, spaces.Box):
            n = int(space.n) if isinstance(space, (spaces.Discrete, spaces.MultiBinary)) else int(sum(space.nvec))
            m = torch.rand(6, n) > 0.4
            if isinstance(space, spaces.Discrete):
                m[:, 0] = True
            elif isinstance(space, spaces.MultiDiscrete):
                m[:, 0] = True; m[:, 2] = True
            else:
                m[1] = False            # MultiBinary: "no bit may be switched on" is a valid mask
            masks.append(m)
        for mask in masks:
            with torch.no_grad():
                action, logp, ent = actor(x, action_mask=mask) if mask is not None else actor(x)
                latent = actor.extract_features(x) if hasattr(actor, "extract_features") else actor.encoder(x)
                logits = actor.head_net.wrapped(latent) if hasattr(actor.head_net, "wrapped") else actor.head_net.net(latent)
                log_std = getattr(actor.head_net, "log_std", None)
            cases += 1
            for b in range(6):
                a = action[b]
                mb = mask[b] if mask is not None else None
                if mask is not None:
                    if isinstance(space, spaces.Discrete) and not mb[int(a)]:
                        return {"status": "fail", "cases": cases, "detail": f"{space}: masked action {int(a)} returned (mask {mb.tolist()})"}
                    if isinstance(space, spaces.MultiBinary) and bool(((a > 0.5) & ~mb).any()):
                        return {"status": "fail", "cases": cases, "witness_key": "multibinary-mask",
                                "detail": f"{space}: row {b} returned action {a.tolist()} which uses a masked component (mask {mb.int().tolist()})"}
                want_lp, want_en = _ref(space, logits[b], a, mb, log_std)
                if abs(float(logp[b]) - float(want_lp)) > 1e-3 * max(1, abs(float(want_lp))):
                    return {"status": "fail", "cases": cases, "detail": f"{space} mask={None if mb is None else mb.int().tolist()}: reported log-prob {float(logp[b]):.5f}, "
                                                                           f"distribution of the network outputs gives {float(want_lp):.5f}"}
                if ent is not None and ent.dim() > 0 and abs(float(ent[b]) - float(want_en)) > 1e-3 * max(1, abs(float(want_en))):
                    return {"status": "fail", "cases": cases, "detail": f"{space}: reported entropy {float(ent[b]):.5f}, expected {float(want_en):.5f}"}
            # re-evaluating a stored action under the current policy
            with torch.no_grad():
                actor(torch.randn(6, 5))                    # another forward in between (fresh samples are drawn)
                actor(x, action_mask=mask) if mask is not None else actor(x)
                re = actor.action_log_prob(action)
            if not torch.allclose(re, logp, atol=1e-4):
                return {"status": "fail", "cases": cases, "detail": f"{space}: re-evaluated log-prob of the stored actions differs from the one reported at sampling time"}
    return {"status": "pass", "cases": cases}


def squash(payload):
    """squashed Box policy: re-evaluating a STORED action must use atanh(action), not the latest sample"""
    from agilerl.networks.actors import StochasticActor
    torch.manual_seed(0)
    actor = StochasticActor(spaces.Box(-1, 1, (5,)), spaces.Box(-1, 1, (2,)), squash_output=True)
    x = torch.randn(4, 5)
    with torch.no_grad():
        a, lp, _ = actor(x)
        actor(x)                   # PPO.evaluate_actions does a fresh forward before asking for the log-prob of the stored actions
        re = actor.action_log_prob(a)
    if not torch.allclose(re, lp, atol=1e-4):
        return {"status": "fail", "cases": 1, "witness_key": "squash-reevaluation",
                "detail": f"squash_output=True: log-prob of stored actions at sampling time {lp.tolist()} vs re-evaluation {re.tolist()} (the latest sample is evaluated instead of atanh(action))"}
    return {"status": "pass", "cases": 1}
