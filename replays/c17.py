"""Native contract check for PPO.learn (C17): advantages/returns handed to the minibatch update vs. the GAE recursion,
and row alignment (each estimate applied to the observation/action it was computed for)."""
import itertools
import random

import numpy as np
import torch


def _ref_gae(r, v, d, nd, nv, g, lam):
    T, E = r.shape
    adv = np.zeros((T, E))
    last = np.zeros(E)
    for t in reversed(range(T)):
        nnt = 1.0 - (nd if t == T - 1 else d[t + 1])
        nxt = nv if t == T - 1 else v[t + 1]
        delta = r[t] + g * nxt * nnt - v[t]
        adv[t] = last = delta + g * lam * nnt * last
    return adv


def ppo_gae(payload):
    from gymnasium import spaces
    import agilerl.algorithms.ppo as ppo_mod
    from agilerl.algorithms.ppo import PPO
    rnd = random.Random(payload.get("seed", 0))
    np.random.seed(0)
    torch.manual_seed(0)
    obs_space, act_space = spaces.Box(-10000, 10000, (3,)), spaces.Discrete(3)
    agent = PPO(obs_space, act_space, share_encoders=False, batch_size=64, update_epochs=1, lr=1e-9,
                net_config={"encoder_config": {"hidden_size": [8]}, "head_config": {"hidden_size": [8]}})
    captured = []
    orig = ppo_mod.get_experiences_samples

    def spy(idx, *exps):
        out = orig(idx, *exps)
        captured.append([o.detach().clone() if torch.is_tensor(o) else o for o in out])
        return out
    ppo_mod.get_experiences_samples = spy
    cases = 0
    try:
        scen = []
        for T, E in ((1, 1), (2, 1), (3, 2), (5, 2)):
            # every placement of one or two episode ends incl. first step, last step and final next_done
            places = list(itertools.product(range(T + 1), range(E)))
            for pl in [()] + [(p,) for p in places] + [tuple(rnd.sample(places, 2)) for _ in range(3) if len(places) >= 2]:
                scen.append((T, E, pl))
        for T, E, pl in scen:
            d = np.zeros((T, E)); nd = np.zeros(E)
            for (t, e) in pl:
                if t == T:
                    nd[e] = 1
                else:
                    d[t, e] = 1
            r = np.array([[rnd.randint(-3, 3) for _ in range(E)] for _ in range(T)], dtype=np.float64)
            v = np.array([[rnd.randint(-3, 3) for _ in range(E)] for _ in range(T)], dtype=np.float64)
            g, lam = rnd.choice([0.5, 0.9, 1.0]), rnd.choice([0.0, 0.5, 0.95, 1.0])
            agent.gamma, agent.gae_lambda = g, lam
            states = np.array([[[(10 * t + e + 1) / 100.0, 0, 0] for e in range(E)] for t in range(T)], dtype=np.float32)
            actions = np.array([[(t + e) % 3 for e in range(E)] for t in range(T)])
            logp = np.array([[-(10 * t + e + 1) / 100.0 for e in range(E)] for t in range(T)], dtype=np.float32)
            next_state = np.array([[0.7, 0.7, 0.7]] * E, dtype=np.float32)
            with torch.no_grad():
                nv = agent.critic(agent.preprocess_observation(next_state)).reshape(-1).numpy().astype(np.float64)
            captured.clear()
            agent.learn(([s for s in states], [a for a in actions], [l for l in logp], [x for x in r.astype(np.float32)],
                         [x for x in d.astype(np.float32)], [x for x in v.astype(np.float32)], next_state, nd.astype(np.float32)))
            cases += 1
            ref = _ref_gae(r, v, d, nd, nv, g, lam)
            seen = 0
            for bs, ba, bl, badv, bret, bval in captured:
                for k in range(bs.shape[0]):
                    code = int(round(float(bs[k][0]) * 100)) - 1
                    t, e = code // 10, code % 10
                    seen += 1
                    exp = ref[t, e]
                    vals = dict(advantage=float(badv.reshape(-1)[k]), ret=float(bret.reshape(-1)[k]), old_value=float(bval.reshape(-1)[k]),
                                old_logp=float(bl.reshape(-1)[k]), action=int(ba.reshape(-1)[k]))
                    want = dict(advantage=exp, ret=exp + v[t, e], old_value=v[t, e], old_logp=logp[t, e], action=actions[t, e])
                    for key in want:
                        if abs(vals[key] - want[key]) > 1e-3 * max(1, abs(want[key])):
                            return {"status": "fail", "cases": cases,
                                    "detail": f"T={T} E={E} episode ends at {pl} gamma={g} lambda={lam}: row for step t={t} env={e} has {key}={vals[key]}, "
                                              f"GAE definition / recorded value gives {want[key]}",
                                    "input": dict(T=T, E=E, ends=pl, gamma=g, lam=lam, rewards=r.tolist(), values=v.tolist())}
            if seen != T * E:
                return {"status": "fail", "cases": cases, "detail": f"{seen} rows reached the update for a {T}x{E} rollout"}
    finally:
        ppo_mod.get_experiences_samples = orig
    return {"status": "pass", "cases": cases}


class _Stop(Exception):
    pass


def ippo_align(payload):
    """Drives the real IPPO._learn_individual (unbound, with a stub self and a stub critic) up to the first minibatch and
    checks that every row handed to the update pairs the observation/action of (agent, t, env) with the log-prob, value,
    advantage and return computed for that same (agent, t, env)."""
    from types import SimpleNamespace
    from gymnasium import spaces
    import agilerl.algorithms.ippo as ippo_mod
    from agilerl.algorithms.ippo import IPPO
    cases = 0
    for (T, A, E) in ((2, 1, 1), (2, 1, 2), (3, 1, 2), (2, 2, 1), (2, 2, 2), (3, 2, 2), (2, 3, 1), (1, 1, 1), (1, 2, 1), (1, 1, 2), (1, 2, 2), (1, 3, 2), (3, 3, 3)):
        agents = [f"agent_{a}" for a in range(A)]
        code = lambda a, t, e: (100 * a + 10 * t + e + 1) / 1000.0
        obs_space, act_space = spaces.Box(-1, 1, (2,)), spaces.Box(-1, 1, (1,))
        states = {ag: np.array([[[code(a, t, e), 0.0] for e in range(E)] for t in range(T)], dtype=np.float32) for a, ag in enumerate(agents)}
        actions = {ag: np.array([[[code(a, t, e)] for e in range(E)] for t in range(T)], dtype=np.float32) for a, ag in enumerate(agents)}
        per = lambda: {ag: np.array([[code(a, t, e) for e in range(E)] for t in range(T)], dtype=np.float32) for a, ag in enumerate(agents)}
        log_probs, values = per(), per()
        rewards = {ag: np.zeros((T, E), dtype=np.float32) for ag in agents}
        dones = {ag: np.ones((T, E), dtype=np.float32) for ag in agents}       # every step terminal => A_t = r_t - V_t = -V_t
        next_state = {ag: np.zeros((E, 2), dtype=np.float32) for ag in agents}
        nd = lambda a, e: 1.0 if (a * E + e) % 3 == 1 else 0.0                   # differs between (agent, env) pairs
        next_done = {ag: np.array([nd(a, e) for e in range(E)], dtype=np.float32) for a, ag in enumerate(agents)}
        fake = SimpleNamespace(gamma=0.9, gae_lambda=0.9, device="cpu", normalize_images=False, update_epochs=1, batch_size=10 ** 6,
                               to_device=lambda *xs: xs)
        got = {}

        def spy(idx, *exps):
            got["rows"] = [x.detach().clone() for x in exps]
            raise _Stop()
        orig = ippo_mod.get_experiences_samples
        ippo_mod.get_experiences_samples = spy
        try:
            try:
                IPPO._learn_individual(fake, (states, actions, log_probs, rewards, dones, values, next_state, next_done), actor=None,
                                       critic=lambda x: torch.ones(*x.shape[:-1], 1), actor_optimizer=None, critic_optimizer=None,
                                       obs_space=obs_space, action_space=act_space)
            except _Stop:
                pass
        finally:
            ippo_mod.get_experiences_samples = orig
        cases += 1
        st, ac, lp, adv, ret, val = got["rows"]
        n = T * A * E
        if not all(x.reshape(n, -1).shape[0] == n for x in (st, ac, lp, adv, ret, val)):
            return {"status": "fail", "cases": cases, "detail": f"T={T} A={A} E={E}: tensors of different length reach the update"}
        for k in range(n):
            c = round(float(st.reshape(n, -1)[k][0]), 6)
            a_, t_, e_ = int(round(c * 1000 - 1)) // 100, (int(round(c * 1000 - 1)) // 10) % 10, int(round(c * 1000 - 1)) % 10
            boot = 0.9 * (1.0 - nd(a_, e_)) if t_ == T - 1 else 0.0                   # every earlier step is followed by done = 1
            row = dict(action=float(ac.reshape(n, -1)[k][0]), old_logp=float(lp.reshape(-1)[k]), old_value=float(val.reshape(-1)[k]),
                       advantage=boot - float(adv.reshape(-1)[k]), ret=boot - float(ret.reshape(-1)[k]) + float(val.reshape(-1)[k]))
            bad = [key for key, v in row.items() if abs(v - c) > 1e-5]
            if bad and set(bad) <= {"advantage", "ret"}:
                return {"status": "fail", "cases": cases, "witness_key": "ippo-bootstrap-column",
                        "detail": f"T={T} agents={A} envs={E}: row {k} (agent {a_}, step {t_}, env {e_}) has the right log-prob and value but its advantage/return "
                                  f"was not computed from that agent's and env's own next_done / rollout column ({bad}: {[round(row[b], 6) for b in bad]} instead of {c})",
                        "input": dict(T=T, A=A, E=E, row=k)}
            if bad:
                return {"status": "fail", "cases": cases, "witness_key": "ippo-row-order",
                        "detail": f"T={T} agents={A} envs={E}: row {k} pairs the observation of (agent,t,env) code {c} with the {bad[0]} of code {round(row[bad[0]], 6)} "
                                  f"(states/actions are ordered agent-major, log-probs/values/advantages time-major)",
                        "input": dict(T=T, A=A, E=E, row=k)}
    return {"status": "pass", "cases": cases}
