"""Native contract check for RainbowDQN._dqn_loss (C18): the real function is driven with stub networks so that the
returned per-sample loss exposes the mass / the mean of the projected target distribution."""
import random

import numpy as np
import torch


class _Stub:
    """Online/target network stub: fixed distributions."""

    def __init__(self, dist, logp):
        self.dist, self.logp = dist, logp

    def train(self, *a):
        return self

    def eval(self):
        return self

    def __call__(self, x, q=True, log=False):
        B = x.shape[0]
        if q:           # q-values: greedy next action = 0
            return torch.zeros(B, self.dist.shape[1]) + torch.tensor([1.0] + [0.0] * (self.dist.shape[1] - 1))
        if log:
            return self.logp.unsqueeze(0).expand(B, -1, -1).clone()
        return self.dist.unsqueeze(0).expand(B, -1, -1).clone()


def projection(payload):
    from gymnasium import spaces
    from agilerl.algorithms.dqn_rainbow import RainbowDQN
    rnd = random.Random(payload.get("seed", 0))
    cases = 0
    obs, act = spaces.Box(-1, 1, (2,)), spaces.Discrete(2)
    configs = ((2, 0.0, 1.0), (3, -1.0, 1.0), (5, -2.0, 2.0), (21, -10.0, 10.0), (51, 0.0, 200.0))
    forced = None
    if payload.get("mode") == "replay":          # the verifier's counterexample: same support, reward, done flag, discount
        configs = ((payload["N"], payload["vmin"], payload["vmax"]),)
        forced = payload
    for (N, vmin, vmax) in configs:
        agent = RainbowDQN(obs, act, num_atoms=N, v_min=vmin, v_max=vmax, batch_size=8,
                           net_config={"encoder_config": {"hidden_size": [64]}, "head_config": {"hidden_size": [64]}})
        dz = (vmax - vmin) / (N - 1)
        support = np.array([vmin + k * dz for k in range(N)])
        for trial in range(6):
            p = np.array([rnd.random() + 0.01 for _ in range(N)])
            p = p / p.sum()
            dist = torch.tensor(np.stack([p, p]), dtype=torch.float32)            # (actions, atoms)
            gamma = rnd.choice([0.0, 0.5, 1.0, 0.99]) if forced is None else forced["gamma"]
            # rewards inside, outside and exactly on atoms of the support; both done flags
            rewards = [vmin - 1, vmax + 1, vmin, vmax, support[N // 2], support[min(1, N - 1)], rnd.uniform(vmin, vmax), rnd.uniform(vmin, vmax)]
            dones = [rnd.choice([0.0, 1.0]) for _ in range(4)] + [1.0, 1.0, 0.0, 1.0]
            if forced is not None:
                rewards[0], dones[0] = forced["reward"], forced["done"]
            for mode in ("mass", "mean"):
                logp = -torch.ones(2, N) if mode == "mass" else -torch.tensor(np.stack([support, support]), dtype=torch.float32)
                object.__setattr__(agent, "actor", _Stub(dist, logp))
                object.__setattr__(agent, "actor_target", _Stub(dist, logp))
                states = torch.zeros(8, 2)
                loss = agent._dqn_loss(states, torch.zeros(8, 1), torch.tensor(rewards, dtype=torch.float32).reshape(8, 1), states,
                                       torch.tensor(dones, dtype=torch.float32).reshape(8, 1), gamma)
                cases += 1
                for i in range(8):
                    tz = np.clip(rewards[i] + (1 - dones[i]) * gamma * support, vmin, vmax)
                    want = float(p.sum()) if mode == "mass" else float((p * tz).sum())
                    got = float(loss[i])
                    if abs(got - want) > 2e-4 * max(1.0, abs(want)):
                        return {"status": "fail", "cases": cases,
                                "detail": f"atoms={N} support=[{vmin},{vmax}] reward={rewards[i]} done={dones[i]} gamma={gamma}: projected {mode} = {got}, "
                                          f"source {mode} of reward + gamma(1-done)z clipped = {want}",
                                "input": dict(N=N, vmin=vmin, vmax=vmax, reward=rewards[i], done=dones[i], gamma=gamma)}
    return {"status": "pass", "cases": cases}
