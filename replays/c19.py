"""Native (bounded) check for C19: sigma_inv @ (lambda*I + sum g g^T) == I along real decision sequences."""
import numpy as np
import torch


def _features(agent, obs):
    """reference gradient features via autograd.grad (does not touch .grad)"""
    x = agent.preprocess_observation(obs)
    mu = agent.actor(x)
    params = [w for w in agent.exp_layer.parameters() if w.requires_grad]
    out = []
    for fx in mu:
        gs = torch.autograd.grad(fx, params, retain_graph=True)
        out.append(torch.cat([g.detach().flatten() / np.sqrt(agent.exp_layer.weight.size(0)) for g in gs]))
    return torch.stack(out)


def gram(payload):
    from gymnasium import spaces
    from tensordict import TensorDict
    from agilerl.algorithms.neural_ts_bandit import NeuralTS
    from agilerl.algorithms.neural_ucb_bandit import NeuralUCB
    cases = 0
    for cls in (NeuralUCB, NeuralTS):
        for lamb in (1.0, 0.5, 2.0):
            torch.manual_seed(0)
            np.random.seed(0)
            arms, dim = 3, 4
            agent = cls(spaces.Box(-1, 1, (dim,)), spaces.Discrete(arms), lamb=lamb, gamma=1.0)
            Z = lamb * torch.eye(agent.numel, dtype=torch.float64)
            for step in range(30):
                if step == 12:
                    agent = agent.clone()           # a faithful copy carries the matrix (and its Gram history) along
                obs = np.random.randn(arms, dim).astype(np.float32)
                mask = np.array([1, 0, 1]) if step % 3 == 0 else None
                feats = _features(agent, obs).double()
                a = int(agent.get_action(obs, action_mask=mask))
                cases += 1
                if mask is not None and mask[a] == 0:
                    return {"status": "fail", "cases": cases, "detail": f"{cls.__name__}: masked arm {a} chosen"}
                Z = Z + torch.outer(feats[a], feats[a])
                S = agent.sigma_inv.double()
                if S.shape != Z.shape:
                    return {"status": "fail", "cases": cases, "detail": f"{cls.__name__}: sigma_inv has shape {tuple(S.shape)}, output layer has {Z.shape[0]} parameters"}
                err = float((S @ Z - torch.eye(Z.shape[0], dtype=torch.float64)).abs().max())
                if err > 1e-3:
                    return {"status": "fail", "cases": cases,
                            "detail": f"{cls.__name__} lambda={lamb} step {step} (arm {a}): max|sigma_inv @ (lambda I + sum g g^T) - I| = {err:.3e}",
                            "input": dict(algo=cls.__name__, lamb=lamb, step=step, arm=a)}
                if float(torch.linalg.eigvalsh((S + S.T) / 2).min()) <= 0 or float((S - S.T).abs().max()) > 1e-4:
                    return {"status": "fail", "cases": cases, "detail": f"{cls.__name__}: sigma_inv is not symmetric positive definite at step {step}"}
                exp = TensorDict({"obs": torch.as_tensor(obs[a:a + 1]), "reward": torch.randn(1, 1)}, batch_size=[1])
                agent.learn(exp)
    return {"status": "pass", "cases": cases}
