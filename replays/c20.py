"""Native (bounded) check for C20: step counters of train_off_policy / train_on_policy vs. environment steps really taken."""
import gymnasium as gym
import numpy as np
import torch


class Counting(gym.vector.SyncVectorEnv):
    def __init__(self, n):
        super().__init__([lambda: gym.make("CartPole-v1") for _ in range(n)])
        self.train_steps = 0
        self.counting = True

    def step(self, actions):
        if self.counting:
            self.train_steps += self.num_envs
        return super().step(actions)


def counters(payload):
    from agilerl.algorithms.dqn import DQN
    from agilerl.algorithms.ppo import PPO
    from agilerl.components.replay_buffer import ReplayBuffer
    from agilerl.training.train_off_policy import train_off_policy
    from agilerl.training.train_on_policy import train_on_policy
    cases = 0
    for kind in ("off", "on"):
        for (n, evo, mx) in ((1, 40, 100), (4, 40, 100), (3, 50, 100), (8, 30, 60)):
            torch.manual_seed(0)
            env = Counting(n)
            obs_space, act_space = env.single_observation_space, env.single_action_space
            if kind == "off":
                pop = [DQN(obs_space, act_space, index=i, batch_size=8, learn_step=2) for i in range(2)]
            else:
                pop = [PPO(obs_space, act_space, index=i, batch_size=8, learn_step=16, share_encoders=False) for i in range(2)]
            per_agent = [0, 0]
            # count the training-time env steps of each agent: evaluation (agent.test) must not be counted
            for i, a in enumerate(pop):
                orig_get, orig_test = a.get_action, a.test

                def get_action(*args, _i=i, _o=orig_get, **kw):
                    env.current = _i
                    return _o(*args, **kw)

                def test(*args, _o=orig_test, **kw):
                    env.counting = False
                    try:
                        return _o(*args, **kw)
                    finally:
                        env.counting = True
                a.get_action, a.test = get_action, test
            orig_step = env.step

            def step(actions):
                before = env.train_steps
                r = orig_step(actions)
                per_agent[getattr(env, "current", 0)] += env.train_steps - before
                return r
            env.step = step
            if kind == "off":
                out, _ = train_off_policy(env, "CartPole-v1", "DQN", pop, ReplayBuffer(1000), max_steps=mx, evo_steps=evo, eval_steps=5,
                                          eval_loop=1, verbose=False)
            else:
                out, _ = train_on_policy(env, "CartPole-v1", "PPO", pop, max_steps=mx, evo_steps=evo, eval_steps=5, eval_loop=1, verbose=False)
            cases += 1
            if len(out) != 2 or len({a.index for a in out}) != 2:
                return {"status": "fail", "cases": cases, "detail": f"{kind}: returned population size/indices wrong"}
            for i, a in enumerate(out):
                if a.steps[-1] != per_agent[i]:
                    return {"status": "fail", "cases": cases, "witness_key": "step-counter",
                            "detail": f"train_{kind}_policy num_envs={n} evo_steps={evo} max_steps={mx}: agent {i} step counter says {a.steps[-1]} "
                                      f"but it took {per_agent[i]} environment steps",
                            "input": dict(kind=kind, num_envs=n, evo_steps=evo, max_steps=mx)}
                gens = len(a.steps) - 1
                if len(a.fitness) != gens:
                    return {"status": "fail", "cases": cases, "detail": f"{kind}: {len(a.fitness)} fitness entries for {gens} generations"}
                if a.steps[-1] < mx or (gens > 1 and a.steps[-3] >= mx):
                    return {"status": "fail", "cases": cases, "detail": f"{kind}: training did not stop in the first generation meeting the budget: steps history {a.steps}, max_steps {mx}"}
            env.close()
    return {"status": "pass", "cases": cases}


def bandits(payload):
    """train_bandits end to end with the library's own BanditEnv: runs to completion, what is stored is the chosen arm's context."""
    import warnings
    import numpy as np
    import pandas as pd
    from gymnasium import spaces
    from agilerl.algorithms.neural_ts_bandit import NeuralTS
    from agilerl.algorithms.neural_ucb_bandit import NeuralUCB
    from agilerl.components.replay_buffer import ReplayBuffer
    from agilerl.training.train_bandits import train_bandits
    from agilerl.wrappers.learning import BanditEnv
    warnings.simplefilter("ignore")
    cases = 0
    for cls in (NeuralUCB, NeuralTS):
        rng = np.random.default_rng(payload.get("seed", 0))
        env = BanditEnv(pd.DataFrame(rng.normal(size=(50, 4))), pd.DataFrame(rng.integers(0, 3, size=50)))
        agent = cls(spaces.Box(-np.inf, np.inf, env.context_dim), spaces.Discrete(env.arms), batch_size=4, learn_step=1)
        mem = ReplayBuffer(100)
        cases += 1
        try:
            pop, _ = train_bandits(env, "x", cls.__name__, [agent], mem, max_steps=20, episode_steps=10, evo_steps=10, eval_steps=5, eval_loop=1, verbose=False)
        except RuntimeError as e:
            return {"status": "fail", "cases": cases, "witness_key": "bandit-stored-context",
                    "detail": f"train_bandits({cls.__name__}, BanditEnv) raised RuntimeError at the first learn(): {str(e)[:160]}; stored obs per transition "
                              f"{tuple(mem.storage['obs'].shape[1:])} {mem.storage['obs'].dtype}, chosen arm's context {tuple(env.context_dim)}", "input": {"algo": cls.__name__}}
        shape = tuple(mem.storage["obs"].shape[1:])
        if shape != tuple(env.context_dim):
            return {"status": "fail", "cases": cases, "witness_key": "bandit-stored-context",
                    "detail": f"{cls.__name__}: stored obs per transition has shape {shape}; the chosen arm's context has shape {tuple(env.context_dim)}", "input": {"algo": cls.__name__}}
        if pop[0].steps[-1] != 20:
            return {"status": "fail", "cases": cases, "detail": f"{cls.__name__}: steps counter {pop[0].steps[-1]} after 2 x 10 environment steps"}
    return {"status": "pass", "cases": cases}
