"""Self-contained reproduction scripts (replays/demos/<name>.py), each written as a contract check of one function or call
sequence: exit 0 = the stated postcondition holds on the tree under test, exit 1 = it fails (stdout says how)."""
import os
import subprocess
import sys

HERE = os.path.dirname(os.path.abspath(__file__))


def run(payload):
    name = payload["name"]
    path = os.path.join(HERE, "demos", name + ".py")
    env = dict(os.environ)
    p = subprocess.run([sys.executable, path], capture_output=True, text=True, timeout=int(payload.get("budget_s", 240)) - 10, env=env, cwd=env.get("PYVC_REPO", "/repo"))
    tail = "\n".join([ln for ln in (p.stdout or "").splitlines() if not ln.startswith("[20")][-12:])
    if p.returncode == 0:
        return {"status": "pass", "cases": 1}
    if p.returncode == 1:
        return {"status": "fail", "cases": 1, "witness_key": payload.get("witness_key", name), "detail": f"{name}: {tail[-900:]}", "input": {"script": f"replays/demos/{name}.py"}}
    return {"status": "error", "detail": f"{name} exited {p.returncode}: {(p.stderr or '')[-1500:]}"}
