"""C01 demo 1: a cloned neural bandit (NeuralUCB / NeuralTS) stays wired to its parent's autograd
graph through `theta_0`, and therefore does NOT compute the same update as its parent.

History: build agent -> a few learn steps -> clone().
Property says: the clone computes the same update from the same batch as its parent would, and shares
no state with it (training one never touches the other).

Exit code 1 = property violated (current code), 0 = property holds.
"""
import sys
import warnings

warnings.filterwarnings("ignore")

import numpy as np
import torch
from gymnasium import spaces
from tensordict import TensorDict

from agilerl.algorithms import NeuralTS, NeuralUCB

B = 8
OBS = spaces.Box(-1, 1, (4,), np.float32)
ACT = spaces.Discrete(3)


def batch(seed):
    rng = np.random.default_rng(seed)
    return TensorDict(
        {
            "obs": torch.from_numpy(rng.uniform(-1, 1, (B, 4)).astype(np.float32)),
            "reward": torch.from_numpy(rng.normal(size=(B, 1)).astype(np.float32)),
        },
        batch_size=[B],
    )


def graph_leaves(t):
    leaves, seen, stack = [], set(), [t.grad_fn]
    while stack:
        fn = stack.pop()
        if fn is None or fn in seen:
            continue
        seen.add(fn)
        if hasattr(fn, "variable"):
            leaves.append(fn.variable)
        stack.extend(nf for nf, _ in fn.next_functions)
    return leaves


failures = []
for cls in (NeuralUCB, NeuralTS):
    for reg in (0.000625, 0.1):  # library default and a larger (legal) regularisation weight
        torch.manual_seed(0)
        np.random.seed(0)
        parent = cls(OBS, ACT, batch_size=B, reg=reg, lr=1e-2)
        for i in range(5):
            parent.learn(batch(i))

        clone = parent.clone()
        tag = f"{cls.__name__}(reg={reg})"

        # sanity: clone is value-identical at this point
        same_w = all(
            torch.equal(a, b)
            for a, b in zip(parent.actor.state_dict().values(), clone.actor.state_dict().values())
        )
        same_theta = torch.equal(parent.theta_0.detach(), clone.theta_0.detach())
        same_sigma = torch.equal(parent.sigma_inv, clone.sigma_inv)
        assert same_w and same_theta and same_sigma, "clone not even value-identical"

        # (a) shared state: the clone's theta_0 is attached to the PARENT's parameters
        parent_params = {id(p) for p in parent.actor.parameters()}
        clone_params = {id(p) for p in clone.actor.parameters()}
        leaves = graph_leaves(clone.theta_0) if clone.theta_0.grad_fn is not None else []
        to_parent = [l for l in leaves if id(l) in parent_params]
        to_self = [l for l in leaves if id(l) in clone_params]
        if to_parent:
            failures.append(
                f"{tag}: clone.theta_0 is a non-leaf tensor whose autograd graph ends in "
                f"{len(to_parent)} parameter(s) of the PARENT's actor (and {len(to_self)} of its own)"
            )

        # (b) training the clone writes into the parent's parameters' .grad
        for p in parent.actor.parameters():
            p.grad = None
        clone_probe = parent.clone()
        clone_probe.learn(batch(99))
        touched = [n for n, p in parent.actor.named_parameters() if p.grad is not None]
        if touched:
            failures.append(
                f"{tag}: clone.learn() accumulated gradients into the parent's parameters {touched}"
            )

        # (c) same batch, same state -> same update?
        b = batch(123)
        torch.manual_seed(1)
        loss_p = parent.learn(b)
        torch.manual_seed(1)
        loss_c = clone.learn(b)
        diffs = {
            k: (pv - cv).abs().max().item()
            for (k, pv), cv in zip(parent.actor.state_dict().items(), clone.actor.state_dict().values())
            if not torch.equal(pv, cv)
        }
        if diffs:
            k, v = max(diffs.items(), key=lambda kv: kv[1])
            failures.append(
                f"{tag}: parent and clone computed DIFFERENT updates from the same batch "
                f"(loss {loss_p:.6f} vs {loss_c:.6f}; {len(diffs)} tensors differ, e.g. {k} max|d|={v:.3e})"
            )

if failures:
    print("C01 VIOLATED - cloned bandit is not an independent, faithful copy:")
    for f in failures:
        print("  -", f)
    sys.exit(1)
print("OK: cloned bandits are independent and compute the same update as their parents")
sys.exit(0)
