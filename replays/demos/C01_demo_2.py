"""C01 demo 2: with share_encoders=True (the DEFAULT of DDPG / TD3 / PPO) a clone's *critic* is not a copy of
its parent's critic.

`share_encoder_parameters` copies the actor's encoder values into the critic's encoder only when the mutation
hook runs (construction / after a mutation).  While the parent learns, its actor encoder moves on and the
critic keeps the old (detached, non-trainable) copy.  `EvolvableAlgorithm.clone()` re-runs the hook on the
clone (base.py:714-716), so the clone's critic encoder is overwritten with the clone's *current* actor
encoder.  The clone therefore has different critic weights, different Q-values / state values and computes a
different update than its parent - and this is an online network, not the target network the property excuses.

NOTE (environment): on Python 3.12 `isinstance(net, agilerl.protocols.EvolvableNetwork)` (a runtime Protocol
with attribute members) is False for real networks, so share_encoders=True cannot even be constructed.  The
demo detects that and emulates the Python <= 3.11 result of that single isinstance check in-process (no file
of the library is modified).  Everything else is the unmodified library code.

Exit code 1 = property violated, 0 = property holds.
"""
import sys
import warnings

warnings.filterwarnings("ignore")

import numpy as np
import torch
from gymnasium import spaces
from tensordict import TensorDict

import agilerl.utils.algo_utils as algo_utils
from agilerl.algorithms import DDPG, PPO, TD3

B = 8
OBS = spaces.Box(-1, 1, (4,), np.float32)
ACT = spaces.Box(-1, 1, (2,), np.float32)

try:
    DDPG(OBS, ACT)  # share_encoders=True is the default
except AssertionError as e:
    if "EvolvableNetwork" not in str(e):
        raise
    from agilerl.networks.base import EvolvableNetwork as _RealEvolvableNetwork

    algo_utils.EvolvableNetwork = _RealEvolvableNetwork
    print("[demo] py3.12 runtime-Protocol isinstance quirk detected -> emulating the py<=3.11 check in-process")


def offpolicy(seed):
    rng = np.random.default_rng(seed)
    f = lambda *s: torch.from_numpy(rng.uniform(-1, 1, s).astype(np.float32))
    return TensorDict(
        {"obs": f(B, 4), "action": f(B, 2), "reward": f(B, 1), "next_obs": f(B, 4), "done": torch.zeros(B, 1)},
        batch_size=[B],
    )


def as_tuple(td):
    return (td["obs"], td["action"], td["reward"], td["next_obs"], td["done"])


def ppo_rollout(seed):
    rng = np.random.default_rng(seed)
    T, E = 6, 2
    g = lambda *s: rng.normal(size=s).astype(np.float32)
    return (
        g(T, E, 4),
        rng.uniform(-1, 1, (T, E, 2)).astype(np.float32),
        -rng.uniform(size=(T, E)).astype(np.float32),
        g(T, E),
        np.zeros((T, E), np.float32),
        g(T, E),
        g(E, 4),
        np.zeros((1, E), np.float32),
    )


def full_state(module):
    """all tensors of a module, including the detached (non-Parameter) shared-encoder tensors, which
    TensorDict.to_module stores as plain attributes of the sub-modules"""
    out = {}
    for prefix, sub in torch.nn.Module.named_modules(module):
        for n, p in sub.named_parameters(recurse=False):
            out[(prefix, n)] = p.detach().clone()
        for n, b in sub.named_buffers(recurse=False):
            out[(prefix, n)] = b.detach().clone()
        for n, v in vars(sub).items():
            if isinstance(v, torch.Tensor):
                out[(prefix, n)] = v.detach().clone()
    return out


failures = []
cases = [
    ("DDPG", lambda: DDPG(OBS, ACT, batch_size=B), lambda s: offpolicy(s), ["critic"]),
    ("TD3", lambda: TD3(OBS, ACT, batch_size=B), lambda s: as_tuple(offpolicy(s)), ["critic_1", "critic_2"]),
    ("PPO", lambda: PPO(OBS, ACT, batch_size=4), ppo_rollout, ["critic"]),
]
for name, make, batch, critics in cases:
    torch.manual_seed(0)
    np.random.seed(0)
    parent = make()
    assert parent.share_encoders and parent.registry.hooks == ["share_encoder_parameters"]
    for i in range(30):
        parent.learn(batch(i))

    clone = parent.clone()

    # the actor is copied faithfully ...
    actor_same = all(
        torch.equal(a, b) for a, b in zip(full_state(parent.actor).values(), full_state(clone.actor).values())
    )
    assert actor_same, "actor not copied"

    # ... but the critic(s) are not
    for cname in critics:
        ps, cs = full_state(getattr(parent, cname)), full_state(getattr(clone, cname))
        diff = {k: (ps[k] - cs[k]).abs().max().item() for k in ps if not torch.equal(ps[k], cs[k])}
        if diff:
            k, v = max(diff.items(), key=lambda kv: kv[1])
            failures.append(
                f"{name}: clone.{cname} differs from parent.{cname} in {len(diff)} tensors "
                f"(all under 'encoder'; e.g. {'.'.join(k)} max|d|={v:.3e})"
            )

    # behavioural consequence: critic outputs on the same input
    probe = offpolicy(777)
    with torch.no_grad():
        if name == "PPO":
            vp, vc = parent.critic(probe["obs"]), clone.critic(probe["obs"])
        else:
            c0 = critics[0]
            vp = getattr(parent, c0)(probe["obs"], probe["action"])
            vc = getattr(clone, c0)(probe["obs"], probe["action"])
    if not torch.equal(vp, vc):
        failures.append(
            f"{name}: critic value of the same input differs between parent and clone "
            f"(max|d|={(vp - vc).abs().max().item():.3e}, parent mean {vp.mean().item():+.4f}, clone mean {vc.mean().item():+.4f})"
        )

    # same batch -> same update?
    torch.manual_seed(5)
    np.random.seed(5)
    parent.learn(batch(999))
    torch.manual_seed(5)
    np.random.seed(5)
    clone.learn(batch(999))
    upd = {}
    for net in ["actor"] + critics:
        ps, cs = full_state(getattr(parent, net)), full_state(getattr(clone, net))
        for k in ps:
            if "encoder" in k[0] and net != "actor":
                continue  # already reported above
            if not torch.equal(ps[k], cs[k]):
                upd[f"{net}.{'.'.join(k)}"] = (ps[k] - cs[k]).abs().max().item()
    if upd:
        k, v = max(upd.items(), key=lambda kv: kv[1])
        failures.append(
            f"{name}: after learning from the same batch (same seeds) parent and clone differ in "
            f"{len(upd)} trained tensors, e.g. {k} max|d|={v:.3e}"
        )

if failures:
    print("C01 VIOLATED - with shared encoders the clone's critic is not the parent's critic:")
    for f in failures:
        print("  -", f)
    sys.exit(1)
print("OK: clones of shared-encoder agents are faithful copies")
sys.exit(0)
