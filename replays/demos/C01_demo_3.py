"""C01 demo 3 (low severity, latent aliasing): DDPG / TD3 clones share the exploration-noise arrays
`expl_noise` and `mean_noise` with their parent - and, after one tournament round, the whole population
shares a single array.

`clone()` passes the parent's `expl_noise` / `mean_noise` ndarrays to the constructor, which stores an
ndarray argument as is (ddpg.py:183-192, td3.py:178-187); `copy_attributes` only re-copies ndarrays that
compare unequal (base.py:418-422), so the alias survives.  No library code writes into these arrays, but any
in-place schedule on one agent (`agent.expl_noise *= decay`, `agent.mean_noise[:] = ...`) silently changes
the hyperparameter of the parent, of every sibling and of the elite.

Exit code 1 = clone shares mutable state with its parent, 0 = independent.
"""
import sys
import warnings

warnings.filterwarnings("ignore")

import numpy as np
from gymnasium import spaces

from agilerl.algorithms import DDPG, TD3
from agilerl.hpo.tournament import TournamentSelection

OBS = spaces.Box(-1, 1, (4,), np.float32)
ACT = spaces.Box(-1, 1, (2,), np.float32)

failures = []
for cls in (DDPG, TD3):
    parent = cls(OBS, ACT, share_encoders=False, expl_noise=0.1)
    clone = parent.clone()
    for attr in ("expl_noise", "mean_noise"):
        if np.shares_memory(getattr(parent, attr), getattr(clone, attr)):
            failures.append(f"{cls.__name__}: parent.{attr} and clone.{attr} are the same memory")

    # a noise-decay schedule applied to the clone only
    before = parent.expl_noise.copy()
    clone.expl_noise *= 0.5
    if not np.array_equal(parent.expl_noise, before):
        failures.append(
            f"{cls.__name__}: `clone.expl_noise *= 0.5` changed the parent's expl_noise "
            f"from {before.ravel().tolist()} to {parent.expl_noise.ravel().tolist()}"
        )

    # tournament: every member of the next generation (and the elite) alias one array
    np.random.seed(0)
    pop = [cls(OBS, ACT, index=i, share_encoders=False) for i in range(3)]
    for i, a in enumerate(pop):
        a.fitness.append(float(i))
    elite, new_pop = TournamentSelection(2, True, 3, 1).select(pop)
    group = new_pop + [elite]
    aliased = [
        (i, j)
        for i in range(len(group))
        for j in range(i + 1, len(group))
        if np.shares_memory(group[i].expl_noise, group[j].expl_noise)
    ]
    if aliased:
        failures.append(
            f"{cls.__name__}: after TournamentSelection.select, members {aliased} of (new_population + [elite]) "
            f"share one expl_noise array (index {len(group) - 1} is the elite)"
        )

if failures:
    print("C01 VIOLATED - exploration-noise hyperparameters are aliased between parent and clone:")
    for f in failures:
        print("  -", f)
    sys.exit(1)
print("OK: noise arrays are independent")
sys.exit(0)
