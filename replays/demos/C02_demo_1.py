"""C02 demo 1: an RL-hyperparameter mutation of a learning rate that is shared by several
optimizers re-creates only the FIRST optimizer registered under that name.

TD3 / MATD3 register critic_1_optimizer(s) and critic_2_optimizer(s) under `lr_critic`, IPPO registers
actor_optimizers and critic_optimizers under `lr`. After Mutations.mutation() mutates that learning
rate, the second optimizer keeps stepping with the OLD learning rate although agent.<lr> changed.

Exit 1 = property violated (current code), exit 0 = every optimizer uses the agent's current lr.
"""
import sys
import warnings

import numpy as np
import torch
from gymnasium import spaces

warnings.filterwarnings("ignore")
torch.set_num_threads(1)

from agilerl.algorithms.core.registry import HyperparameterConfig, RLParameter
from agilerl.algorithms.ippo import IPPO
from agilerl.algorithms.matd3 import MATD3
from agilerl.algorithms.td3 import TD3
from agilerl.hpo.mutation import Mutations

OBS = spaces.Box(-1, 1, (4,), np.float32)
ACT = spaces.Box(-1, 1, (2,), np.float32)
DACT = spaces.Discrete(3)
IDS = ["agent_0", "agent_1"]


def optimizer_lrs(agent):
    """-> list of (optimizer attribute, lr attribute name, lr used by a param group)"""
    out = []
    for cfg in agent.registry.optimizers:
        wrapper = getattr(agent, cfg.name)
        opts = wrapper.optimizer if isinstance(wrapper.optimizer, list) else [wrapper.optimizer]
        for opt in opts:
            for group in opt.param_groups:
                out.append((cfg.name, cfg.lr, group["lr"]))
    return out


def run(name, make, lr_name):
    failures = []
    hp = HyperparameterConfig(**{lr_name: RLParameter(min=1e-6, max=1.0)})
    agent = make(hp)
    old = getattr(agent, lr_name)
    # only RL-hyperparameter mutations, the only mutable hyperparameter is the learning rate
    mutations = Mutations(
        no_mutation=0, architecture=0, new_layer_prob=0.5, parameters=0,
        activation=0, rl_hp=1, rand_seed=0,
    )
    population = mutations.mutation([agent])
    agent = population[0]
    new = getattr(agent, lr_name)
    assert agent.mut == lr_name and new != old, (agent.mut, old, new)
    for opt_name, opt_lr_name, used in optimizer_lrs(agent):
        current = getattr(agent, opt_lr_name)
        if used != current:
            failures.append(
                f"{name}: after mutating {lr_name} {old} -> {new}, {opt_name} still steps with "
                f"lr={used} (agent.{opt_lr_name}={current})"
            )
    return failures


failures = []
failures += run(
    "TD3", lambda hp: TD3(OBS, ACT, index=0, hp_config=hp, share_encoders=False), "lr_critic"
)
failures += run(
    "MATD3", lambda hp: MATD3([OBS, OBS], [ACT, ACT], agent_ids=IDS, index=0, hp_config=hp), "lr_critic"
)
failures += run(
    "IPPO", lambda hp: IPPO([OBS, OBS], [DACT, DACT], agent_ids=IDS, index=0, hp_config=hp), "lr"
)

if failures:
    print("PROPERTY VIOLATED: an optimizer does not use the agent's current learning rate")
    for f in sorted(set(failures)):
        print("  -", f)
    sys.exit(1)

print("ok: every optimizer uses the agent's current learning rate after the mutation")
sys.exit(0)
