"""C02 demo 2: activation mutation of an agent whose encoder is an EvolvableMultiInput
(Dict or Tuple observation space).

(a) Mutations.activation_mutation changes every activation layer of the policy IN PLACE and only then
    notices that `network.activation is None`; it warns "no activation mutation capabilities" and labels
    the agent mut="None" although the policy was mutated  -> the agent does not report the mutation
    it received.
(b) EvolvableMultiInput.change_activation(output=True) swaps `self.output` but never records the new
    `output_activation`, so `init_dict` still carries the old one. Mutations.mutation() rebuilds the target
    network from the eval network's init_dict -> right after the mutation the target has the same weights
    but a different output activation than the network it shadows (it computes a different function).

Exit 1 = property violated (current code), exit 0 = property holds.
"""
import sys
import warnings

import numpy as np
import torch
from gymnasium import spaces

warnings.filterwarnings("ignore")
torch.set_num_threads(1)

from agilerl.algorithms.cqn import CQN
from agilerl.algorithms.dqn import DQN
from agilerl.algorithms.dqn_rainbow import RainbowDQN
from agilerl.hpo.mutation import Mutations

TUPLE_OBS = spaces.Tuple(
    (spaces.Box(-1, 1, (4,), np.float32), spaces.Box(-1, 1, (3,), np.float32))
)
DICT_OBS = spaces.Dict(
    {"a": spaces.Box(-1, 1, (4,), np.float32), "b": spaces.Box(-1, 1, (3,), np.float32)}
)
ACT = spaces.Discrete(3)


def sample(space, n):
    if isinstance(space, spaces.Dict):
        return {k: sample(v, n) for k, v in space.spaces.items()}
    if isinstance(space, spaces.Tuple):
        return tuple(sample(v, n) for v in space.spaces)
    return torch.rand(n, *space.shape)


def activation_layers(net):
    return [
        (name, type(mod).__name__)
        for name, mod in net.named_modules()
        if type(mod).__module__ == "torch.nn.modules.activation"
    ]


failures = []
for algo in (DQN, RainbowDQN, CQN):
    for obs_space in (DICT_OBS, TUPLE_OBS):
        tag = f"{algo.__name__}/{type(obs_space).__name__}"
        torch.manual_seed(0)
        agent = algo(obs_space, ACT, index=0)
        # only activation mutations
        mutations = Mutations(
            no_mutation=0, architecture=0, new_layer_prob=0.5, parameters=0,
            activation=1, rl_hp=0, rand_seed=0,
        )
        for generation in range(2):
            before = activation_layers(agent.actor)
            [agent] = mutations.mutation([agent])
            after = activation_layers(agent.actor)
            changed = before != after

            # (a) the reported mutation must agree with what happened to the policy
            if changed and agent.mut != "act":
                failures.append(
                    f"{tag} gen {generation}: policy activations changed "
                    f"{sorted({a for _, a in before})} -> {sorted({a for _, a in after})} "
                    f"but agent.mut == {agent.mut!r}"
                )

            # (b) right after the mutation the target must be the same function as the eval network
            target_acts = activation_layers(agent.actor_target)
            if target_acts != after:
                missing = [x for x in after if x not in target_acts]
                failures.append(
                    f"{tag} gen {generation}: actor_target activation layers differ from actor "
                    f"(actor has {missing}, init_dict output_activation="
                    f"{agent.actor.encoder.init_dict['output_activation']!r})"
                )
            agent.actor.eval(), agent.actor_target.eval()
            x = sample(obs_space, 16)
            with torch.no_grad():
                diff = (agent.actor(x) - agent.actor_target(x)).abs().max().item()
            if algo is not RainbowDQN and diff > 1e-6:  # Rainbow resamples noise in forward
                failures.append(
                    f"{tag} gen {generation}: actor_target(x) != actor(x) right after the mutation "
                    f"(max abs diff {diff:.4f})"
                )

if failures:
    print("PROPERTY VIOLATED:")
    for f in failures:
        print("  -", f)
    sys.exit(1)

print("ok: activation mutation is reported and the target shadows the eval network")
sys.exit(0)
