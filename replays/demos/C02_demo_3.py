"""C02 demo 3: with a user supplied encoder_config that has no "activation" key (the canonical
net_config={"encoder_config": {"hidden_size": [32, 32]}} used all over docs and tests), an
EvolvableNetwork cannot be re-created from its own init_dict:

  * at construction EvolvableNetwork.__init__ sets encoder output_activation = encoder_config.get("activation")
    = None  -> the encoder output layer is followed by Identity;
  * init_dict/encoder.net_config then reports activation="ReLU" (the MLP default) and output_activation=None,
    so every re-creation (Mutations.reinit_from_mutated for targets, EvolvableModule.clone for the offspring
    of an architecture mutation) builds an encoder whose output is followed by ReLU.

Consequences checked here, directly after Mutations.mutation():
  (a) no-mutation / parameter / RL-hyperparameter mutation: every target network is rebuilt with an extra ReLU
      on the latent and no longer has the architecture of (nor computes the same function as) the eval network
      it shadows, although the weights are identical;
  (b) architecture mutation: besides the reported mutation (e.g. head_net.add_node) the policy and critic
      silently change their encoder output activation Identity -> ReLU.

Exit 1 = property violated (current code), exit 0 = property holds.
"""
import sys
import warnings

import numpy as np
import torch
from gymnasium import spaces

warnings.filterwarnings("ignore")
torch.set_num_threads(1)

from agilerl.algorithms.ddpg import DDPG
from agilerl.algorithms.dqn import DQN
from agilerl.algorithms.maddpg import MADDPG
from agilerl.algorithms.td3 import TD3
from agilerl.hpo.mutation import Mutations

OBS = spaces.Box(-1, 1, (4,), np.float32)
CACT = spaces.Box(-1, 1, (2,), np.float32)
DACT = spaces.Discrete(3)
IDS = ["agent_0", "agent_1"]


def net_config():
    return {"encoder_config": {"hidden_size": [32, 32]}, "head_config": {"hidden_size": [32]}}


MAKERS = {
    "DQN": lambda: DQN(OBS, DACT, index=0, net_config=net_config()),
    "DDPG": lambda: DDPG(OBS, CACT, index=0, net_config=net_config(), share_encoders=False),
    "TD3": lambda: TD3(OBS, CACT, index=0, net_config=net_config(), share_encoders=False),
    "MADDPG": lambda: MADDPG([OBS, OBS], [CACT, CACT], agent_ids=IDS, index=0, net_config=net_config()),
}

KINDS = {
    # name: (no_mutation, architecture, parameters, activation, rl_hp, pre_training)
    "none": (1, 0, 0, 0, 0, False),
    "parameters (pre-training)": (0, 0, 1, 0, 0, True),
    "architecture (pre-training)": (0, 1, 0, 0, 0, True),
}


def as_list(x):
    return x if isinstance(x, list) else [x]


def layers(net):
    """structure of a network: (qualified name, layer type) of all leaf torch modules"""
    return [
        (name, type(mod).__name__)
        for name, mod in net.named_modules()
        if len(list(mod.children())) == 0
    ]


def encoder_output_activation(net):
    return [t for n, t in layers(net) if n.endswith("encoder_activation_output")]


failures = []
for algo, make in MAKERS.items():
    for kind, (no, arch, par, act, hp, pre) in KINDS.items():
        torch.manual_seed(0)
        agent = make()
        registry = agent.registry
        before = {
            g.eval: [encoder_output_activation(n) for n in as_list(getattr(agent, g.eval))]
            for g in registry.groups
        }
        mutations = Mutations(
            no_mutation=no, architecture=arch, new_layer_prob=0.0, parameters=par,
            activation=act, rl_hp=hp, rand_seed=0,
        )
        [agent] = mutations.mutation([agent], pre_training_mut=pre)

        for group in registry.groups:
            evals = as_list(getattr(agent, group.eval))
            # (b) an encoder-unrelated mutation must not change the encoder output activation
            after = [encoder_output_activation(n) for n in evals]
            if after != before[group.eval] and "encoder" not in str(agent.mut) and agent.mut != "act":
                failures.append(
                    f"{algo} / {kind}: agent.mut={agent.mut!r} but {group.eval} encoder output activation "
                    f"changed {before[group.eval][0]} -> {after[0]}"
                )
            # (a) targets must have the architecture of the network they shadow
            for shared_name in group.shared or []:
                shared = as_list(getattr(agent, shared_name))
                for i, (e, s) in enumerate(zip(evals, shared)):
                    if layers(e) != layers(s):
                        diff = [(x, y) for x, y in zip(layers(e), layers(s)) if x != y]
                        failures.append(
                            f"{algo} / {kind}: agent.mut={agent.mut!r}: {shared_name}[{i}] architecture differs "
                            f"from {group.eval}[{i}] right after the mutation: {diff[:2]}"
                        )

if failures:
    print("PROPERTY VIOLATED:")
    for f in failures:
        print("  -", f)
    sys.exit(1)

print("ok: targets share the architecture of their eval networks and only the reported mutation was applied")
sys.exit(0)
