"""C02 demo 4: OptimizerWrapper infers the name of its learning-rate attribute by object IDENTITY
(`self.lr is attr_value`, wrappers.py::_infer_lr_name).  When an actor-critic agent is constructed with
the same float object for both learning rates - e.g. DDPG(..., lr_actor=1e-3, lr_critic=1e-3): CPython
folds equal literals of one code object into one constant - both `lr_actor` and `lr_critic` match and the
first name containing "lr" wins, so the critic optimizer is registered under `lr_actor`.

After that the registry is wrong for the whole life of the agent (and of its clones):
  * an RL-hyperparameter mutation of lr_critic changes agent.lr_critic but no optimizer is rebuilt: the critic
    optimizer keeps the old learning rate;
  * an RL-hyperparameter mutation of lr_actor followed by any mutation that rebuilds the optimizers (architecture,
    parameters) gives the critic optimizer the ACTOR's learning rate.

Exit 1 = property violated (current code), exit 0 = each optimizer uses the learning rate it was created with.
"""
import sys
import warnings

import numpy as np
import torch
from gymnasium import spaces

warnings.filterwarnings("ignore")
torch.set_num_threads(1)

from agilerl.algorithms.core.registry import HyperparameterConfig, RLParameter
from agilerl.algorithms.ddpg import DDPG
from agilerl.algorithms.maddpg import MADDPG
from agilerl.hpo.mutation import Mutations

OBS = spaces.Box(-1, 1, (4,), np.float32)
ACT = spaces.Box(-1, 1, (2,), np.float32)
IDS = ["agent_0", "agent_1"]


def critic_lrs(agent, name):
    wrapper = getattr(agent, name)
    opts = wrapper.optimizer if isinstance(wrapper.optimizer, list) else [wrapper.optimizer]
    return sorted({g["lr"] for o in opts for g in o.param_groups})


def make(algo, hp):
    if algo == "DDPG":
        return DDPG(OBS, ACT, index=0, hp_config=hp, share_encoders=False, lr_actor=1e-3, lr_critic=1e-3), "critic_optimizer"
    return MADDPG([OBS, OBS], [ACT, ACT], agent_ids=IDS, index=0, hp_config=hp, lr_actor=1e-3, lr_critic=1e-3), "critic_optimizers"


failures = []
for algo in ("DDPG", "MADDPG"):
    # --- scenario 1: mutate lr_critic ----------------------------------------------------------------
    hp = HyperparameterConfig(lr_critic=RLParameter(min=1e-6, max=1.0))
    agent, critic_opt = make(algo, hp)
    registered = {cfg.name: cfg.lr for cfg in agent.registry.optimizers}
    rl_hp = Mutations(no_mutation=0, architecture=0, new_layer_prob=0.5, parameters=0, activation=0, rl_hp=1, rand_seed=0)
    [agent] = rl_hp.mutation([agent])
    assert agent.mut == "lr_critic"
    used = critic_lrs(agent, critic_opt)
    if used != [agent.lr_critic]:
        failures.append(
            f"{algo}: {critic_opt} registered under {registered[critic_opt]!r}; after mutating lr_critic 0.001 -> "
            f"{agent.lr_critic} the critic optimizer steps with lr={used}"
        )

    # --- scenario 2: mutate lr_actor, then a parameter mutation rebuilds all optimizers ---------------------
    hp = HyperparameterConfig(lr_actor=RLParameter(min=1e-6, max=1.0))
    agent, critic_opt = make(algo, hp)
    [agent] = rl_hp.mutation([agent])
    assert agent.mut == "lr_actor"
    param = Mutations(no_mutation=0, architecture=0, new_layer_prob=0.5, parameters=1, activation=0, rl_hp=0, rand_seed=0)
    [agent] = param.mutation([agent])
    used = critic_lrs(agent, critic_opt)
    if used != [agent.lr_critic]:
        failures.append(
            f"{algo}: after lr_actor 0.001 -> {agent.lr_actor} and a parameter mutation, {critic_opt} steps with "
            f"lr={used} although agent.lr_critic={agent.lr_critic}"
        )

if failures:
    print("PROPERTY VIOLATED: an optimizer does not use the agent's current learning rate")
    for f in failures:
        print("  -", f)
    sys.exit(1)

print("ok")
sys.exit(0)
