"""C02 (activation mutation): an agent whose first network group can change its activation while a later group cannot
(a custom network without activation capabilities) gets the first network's activation changed and still reports mut == "None".

The real Mutations.activation_mutation is driven with the smallest agent-shaped object it needs (algo, registry with two
network groups and no optimizers, two network attributes); the first network is a real EvolvableMLP.
Exit 1 when an activation was changed although the agent reports "None" (or reports "act" without any change), 0 otherwise.
"""
import sys
import types
import warnings

import torch

warnings.filterwarnings("ignore")
torch.set_num_threads(2)
from agilerl.hpo.mutation import Mutations  # noqa: E402
from agilerl.modules.mlp import EvolvableMLP  # noqa: E402


class NoActivationNet(torch.nn.Module):
    activation = None


failures = []
for seed in range(4):
    actor = EvolvableMLP(num_inputs=4, num_outputs=2, hidden_size=[8], activation="ReLU", device="cpu")
    critic = NoActivationNet()
    groups = [types.SimpleNamespace(eval="actor", shared=None, policy=True), types.SimpleNamespace(eval="critic", shared=None, policy=False)]
    agent = types.SimpleNamespace(algo="CustomValueBased", registry=types.SimpleNamespace(groups=groups, optimizers=[]), actor=actor, critic=critic, mut=None)
    before = actor.activation
    mut = Mutations(no_mutation=0, architecture=0, new_layer_prob=0.5, parameters=0, activation=1, rl_hp=0, rand_seed=seed, device="cpu")
    out = mut.activation_mutation(agent)
    after = out.actor.activation
    print(f"seed {seed}: actor activation {before} -> {after}; agent reports mut = {out.mut!r}")
    if (after != before) != (out.mut == "act"):
        failures.append(seed)

if failures:
    print(f"property violated for seeds {failures}: the reported mutation does not match what was changed")
    sys.exit(1)
print("property holds")
