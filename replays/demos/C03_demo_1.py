"""C03 demo 1: every head_net.* mutation that StochasticActor advertises is a silent no-op.

Exits 1 on the current code, 0 if an advertised, not-bound-stopped head mutation changes the head.
"""
import sys, warnings
warnings.filterwarnings("ignore")
import numpy as np, torch
from gymnasium import spaces
from agilerl.networks.actors import StochasticActor, DeterministicActor

np.random.seed(0); torch.manual_seed(0)
obs, act = spaces.Box(-1, 1, (4,)), spaces.Box(-1, 1, (2,))
# head far away from every bound: 2 layers of 128 nodes, limits 1..3 layers, 8..500 nodes
head_config = {"hidden_size": [128, 128], "min_mlp_nodes": 8, "max_mlp_nodes": 500,
               "min_hidden_layers": 1, "max_hidden_layers": 3}
bad = []
for cls in (DeterministicActor, StochasticActor):
    for meth in ("head_net.add_layer", "head_net.remove_layer", "head_net.add_node", "head_net.remove_node"):
        net = cls(obs, act, head_config=dict(head_config, hidden_size=[128, 128]))
        assert meth in net.mutation_methods, f"{meth} not advertised by {cls.__name__}"
        clone = net.clone()
        mlp = clone.head_net.wrapped if hasattr(clone.head_net, "wrapped") else clone.head_net
        before = list(mlp.hidden_size)
        shapes_before = [tuple(p.shape) for p in clone.head_net.parameters()]
        ret = getattr(clone, meth)()
        mlp = clone.head_net.wrapped if hasattr(clone.head_net, "wrapped") else clone.head_net
        after = list(mlp.hidden_size)
        shapes_after = [tuple(p.shape) for p in clone.head_net.parameters()]
        changed = before != after and shapes_before != shapes_after
        print(f"{cls.__name__:18s} {meth:22s} ret={ret} hidden {before} -> {after} last_mutation_attr={clone.last_mutation_attr}")
        if not changed:
            bad.append((cls.__name__, meth))
if bad:
    print("\nFAIL: advertised mutations with no effect (no bound involved):", bad)
    sys.exit(1)
print("OK"); sys.exit(0)
