"""C03 demo 2: EvolvableResNet.add_channel()/remove_channel() with their default argument leave a numpy
integer in channel_size; the constructor description (init_dict) then cannot rebuild the module:
clone() and EvolvableNetwork.recreate_encoder()/clone() raise AssertionError.

Exits 1 on the current code, 0 if init_dict rebuilds an architecture that loads the weights.
"""
import sys, copy, warnings
warnings.filterwarnings("ignore")
import numpy as np, torch
from gymnasium import spaces
from agilerl.modules.resnet import EvolvableResNet
from agilerl.networks.q_networks import QNetwork

np.random.seed(0); torch.manual_seed(0)
fail = []
r = EvolvableResNet(input_shape=[3, 16, 16], num_outputs=4, channel_size=64, kernel_size=3, stride_size=1, num_blocks=1)
for meth in ("add_channel", "remove_channel"):
    m = r.clone()
    getattr(m, meth)()                      # default args, exactly what HPO does on the policy
    print(meth, "-> channel_size", m.channel_size, type(m.channel_size).__name__)
    try:
        new = EvolvableResNet(**copy.deepcopy(m.init_dict))
        new.load_state_dict(m.state_dict(), strict=True)
        m.clone()
    except Exception as e:
        print("   rebuild/clone failed:", repr(e)); fail.append(meth)

img = spaces.Box(0, 1, (3, 16, 16))
q = QNetwork(img, spaces.Discrete(3), encoder_cls="ResNet",
             encoder_config=dict(input_shape=[3, 16, 16], channel_size=64, kernel_size=3, stride_size=1, num_blocks=1))
q2 = q.clone()
getattr(q2, "encoder.add_channel")()
for what, fn in (("QNetwork.clone()", q2.clone), ("QNetwork.add_latent_node()", q2.add_latent_node)):
    try: fn()
    except Exception as e:
        print(what, "after encoder.add_channel failed:", repr(e)); fail.append(what)
if fail:
    print("\nFAIL:", fail); sys.exit(1)
print("OK"); sys.exit(0)
