"""C03 demo 3: EvolvableCNN.change_kernel(kernel_size=...) cannot be used on a CNN whose kernels are stored
as tuples (every Conv3d CNN, and Conv2d CNNs configured with tuple kernels):
  * an int (which is what change_kernel() itself returns for re-application on the sister networks)
    trips `assert isinstance(kernel_size, tuple)`;
  * a tuple is nested once more ((2,2),(2,2)) and recreate_network raises TypeError, leaving the module corrupted.
The HPO path (policy mutated, returned dict applied to the critics) therefore crashes for multi-agent image nets.

Exits 1 on the current code, 0 if the explicit kernel argument is applied.
"""
import sys, warnings
warnings.filterwarnings("ignore")
import numpy as np, torch
from agilerl.modules.cnn import EvolvableCNN

np.random.seed(1); torch.manual_seed(1)
fail = []
def mk3d():
    return EvolvableCNN([3, 16, 16], 4, [32, 32], [3, 3], [1, 1], block_type="Conv3d",
                        sample_input=torch.zeros(1, 3, 2, 16, 16))
def mk2d_tuple():
    return EvolvableCNN([3, 16, 16], 4, [32, 32], [(3, 3), (3, 3)], [1, 1])

# (a) re-application of the dict returned by the mutation itself (what agilerl.hpo.mutation does)
policy, critic = mk3d(), mk3d()
ret = policy.change_kernel()
print("policy.change_kernel() returned", ret, "policy kernels", policy.mut_kernel_size.sizes)
try:
    critic.change_kernel(**ret)
    assert critic.mut_kernel_size.sizes == policy.mut_kernel_size.sizes, critic.mut_kernel_size.sizes
except Exception as e:
    print("   critic.change_kernel(**ret) failed:", repr(e)); fail.append("conv3d-reapply")

# (b) all argument choices on tuple-kernel CNNs
for name, mk, arg, x in (("conv2d-tuple/int", mk2d_tuple, 2, torch.zeros(2, 3, 16, 16)),
                         ("conv2d-tuple/tuple", mk2d_tuple, (2, 2), torch.zeros(2, 3, 16, 16)),
                         ("conv3d/int", mk3d, 2, torch.zeros(2, 3, 2, 16, 16)),
                         ("conv3d/tuple", mk3d, (1, 2, 2), torch.zeros(2, 3, 2, 16, 16))):
    c = mk()
    try:
        c.change_kernel(kernel_size=arg, hidden_layer=1)
        assert c.mut_kernel_size.int_sizes[1] == 2, c.mut_kernel_size.sizes
        y = c(x); assert tuple(y.shape) == (2, 4) and torch.isfinite(y).all()
        print(name, "ok", c.mut_kernel_size.sizes)
    except Exception as e:
        print(name, "failed:", repr(e)[:160], "| kernels now", c.mut_kernel_size.sizes); fail.append(name)
if fail:
    print("\nFAIL:", fail); sys.exit(1)
print("OK"); sys.exit(0)
