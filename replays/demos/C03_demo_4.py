"""C03 demo 4: the constructor description of a Conv3d EvolvableCNN drops the kernel depths
(`kernel_size` property returns only the last entry of each tuple). Rebuilding from init_dict re-infers
depths (first = sample depth, rest = 1), so for any other depth layout the rebuilt net has different
weight shapes; clone() swallows the RuntimeError and silently returns a different, re-initialised network.

Exits 1 on the current code, 0 if init_dict rebuilds the same architecture and clone() is exact.
"""
import sys, copy, warnings
warnings.filterwarnings("ignore")
import torch
from agilerl.modules.cnn import EvolvableCNN

torch.manual_seed(0)
c = EvolvableCNN([3, 16, 16], 4, [32, 32], [(1, 3, 3), (2, 3, 3)], [1, 1], block_type="Conv3d",
                 sample_input=torch.zeros(1, 3, 2, 16, 16))
print("kernels in use      :", c.mut_kernel_size.sizes)
print("kernels in init_dict:", c.init_dict["kernel_size"])
fail = []
try:
    new = EvolvableCNN(**copy.deepcopy(c.init_dict)); new.load_state_dict(c.state_dict(), strict=True)
except Exception as e:
    print("rebuild failed:", repr(e)[:220]); fail.append("rebuild")
cl = c.clone()
s1 = {k: tuple(v.shape) for k, v in c.state_dict().items()}
s2 = {k: tuple(v.shape) for k, v in cl.state_dict().items()}
if s1 != s2:
    print("clone() returned another architecture:", {k: (s1[k], s2[k]) for k in s1 if s1[k] != s2[k]}); fail.append("clone-arch")
x = torch.rand(2, 3, 2, 16, 16)
if not torch.allclose(c(x), cl(x)):
    print("clone() does not compute the same function"); fail.append("clone-fn")
if fail:
    print("\nFAIL:", fail); sys.exit(1)
print("OK"); sys.exit(0)
