"""C03 demo 5: DuelingDistributionalMLP (Rainbow head) describes itself with num_outputs = num_atoms instead of
the number of actions (EvolvableMLP.__init__ overwrites self.num_outputs with num_atoms). init_dict therefore
rebuilds a head for 51 actions; clone() swallows the load error and returns a head with a different output shape.

Exits 1 on the current code, 0 if init_dict/clone reproduce the head.
"""
import sys, copy, warnings
warnings.filterwarnings("ignore")
import torch
from agilerl.networks.custom_modules import DuelingDistributionalMLP

torch.manual_seed(0)
d = DuelingDistributionalMLP(num_inputs=8, num_outputs=2, hidden_size=[64], num_atoms=51, support=torch.linspace(-1, 1, 51))
d.add_node(hidden_layer=0, numb_new_nodes=16)
print("actions:", d.num_actions, " init_dict['num_outputs']:", d.init_dict["num_outputs"])
fail = []
try:
    new = DuelingDistributionalMLP(**copy.deepcopy(d.init_dict)); new.load_state_dict(d.state_dict(), strict=True)
except Exception as e:
    print("rebuild failed:", repr(e)[:200]); fail.append("rebuild")
x = torch.rand(3, 8)
out, cout = d(x), d.clone()(x)
print("forward shape", tuple(out.shape), "clone forward shape", tuple(cout.shape))
if out.shape != cout.shape: fail.append("clone-shape")
if fail:
    print("\nFAIL:", fail); sys.exit(1)
print("OK"); sys.exit(0)
