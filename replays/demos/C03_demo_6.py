"""C03 demo 6: size lists are aliased. EvolvableMLP/EvolvableCNN keep the caller's hidden_size/channel_size list
and mutate it in place (`self.hidden_size[i] += n`, `self.hidden_size += [...]`). Two networks built from one
config dict (exactly what DQN does for actor and actor_target) share the list: mutating one silently changes the
constructor description of the other (and the user's config) without touching its weights.

Exits 1 on the current code, 0 if the un-mutated network still rebuilds from its init_dict.
"""
import sys, copy, warnings
warnings.filterwarnings("ignore")
import torch
from gymnasium import spaces
from agilerl.networks.q_networks import QNetwork

torch.manual_seed(0)
net_config = {"encoder_config": {"hidden_size": [64], "activation": "ReLU"}, "head_config": {"hidden_size": [64]}}
obs, act = spaces.Box(-1, 1, (4,)), spaces.Discrete(2)
actor = QNetwork(obs, act, **net_config)
target = QNetwork(obs, act, **net_config)          # same pattern as DQN.create_actor() called twice
getattr(actor, "encoder.add_node")(hidden_layer=0, numb_new_nodes=16)
getattr(actor, "head_net.add_layer")()
print("actor  encoder/head:", actor.encoder.hidden_size, actor.head_net.hidden_size)
print("target encoder/head:", target.encoder.hidden_size, target.head_net.hidden_size, "(never mutated)")
print("user net_config    :", net_config["encoder_config"]["hidden_size"], net_config["head_config"]["hidden_size"])
fail = []
try:
    new = QNetwork(**copy.deepcopy(target.init_dict)); new.load_state_dict(target.state_dict(), strict=True)
except Exception as e:
    print("target no longer rebuilds from its init_dict:", repr(e)[:200]); fail.append("target-rebuild")
tc = target.clone()
x = torch.rand(3, 4)
if not torch.allclose(tc(x), target(x)):
    print("target.clone() is not a copy of target any more"); fail.append("target-clone")
if net_config["encoder_config"]["hidden_size"] != [64]: fail.append("user-config-mutated")
if fail:
    print("\nFAIL:", fail); sys.exit(1)
print("OK"); sys.exit(0)
