"""C04 demo 1: learned BatchNorm weight/bias of an EvolvableCNN are thrown away when a channel is removed
(and when remove_layer falls back to add_channel), because EvolvableCNN.shrink_preserve_parameters skips
every parameter whose name contains 'norm' when its size changed."""
import sys
import numpy as np
import torch
from gymnasium import spaces

torch.set_num_threads(1)
from agilerl.modules.cnn import EvolvableCNN
from agilerl.modules.configs import CnnNetConfig
from agilerl.networks.q_networks import QNetwork

torch.manual_seed(0)
np.random.seed(0)
bad = []


def randomise(m):
    with torch.no_grad():
        for p in m.parameters():
            p.copy_(torch.randn_like(p))


def check(label, before, after):
    for k, old in before.items():
        if k in after:
            new = after[k]
            sl = tuple(slice(0, min(o, n)) for o, n in zip(old.shape, new.shape))
            if not torch.equal(old[sl], new[sl]):
                bad.append(
                    f"{label}: {k} {tuple(old.shape)}->{tuple(new.shape)} lost its values on the common index range "
                    f"(old[:3]={old.flatten()[:3].tolist()}, new[:3]={new.flatten()[:3].tolist()})"
                )


def snap(m):
    return {k: v.detach().clone() for k, v in m.named_parameters()}


# (a) plain module, explicit arguments
cnn = EvolvableCNN([3, 32, 32], 5, [32, 32], [3, 3], [1, 1], layer_norm=True, min_channel_size=8)
randomise(cnn)
b = snap(cnn)
cnn.remove_channel(hidden_layer=0, numb_new_channels=8)  # 32 -> 24 channels in layer 1
check("EvolvableCNN.remove_channel(0, 8)", b, snap(cnn))

# (b) remove_layer at the minimum depth falls back to add_channel but keeps shrink_params=True
cnn = EvolvableCNN([3, 32, 32], 5, [32], [3], [1], layer_norm=True)
randomise(cnn)
b = snap(cnn)
cnn.remove_layer()  # -> add_channel(): 32 -> 32+k channels
check("EvolvableCNN.remove_layer() [fallback add_channel]", b, snap(cnn))

# (c) image encoder of an EvolvableNetwork configured through CnnNetConfig (layer_norm defaults to True there)
net = QNetwork(spaces.Box(0, 1, (3, 32, 32)), spaces.Discrete(4),
               encoder_config=CnnNetConfig(channel_size=[64, 64], kernel_size=[3, 3], stride_size=[1, 1]))
randomise(net)
b = snap(net)
getattr(net, "encoder.remove_channel")(hidden_layer=1, numb_new_channels=16)
check("QNetwork(image).encoder.remove_channel(1, 16)", b, snap(net))

if bad:
    print("PROPERTY VIOLATED (C04): parameters present before and after a mutation were re-initialised:")
    for x in bad:
        print("  -", x)
    sys.exit(1)
print("ok: all same-named parameters kept their values on the common index range")
