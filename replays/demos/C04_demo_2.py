"""C04 demo 2: a mutation that leaves the architecture unchanged (a limit was reached) still changes the function the
network computes, because recreate_network() rebuilds the torch layers and preserve_parameters /
shrink_preserve_parameters copy named_parameters() only: the BatchNorm running statistics (buffers) learned so far
are replaced by zeros/ones.  In eval mode (used by get_action / test of DDPG, TD3, CQN, MADDPG, ...) the outputs differ."""
import sys
import numpy as np
import torch
from gymnasium import spaces

torch.set_num_threads(1)
from agilerl.modules.cnn import EvolvableCNN
from agilerl.modules.resnet import EvolvableResNet
from agilerl.networks.q_networks import QNetwork

torch.manual_seed(0)
np.random.seed(0)
bad = []


def train_a_bit(net, x):
    """Randomise the weights and let BatchNorm accumulate running statistics, as training does."""
    with torch.no_grad():
        for p in net.parameters():
            p.copy_(torch.randn_like(p) * 0.3)
    net.train()
    with torch.no_grad():
        for _ in range(5):
            net(x + torch.randn_like(x))
    net.eval()


def run(label, net, mutate, x):
    train_a_bit(net, x)
    shapes = {k: tuple(v.shape) for k, v in net.state_dict().items()}
    params = {k: v.detach().clone() for k, v in net.named_parameters()}
    with torch.no_grad():
        y0 = net(x)
    mutate(net)
    net.eval()
    assert shapes == {k: tuple(v.shape) for k, v in net.state_dict().items()}, "architecture was expected to stay the same"
    assert all(torch.equal(params[k], v) for k, v in net.named_parameters()), "parameters are identical"
    with torch.no_grad():
        y1 = net(x)
    if not torch.equal(y0, y1):
        bad.append(f"{label}: same architecture, same parameters, but max |y_after - y_before| = {(y0 - y1).abs().max().item():.4g}")


x = torch.rand(4, 3, 32, 32)

# (a) EvolvableCNN with layer_norm=True: add_channel at max_channel_size is a no-op on the architecture
run("EvolvableCNN(layer_norm=True).add_channel [max_channel_size reached]",
    EvolvableCNN([3, 32, 32], 5, [32, 32], [3, 3], [1, 1], layer_norm=True, max_channel_size=33),
    lambda n: n.add_channel(hidden_layer=0, numb_new_channels=8), x)

# (b) default image network: remove_latent_node when the minimum latent size would be crossed
run("QNetwork(image, default config).remove_latent_node [min_latent_dim reached]",
    QNetwork(spaces.Box(0, 1, (3, 32, 32)), spaces.Discrete(4), latent_dim=16, min_latent_dim=8),
    lambda n: n.remove_latent_node(numb_new_nodes=8), x)

# (c) default image network: head mutation on the encoder at its channel minimum (default min_channel_size=32 > 16)
run("QNetwork(image, default config).encoder.remove_channel [min_channel_size reached]",
    QNetwork(spaces.Box(0, 1, (3, 32, 32)), spaces.Discrete(4)),
    lambda n: getattr(n, "encoder.remove_channel")(hidden_layer=0, numb_new_channels=8), x)

# (d) EvolvableResNet (always has BatchNorm): remove_channel at min_channel_size
xr = torch.rand(4, 3, 16, 16)
run("EvolvableResNet.remove_channel [min_channel_size reached]",
    EvolvableResNet([3, 16, 16], 5, 32, 3, 1, 1, min_channel_size=32),
    lambda n: n.remove_channel(numb_new_channels=8), xr)

if bad:
    print("PROPERTY VIOLATED (C04): a mutation that left the architecture unchanged changed the computed function:")
    for b in bad:
        print("  -", b)
    sys.exit(1)
print("ok: no-op mutations leave the function unchanged")
