"""C04 demo 3: cloning the target network of a DQN agent yields a freshly initialised network.

DQN.init_hook() moves the weights of actor_target into a detached TensorDict (tensordict.to_module), after which
actor_target.parameters() and actor_target.state_dict() are EMPTY.  EvolvableModule.clone() rebuilds the module from
its init_dict and calls clone.load_state_dict(self.state_dict()); the resulting 'missing keys' RuntimeError is swallowed
by `except RuntimeError: pass`, so the clone silently keeps random weights.  EvolvableAlgorithm.clone() uses exactly
this call for every registered network, then the mutation hook overwrites the cloned target with the online network,
so every agent clone (tournament selection does one per generation) also loses the lagged target weights."""
import sys
import numpy as np
import torch
from gymnasium import spaces

torch.set_num_threads(1)
from agilerl.algorithms.dqn import DQN

torch.manual_seed(0)
np.random.seed(0)

agent = DQN(spaces.Box(-1, 1, (6,)), spaces.Discrete(4), tau=0.01)
x = torch.randn(8, 6)

# "train": move the online network away and let the target lag behind it through the real soft update
with torch.no_grad():
    for p in agent.actor.parameters():
        p.add_(torch.randn_like(p))
agent.soft_update()

target = agent.actor_target
bad = []
with torch.no_grad():
    y_target = target(x)
    y_actor = agent.actor(x)
    assert not torch.allclose(y_target, y_actor), "target is expected to lag behind the online network"

    clone = target.clone()
    y_clone = clone(x)
    if not torch.equal(y_clone, y_target):
        bad.append(
            f"actor_target.clone()(x) != actor_target(x): max abs diff {(y_clone - y_target).abs().max().item():.4g} "
            f"(state_dict of the target has {len(target.state_dict())} entries, parameters(): {len(list(target.parameters()))})"
        )

    # Consequence at agent level (informational, not part of the exit status: the hard re-sync done by the
    # mutation hook inside EvolvableAlgorithm.clone() is a separate, agent-level matter)
    agent2 = agent.clone()
    y2 = agent2.actor_target(x)
    note = (
        "agent.clone().actor_target(x) vs agent.actor_target(x): max abs diff "
        f"{(y2 - y_target).abs().max().item():.4g}; equals the ONLINE network instead: {torch.equal(y2, y_actor)}"
    )

if bad:
    print("PROPERTY VIOLATED (C04): cloning a network does not reproduce its outputs:")
    for b in bad:
        print("  -", b)
    print("  (consequence)", note)
    sys.exit(1)
print("ok: the cloned target network reproduces the target's outputs")
