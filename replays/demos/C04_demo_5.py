"""C04 demo 5: EvolvableDistribution.clone() (the head of every StochasticActor) drops what was learned.

clone() builds a new EvolvableDistribution around wrapped.clone() but (i) never copies the learned `log_std` parameter,
which restarts at action_std_init, and (ii) does not forward `squash_output`, so a squashing head becomes non-squashing."""
import sys
import numpy as np
import torch
from gymnasium import spaces

torch.set_num_threads(1)
from agilerl.modules.mlp import EvolvableMLP
from agilerl.networks.distributions import EvolvableDistribution

torch.manual_seed(0)
np.random.seed(0)

box = spaces.Box(-1, 1, (3,))
head = EvolvableDistribution(box, EvolvableMLP(8, 3, [32]), action_std_init=0.0, squash_output=True)
with torch.no_grad():
    for p in head.parameters():
        p.copy_(torch.randn_like(p))  # "training": log_std is now != 0

clone = head.clone()
latent = torch.randn(5, 8)
bad = []
if not torch.equal(head.log_std, clone.log_std):
    bad.append(f"log_std not reproduced: original {head.log_std.flatten().tolist()} vs clone {clone.log_std.flatten().tolist()}")
if head.squash_output != clone.squash_output:
    bad.append(f"squash_output not reproduced: original {head.squash_output} vs clone {clone.squash_output}")
torch.manual_seed(1)
a0, lp0, _ = head(latent)
torch.manual_seed(1)
a1, lp1, _ = clone(latent)
if not torch.equal(a0, a1) or not torch.equal(lp0, lp1):
    bad.append(f"same latent, same RNG seed: actions differ by up to {(a0 - a1).abs().max().item():.4g}, "
               f"log-probs by up to {(lp0 - lp1).abs().max().item():.4g}")

if bad:
    print("PROPERTY VIOLATED (C04): EvolvableDistribution.clone() does not reproduce the module:")
    for b in bad:
        print("  -", b)
    sys.exit(1)
print("ok")
