"""C04 demo 6: an EvolvableResNet (and any network using encoder_cls="ResNet"-style custom encoders) cannot be cloned
after add_channel()/remove_channel() was called the way Mutations calls it (no arguments): the sampled increment is a
numpy integer, channel_size becomes np.int64 and the constructor's `assert isinstance(channel_size, int)` rejects the
clone's own init_dict.  So the clone-and-mutate chain  mutate -> clone  stops with an AssertionError."""
import sys
import numpy as np
import torch

torch.set_num_threads(1)
from agilerl.modules.resnet import EvolvableResNet

torch.manual_seed(0)
np.random.seed(0)
net = EvolvableResNet([3, 16, 16], 5, channel_size=48, kernel_size=3, stride_size=1, num_blocks=1, min_channel_size=8)
x = torch.rand(2, 3, 16, 16)
net.eval()
bad = []
for meth in ["add_channel", "remove_channel"]:
    getattr(net, meth)()  # default arguments, as Mutations._apply_arch_mutation does for the policy network
    try:
        clone = net.clone()
        clone.eval()
        net.eval()          # the rebuilt sub-modules of `net` come back in training mode; compare like with like
        with torch.no_grad():
            if not torch.equal(net(x), clone(x)):
                bad.append(f"after {meth}(): clone output differs")
    except Exception as e:  # noqa
        bad.append(f"after {meth}(): clone() raised {type(e).__name__}: {e} (channel_size is {type(net.channel_size).__name__})")

if bad:
    print("PROPERTY VIOLATED (C04): a mutated EvolvableResNet cannot be cloned:")
    for b in bad:
        print("  -", b)
    sys.exit(1)
print("ok")
