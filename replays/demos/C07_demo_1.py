"""C07 demo 1: DQN checkpoints drop the target network.

DQN.init_hook() swaps the target network's parameters for detached tensors that
live outside nn.Module._parameters, so actor_target.state_dict() is EMPTY.  The
checkpoint therefore contains no target weights, and on restore the mutation hook
copies the *freshly constructed, randomly initialised* actor into the target
before the saved actor weights are loaded.  The restored target is random noise
instead of the lagging copy, so TD targets (and all further learning) differ.

Exits 1 on the defect, 0 if the property holds.
"""
import os, sys, tempfile, warnings
warnings.filterwarnings("ignore")
import numpy as np, torch
torch.set_num_threads(1)
from gymnasium import spaces
from tensordict import TensorDict
from agilerl.algorithms.dqn import DQN

obs_space = spaces.Box(-1, 1, (4,), dtype=np.float32)
act_space = spaces.Discrete(3)

def batch(seed, n=16):
    g = torch.Generator().manual_seed(seed)
    return TensorDict({
        "obs": torch.randn(n, 4, generator=g),
        "action": torch.randint(0, 3, (n, 1), generator=g),
        "reward": torch.randn(n, 1, generator=g),
        "next_obs": torch.randn(n, 4, generator=g),
        "done": torch.zeros(n, 1)}, batch_size=[n])

torch.manual_seed(0)
agent = DQN(obs_space, act_space, lr=1e-2, tau=0.05)
for i in range(5):                      # history: target now lags behind the actor
    agent.learn(batch(i))

path = os.path.join(tempfile.mkdtemp(), "dqn.pt")
agent.save_checkpoint(path)

ckpt = torch.load(path, pickle_module=__import__("dill"), weights_only=False)
print("saved actor_target state_dict entries:", len(ckpt["network_info"]["modules"]["actor_target_state_dict"]))

restored = {"DQN.load": DQN.load(path)}
torch.manual_seed(123)
inplace = DQN(obs_space, act_space)
inplace.load_checkpoint(path)
restored["load_checkpoint"] = inplace

x = torch.randn(8, 4, generator=torch.Generator().manual_seed(9))
failures = []
with torch.no_grad():
    q_t = agent.actor_target(x)
for name, r in restored.items():
    with torch.no_grad():
        same_actor = torch.equal(agent.actor(x), r.actor(x))
        same_target = torch.equal(q_t, r.actor_target(x))
    print(f"{name}: actor equal={same_actor}, target equal={same_target}, "
          f"max |dQ_target|={float((q_t - r.actor_target(x)).abs().max()):.4f}")
    if not same_actor: failures.append(f"{name}: actor weights differ")
    if not same_target: failures.append(f"{name}: target network was not restored")

# continue learning on identical batches
for i in range(100, 103):
    agent.learn(batch(i))
for name, r in restored.items():
    for i in range(100, 103):
        r.learn(batch(i))
    sa, sr = agent.actor.state_dict(), r.actor.state_dict()
    diverged = [k for k in sa if not torch.equal(sa[k], sr[k])]
    print(f"{name}: after 3 more identical learn steps {len(diverged)}/{len(sa)} actor tensors differ")
    if diverged: failures.append(f"{name}: learning diverges after restore")

if failures:
    print("DEFECT:", "; ".join(failures)); sys.exit(1)
print("OK"); sys.exit(0)
