"""C07 demo 2: a restored NeuralUCB / NeuralTS bandit cannot act (and would learn differently).

`exp_layer` (the actor's output nn.Linear) and `theta_0` are ordinary public attributes,
so get_checkpoint_dict() pickles them.  Both load paths first run the `init_params`
mutation hook (which correctly points exp_layer at the rebuilt actor's output layer) and
then overwrite it with the un-pickled copy from the checkpoint: a dead nn.Linear that is
not part of the restored actor.  get_action() reads `w.grad` of exp_layer's parameters
after back-propagating through the actor -> the grads are None -> AttributeError.
learn() regularises the dead copy instead of the actor's output layer.

Exits 1 on the defect, 0 if the property holds.
"""
import os, sys, tempfile, warnings
warnings.filterwarnings("ignore")
import numpy as np, torch
torch.set_num_threads(1)
from gymnasium import spaces
from tensordict import TensorDict
from agilerl.algorithms.neural_ucb_bandit import NeuralUCB
from agilerl.algorithms.neural_ts_bandit import NeuralTS

obs_space = spaces.Box(-1, 1, (4,), dtype=np.float32)
act_space = spaces.Discrete(3)
ctx = np.random.RandomState(0).randn(3, 4).astype(np.float32)   # one context per arm

def batch(seed, n=16):
    g = torch.Generator().manual_seed(seed)
    return TensorDict({"obs": torch.randn(n, 4, generator=g),
                       "reward": torch.randn(n, 1, generator=g)}, batch_size=[n])

def step(agent, seed):
    torch.manual_seed(seed); np.random.seed(seed)
    a = agent.get_action(ctx)
    agent.learn(batch(seed))
    return int(a)

failures = []
for cls in (NeuralUCB, NeuralTS):
    torch.manual_seed(0); np.random.seed(0)
    agent = cls(obs_space, act_space, lr=1e-2)
    for i in range(3):
        step(agent, i)
    path = os.path.join(tempfile.mkdtemp(), "bandit.pt")
    agent.save_checkpoint(path)

    restored = {f"{cls.__name__}.load": cls.load(path)}
    inplace = cls(obs_space, act_space)
    inplace.load_checkpoint(path)
    restored[f"{cls.__name__}.load_checkpoint"] = inplace

    ref_actions = [step(agent, s) for s in range(20, 23)]
    for name, r in restored.items():
        owns = r.exp_layer is r.actor.get_output_dense()
        print(f"{name}: exp_layer is the restored actor's output layer: {owns} "
              f"(original: {agent.exp_layer is agent.actor.get_output_dense()})")
        if not owns:
            failures.append(f"{name}: exp_layer is a detached copy")
        try:
            acts = [step(r, s) for s in range(20, 23)]
        except Exception as e:
            print(f"{name}: get_action/learn after restore raised {type(e).__name__}: {e}")
            failures.append(f"{name}: restored agent cannot act ({type(e).__name__})")
            continue
        if acts != ref_actions:
            failures.append(f"{name}: actions differ {acts} vs {ref_actions}")
        sa, sr = agent.actor.state_dict(), r.actor.state_dict()
        diverged = [k for k in sa if not torch.equal(sa[k], sr[k])]
        if diverged:
            failures.append(f"{name}: {len(diverged)}/{len(sa)} actor tensors differ after identical steps")

if failures:
    print("DEFECT:", "; ".join(failures)); sys.exit(1)
print("OK"); sys.exit(0)
