"""C07 demo 3: an activation mutation on a Dict/Tuple-observation agent is lost by the checkpoint.

Mutations.activation_mutation -> EvolvableNetwork.change_activation calls
encoder.change_activation(act, output=True).  EvolvableMultiInput.change_activation
replaces the live output layer (`self.output = get_activation(act)`) but never updates
`self.output_activation`, the value reported by init_dict.  The checkpoint stores
init_dict, so both load paths rebuild the encoder with the *constructor* output
activation (Identity) while the original applies the mutated one: same weights,
different function -> different Q-values, greedy actions and learning trajectory.
(Also reproduced with DQN and RainbowDQN, and with Tuple observations.)

Exits 1 on the defect, 0 if the property holds.
"""
import os, sys, tempfile, warnings
warnings.filterwarnings("ignore")
import numpy as np, torch
torch.set_num_threads(1)
from gymnasium import spaces
from agilerl.algorithms.cqn import CQN
from agilerl.hpo.mutation import Mutations

obs_space = spaces.Dict({"vec": spaces.Box(-1, 1, (4,), dtype=np.float32),
                         "img": spaces.Box(0, 1, (3, 16, 16), dtype=np.float32)})
act_space = spaces.Discrete(3)

def obs_batch(seed, n):
    g = torch.Generator().manual_seed(seed)
    return {"vec": torch.rand(n, 4, generator=g) * 2 - 1, "img": torch.rand(n, 3, 16, 16, generator=g)}

def batch(seed, n=16):
    g = torch.Generator().manual_seed(1000 + seed)
    return (obs_batch(seed, n), torch.randint(0, 3, (n, 1), generator=g), torch.randn(n, 1, generator=g),
            obs_batch(seed + 500, n), torch.zeros(n, 1))

torch.manual_seed(0); np.random.seed(0)
agent = CQN(obs_space, act_space, lr=1e-2)
for i in range(2):
    agent.learn(batch(i))

muts = Mutations(no_mutation=0, architecture=0, new_layer_prob=0.5, parameters=0,
                 activation=1, rl_hp=0, activation_selection=["Tanh", "ELU"], rand_seed=0)
agent = muts.mutation([agent])[0]            # history: one activation mutation
print("mutation applied:", agent.mut, "-> actor activation", agent.actor.activation)
agent.learn(batch(5))

path = os.path.join(tempfile.mkdtemp(), "cqn.pt")
agent.save_checkpoint(path)

restored = {"CQN.load": CQN.load(path)}
inplace = CQN(obs_space, act_space)
inplace.load_checkpoint(path)
restored["load_checkpoint"] = inplace

probe = obs_batch(77, 64)
probe_np = {k: v.numpy() for k, v in probe.items()}
failures = []
# weights / buffers are compared before any probing forward pass (the CNN has batch-norm buffers)
same_weights = {}
for name, r in restored.items():
    sa, sr = agent.actor.state_dict(), r.actor.state_dict()
    same_weights[name] = list(sa) == list(sr) and all(torch.equal(sa[k], sr[k]) for k in sa)
with torch.no_grad():
    q = agent.actor(probe)
greedy = agent.get_action(probe_np, epsilon=0.0)
for name, r in restored.items():
    same_w = same_weights[name]
    with torch.no_grad():
        qr = r.actor(probe)
    g = r.get_action(probe_np, epsilon=0.0)
    print(f"{name}: weights equal={same_w}; encoder output layer original={agent.actor.encoder.output} "
          f"restored={r.actor.encoder.output}; max|dQ|={float((q - qr).abs().max()):.4f}; "
          f"greedy actions differing: {int((greedy != g).sum())}/{len(g)}")
    if not torch.equal(q, qr):
        failures.append(f"{name}: same weights but different Q-values (encoder output activation "
                        f"{agent.actor.encoder.output} vs {r.actor.encoder.output})")
    if (greedy != g).any():
        failures.append(f"{name}: greedy actions differ")

agent.learn(batch(50))
for name, r in restored.items():
    r.learn(batch(50))
    sa, sr = agent.actor.state_dict(), r.actor.state_dict()
    diverged = [k for k in sa if not torch.equal(sa[k], sr[k])]
    if diverged:
        failures.append(f"{name}: {len(diverged)}/{len(sa)} actor tensors differ after one identical learn step")

if failures:
    print("DEFECT:", "; ".join(failures)); sys.exit(1)
print("OK"); sys.exit(0)
