"""C07 demo 4 (secondary): activation mutation on a MakeEvolvable custom network is mis-recorded.

MakeEvolvable.change_activation only sets `self.mlp_activation`; unlike every other
evolvable module it does not rebuild the live network.  After an activation mutation the
running actor still applies the OLD activation while init_dict (what the checkpoint stores)
already reports the NEW one, so both load paths rebuild an actor that computes a different
function from identical weights.

Exits 1 on the defect, 0 if the property holds.
"""
import os, sys, tempfile, warnings
warnings.filterwarnings("ignore")
import numpy as np, torch, torch.nn as nn
torch.set_num_threads(1)
from gymnasium import spaces
from agilerl.algorithms.cqn import CQN
from agilerl.hpo.mutation import Mutations
from agilerl.wrappers.make_evolvable import MakeEvolvable

class Net(nn.Module):
    def __init__(self):
        super().__init__()
        self.l1 = nn.Linear(4, 20); self.a = nn.ReLU(); self.l2 = nn.Linear(20, 3)
    def forward(self, x):
        return self.l2(self.a(self.l1(x)))

obs_space = spaces.Box(-1, 1, (4,), dtype=np.float32)
act_space = spaces.Discrete(3)

def batch(seed, n=16):
    g = torch.Generator().manual_seed(seed)
    return (torch.randn(n, 4, generator=g), torch.randint(0, 3, (n, 1), generator=g),
            torch.randn(n, 1, generator=g), torch.randn(n, 4, generator=g), torch.zeros(n, 1))

torch.manual_seed(0); np.random.seed(0)
agent = CQN(obs_space, act_space, lr=1e-2,
            actor_network=MakeEvolvable(Net(), torch.zeros(1, 4), device="cpu"))
agent.learn(batch(0))
muts = Mutations(no_mutation=0, architecture=0, new_layer_prob=0.5, parameters=0,
                 activation=1, rl_hp=0, activation_selection=["Tanh", "ELU"], rand_seed=0)
agent = muts.mutation([agent])[0]
print("mutation:", agent.mut, "| init_dict activation:", agent.actor.init_dict["mlp_activation"],
      "| live layers:", [type(m).__name__ for m in agent.actor.feature_net])
agent.learn(batch(1))

path = os.path.join(tempfile.mkdtemp(), "cqn.pt")
agent.save_checkpoint(path)
restored = {"CQN.load": CQN.load(path)}
inplace = CQN(obs_space, act_space, actor_network=MakeEvolvable(Net(), torch.zeros(1, 4), device="cpu"))
inplace.load_checkpoint(path)
restored["load_checkpoint"] = inplace

x = torch.randn(64, 4, generator=torch.Generator().manual_seed(5))
failures = []
for name, r in restored.items():
    sa, sr = agent.actor.state_dict(), r.actor.state_dict()
    same_w = list(sa) == list(sr) and all(torch.equal(sa[k], sr[k]) for k in sa)
    with torch.no_grad():
        qa, qr = agent.actor(x), r.actor(x)
    ga, gr = agent.get_action(x.numpy(), epsilon=0.0), r.get_action(x.numpy(), epsilon=0.0)
    print(f"{name}: weights equal={same_w}, live layers={[type(m).__name__ for m in r.actor.feature_net]}, "
          f"max|dQ|={float((qa - qr).abs().max()):.4f}, greedy differing {int((ga != gr).sum())}/64")
    if not torch.equal(qa, qr):
        failures.append(f"{name}: identical weights, different Q-values")
if failures:
    print("DEFECT:", "; ".join(failures)); sys.exit(1)
print("OK"); sys.exit(0)
