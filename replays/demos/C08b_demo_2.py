"""C08 demo 2: Rainbow DQN with prioritised replay does not minimise mean_i(w_i * l_i).

PrioritizedReplayBuffer.sample() returns the importance-sampling weights as a column,
shape (B, 1).  RainbowDQN._dqn_loss() returns the per-sample loss with shape (B,).
learn(per=True) computes ``torch.mean(elementwise_loss * weights)``: (B,) * (B, 1)
broadcasts silently to (B, B), so the quantity that is minimised is
mean(l) * mean(w) -- every transition gets the same weight mean(w) and the per-sample
importance correction of prioritised replay is lost.

Exit 1 on the defect, 0 if the loss is the importance-weighted mean.
"""
import sys

import numpy as np
import torch
from gymnasium import spaces
from tensordict import TensorDict

torch.set_num_threads(2)
from agilerl.algorithms.dqn_rainbow import RainbowDQN  # noqa: E402
from agilerl.components.replay_buffer import PrioritizedReplayBuffer  # noqa: E402

obs_space = spaces.Box(-1, 1, (4,), np.float32)
act_space = spaces.Discrete(3)
B = 8
torch.manual_seed(0)
np.random.seed(0)

agent = RainbowDQN(obs_space, act_space, batch_size=B, lr=1e-3, gamma=0.9, v_min=-5, v_max=5)

# Fill the real prioritised buffer exactly as train_off_policy does (one row per add)
buf = PrioritizedReplayBuffer(max_size=64, alpha=0.6)
for _ in range(40):
    buf.add(
        TensorDict(
            {
                "obs": torch.randn(1, 4),
                "action": torch.randint(0, 3, (1,)),
                "reward": torch.randn(1) * 2,
                "next_obs": torch.randn(1, 4),
                "done": torch.randint(0, 2, (1,)).float(),
            },
            batch_size=[1],
        )
    )
# heterogeneous priorities -> heterogeneous importance weights
buf.update_priorities(torch.arange(40), torch.logspace(-2, 1, 40))
experiences = buf.sample(B, beta=1.0)
w = experiences["weights"]
print("shapes from PrioritizedReplayBuffer.sample: weights", tuple(w.shape),
      "reward", tuple(experiences["reward"].shape))
print("importance weights:", [round(v, 3) for v in w.flatten().tolist()])

# Per-sample loss with the agent's current weights and current noise (noise is only
# resampled by reset_noise() at the end of learn(), so this is what learn() will see)
with torch.no_grad():
    el = agent._dqn_loss(
        experiences["obs"], experiences["action"], experiences["reward"],
        experiences["next_obs"], experiences["done"], agent.gamma,
    )
assert el.shape == (B,)
defined = (el * w.reshape(-1)).mean().item()          # PER: mean_i w_i * l_i
collapsed = (el.mean() * w.mean()).item()             # what (B,)*(B,1) -> (B,B) gives

loss, idxs, prios = agent.learn(experiences, per=True)
print(f"per-sample losses: {[round(v, 3) for v in el.tolist()]}")
print(f"loss returned by learn(per=True): {loss:.6f}")
print(f"importance-weighted mean  mean_i(w_i*l_i): {defined:.6f}")
print(f"mean(l) * mean(w)  (outer-product mean):   {collapsed:.6f}")

# Second, blunt check: put all the weight on one transition.  The loss must then be
# l_0 / B; the current code returns mean(l) / B.
agent2 = RainbowDQN(obs_space, act_space, batch_size=B, lr=1e-3, gamma=0.9, v_min=-5, v_max=5)
exp2 = experiences.clone()
one_hot = torch.zeros(B, 1)
one_hot[0] = 1.0
exp2["weights"] = one_hot
with torch.no_grad():
    el2 = agent2._dqn_loss(exp2["obs"], exp2["action"], exp2["reward"], exp2["next_obs"], exp2["done"], agent2.gamma)
loss2, _, _ = agent2.learn(exp2, per=True)
print(f"weights = e_0: learn() returned {loss2:.6f}; l_0/B = {el2[0].item() / B:.6f}; mean(l)/B = {el2.mean().item() / B:.6f}")

# Third check, on the update itself: with weight 1 on transition 0 and weight 0 on all others,
# the other transitions must not influence the gradient step at all.
agent3 = RainbowDQN(obs_space, act_space, batch_size=B, lr=1e-2, gamma=0.9, v_min=-5, v_max=5)
agent4 = agent3.clone()
exp3 = exp2.clone()
exp4 = exp2.clone()
exp4["obs"][5] = exp4["obs"][5] + 3.0          # a transition whose importance weight is 0
exp4["reward"][5] = -exp4["reward"][5] + 2.0
agent3.learn(exp3, per=True)
agent4.learn(exp4, per=True)
p3 = dict(agent3.actor.named_parameters())
p4 = dict(agent4.actor.named_parameters())
upd_diff = max((p3[k] - p4[k]).abs().max().item() for k in p3)
print(f"weights = e_0: max difference of the updated online weights when a zero-weight transition is changed: {upd_diff:.3e}")

bad = []
if upd_diff > 1e-7:
    bad.append(f"a transition with importance weight 0 changed the gradient step (max weight diff {upd_diff:.3e})")
if abs(loss - defined) > 1e-5 * max(1.0, abs(defined)):
    bad.append(f"learn(per=True) minimised {loss:.6f}, the importance-weighted loss is {defined:.6f} "
               f"(it equals mean(l)*mean(w) = {collapsed:.6f})")
if abs(loss2 - el2[0].item() / B) > 1e-5:
    bad.append(f"with all weight on transition 0 the loss is {loss2:.6f}, expected l_0/B = {el2[0].item() / B:.6f}")
if bad:
    print("\nDEFECT:")
    for b in bad:
        print(" -", b)
    sys.exit(1)
print("OK")
sys.exit(0)
