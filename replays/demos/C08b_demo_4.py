"""C08 demo 4: DDPG.learn / TD3.learn overwrite the caller's action tensor with noise.

Both learners draw the target-policy smoothing noise with

    noise = actions.data.normal_(0, policy_noise)

``normal_`` is in place and ``actions`` is the very tensor held in the experiences
TensorDict (``experiences["action"]``; ``.to(self.device)`` is a no-op on the same
device).  After one learn step the batch's actions ARE the noise.  Any second learn step
on the same batch (several gradient steps per sampled batch, a fixed offline batch, a
dataloader that hands out views) regresses Q(s, noise) instead of Q(s, a): the critic
loss is no longer the Bellman error of the transitions it was given.

Exit 1 on the defect, 0 if learn() leaves its input intact and the second step on the
same batch minimises the Bellman error of the original transitions.
"""
import sys

import numpy as np
import torch
from gymnasium import spaces
from tensordict import TensorDict

torch.set_num_threads(2)
from agilerl.algorithms.ddpg import DDPG  # noqa: E402
from agilerl.algorithms.td3 import TD3  # noqa: E402

obs_space = spaces.Box(-1, 1, (4,), np.float32)
act_space = spaces.Box(-1, 1, (2,), np.float32)
B = 16


def make_batch():
    g = torch.Generator().manual_seed(0)
    return TensorDict(
        {
            "obs": torch.randn(B, 4, generator=g),
            "action": torch.rand(B, 2, generator=g) * 2 - 1,
            "reward": torch.randn(B, 1, generator=g),
            "next_obs": torch.randn(B, 4, generator=g),
            "done": torch.zeros(B, 1),
        },
        batch_size=[B],
    )


bad = []
for cls in (DDPG, TD3):
    torch.manual_seed(0)
    a = cls(obs_space, act_space, share_encoders=False, lr_critic=1e-3, policy_freq=2)
    ref = a.clone()

    batch = make_batch()
    pristine = make_batch()

    # agent `a` re-uses one batch object, agent `ref` gets a fresh copy each time
    torch.manual_seed(1)
    a.learn(batch)
    changed = (batch["action"] - pristine["action"]).abs().max().item()
    torch.manual_seed(2)
    _, critic_loss_reused = a.learn(batch)

    torch.manual_seed(1)
    ref.learn(pristine.clone())
    torch.manual_seed(2)
    _, critic_loss_ref = ref.learn(pristine.clone())

    print(f"{cls.__name__}: max |action_after_learn - action_before| in the caller's batch = {changed:.3f}")
    print(f"{cls.__name__}: critic loss of 2nd learn step on the same batch: {critic_loss_reused:.6f}; "
          f"Bellman loss of those transitions (fresh copy of the batch): {critic_loss_ref:.6f}")
    if changed > 0:
        bad.append(f"{cls.__name__}.learn overwrote experiences['action'] in place (max change {changed:.3f})")
    if abs(critic_loss_reused - critic_loss_ref) > 1e-6:
        bad.append(f"{cls.__name__}: second learn step on the same batch minimised {critic_loss_reused:.6f}, "
                   f"not the Bellman error {critic_loss_ref:.6f}")

if bad:
    print("\nDEFECT:")
    for b in bad:
        print(" -", b)
    sys.exit(1)
print("OK")
sys.exit(0)
