"""C08 demo 5 (adjacent, lives in the buffer): n-step targets of Rainbow DQN with vectorised envs.

RainbowDQN.learn() bootstraps every n-step sample with ``n_gamma = gamma ** n_step``
(dqn_rainbow.py, learn()).  That is only the Bellman n-step target if every sample with
done == 0 really spans n steps.  MultiStepReplayBuffer._get_n_step_info() receives one
row per environment (train_off_policy adds ``num_envs`` rows per call) but decides when to
stop accumulating with ``done.bool().any()`` / ``first_transition[done].bool().any()``,
i.e. across ALL environments.  As soon as one environment terminates inside the window,
the windows of all other (still running) environments are cut short too: they are stored
with a k<n step reward, the k-step next_obs and done == 0, and the learner then discounts
the bootstrap value with gamma**n instead of gamma**k.

Exit 1 on the defect, 0 if every stored non-terminal sample spans exactly n steps (or the
terminal flag is set).
"""
import sys

import torch
from tensordict import TensorDict

torch.set_num_threads(2)
from agilerl.components.replay_buffer import MultiStepReplayBuffer  # noqa: E402

n_step, gamma, num_envs = 3, 0.5, 2
buf = MultiStepReplayBuffer(max_size=32, n_step=n_step, gamma=gamma)

# obs of env e at time t is [t] (so the horizon of a stored sample can be read off
# next_obs - obs); every reward is 1; env 1 terminates at t=1, env 0 never terminates.
T = 6
for t in range(T):
    done = torch.tensor([0.0, 1.0 if t == 1 else 0.0])
    buf.add(
        TensorDict(
            {
                "obs": torch.full((num_envs, 1), float(t)),
                "action": torch.zeros(num_envs, 1),
                "reward": torch.ones(num_envs),
                "next_obs": torch.full((num_envs, 1), float(t + 1)),
                "done": done,
            },
            batch_size=[num_envs],
        )
    )

store = buf.storage[: len(buf)]
n_gamma = gamma**n_step  # what RainbowDQN.learn uses for every n-step sample
bad = []
print("env  t  stored_reward  horizon(next_obs-obs)  done   target with V(s')=1 as learnt | as defined")
for i in range(len(buf)):
    env = i % num_envs
    if env != 0:
        continue  # look at the environment that never terminates
    obs = store["obs"][i].item()
    horizon = int(store["next_obs"][i].item() - obs)
    rew = store["reward"][i].item()
    done = store["done"][i].item()
    learnt = rew + (1 - done) * n_gamma * 1.0
    defined = sum(gamma**k for k in range(horizon)) + (1 - done) * gamma**horizon * 1.0
    print(f" {env}   {int(obs)}     {rew:.3f}            {horizon}                 {done:.0f}        {learnt:.4f} | {defined:.4f}")
    if done == 0 and horizon != n_step:
        bad.append(
            f"env 0, t={int(obs)}: stored a {horizon}-step sample with done=0; RainbowDQN bootstraps it with "
            f"gamma**{n_step}={n_gamma} instead of gamma**{horizon}={gamma**horizon} "
            f"(target {learnt:.4f} instead of {defined:.4f})"
        )

if bad:
    print("\nDEFECT:")
    for b in bad:
        print(" -", b)
    sys.exit(1)
print("OK")
sys.exit(0)
