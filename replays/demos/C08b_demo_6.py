"""C08 demo 6 (minor): MADDPG / MATD3 targets depend on the KEY ORDER of the experience dicts.

learn() builds the centralised critic inputs with

    stacked_states      = stack_critic_observations(states)        # list(obs.values())
    stacked_next_states = stack_critic_observations(next_states)   # list(obs.values())
    stacked_actions     = torch.cat(list(actions.values()), dim=1) # dict order
    stacked_next_actions= torch.cat(next_actions, dim=1)           # self.agent_ids order

so the next actions are always concatenated in ``self.agent_ids`` order while states,
next states and actions follow the insertion order of the dicts that were passed in.
Two batches that are equal as agent-id -> tensor mappings give different losses, and in
the permuted case Q_target sees (s'_1, s'_0, a'_0, a'_1): agent 0's next action is
paired with agent 1's slot.  The same happens if a MultiAgentReplayBuffer is created with
the agent ids in another order than the algorithm (same-shaped agents: no error).

Exit 1 on the defect, 0 if the loss only depends on the mapping.
"""
import sys

import numpy as np
import torch
from gymnasium import spaces

torch.set_num_threads(2)
from agilerl.algorithms.maddpg import MADDPG  # noqa: E402
from agilerl.algorithms.matd3 import MATD3  # noqa: E402

ids = ["agent_0", "agent_1"]
obs_spaces = [spaces.Box(-1, 1, (4,), np.float32) for _ in ids]
act_spaces = [spaces.Box(-1, 1, (2,), np.float32) for _ in ids]
B = 16


def make_batch(order):
    g = torch.Generator().manual_seed(0)
    base = {
        a: (
            torch.randn(B, 4, generator=g),
            torch.rand(B, 2, generator=g) * 2 - 1,
            torch.randn(B, 1, generator=g),
            torch.randn(B, 4, generator=g),
            torch.zeros(B, 1),
        )
        for a in ids
    }
    return tuple({a: base[a][i].clone() for a in order} for i in range(5))


bad = []
for cls in (MADDPG, MATD3):
    torch.manual_seed(0)
    a1 = cls(obs_spaces, act_spaces, ids)
    a2 = a1.clone()
    l1 = a1.learn(make_batch(ids))
    l2 = a2.learn(make_batch(ids[::-1]))  # same mapping, keys inserted in reverse order
    c1 = {k: v[1] for k, v in l1.items()}
    c2 = {k: v[1] for k, v in l2.items()}
    print(f"{cls.__name__}: critic losses, keys in agent_ids order: {c1}")
    print(f"{cls.__name__}: critic losses, keys in reverse order:   {c2}")
    if any(abs(c1[k] - c2[k]) > 1e-6 for k in c1):
        bad.append(f"{cls.__name__}: critic loss changes with the key order of the experience dicts: {c1} vs {c2}")

if bad:
    print("\nDEFECT:")
    for b in bad:
        print(" -", b)
    sys.exit(1)
print("OK")
sys.exit(0)
