"""C09 demo 1: MultiAgentReplayBuffer.save_to_memory(..., is_vectorised=True) with dict / tuple
observations stores the wrong number of transitions (or raises), because _reorganize_dicts takes the
number of environments from len() of the first agent's observation - which for a dict/tuple
observation is the number of sub-spaces, not the number of environments."""
import sys
import numpy as np
from agilerl.components.multi_agent_replay_buffer import MultiAgentReplayBuffer

agents = ["a0", "a1"]
fields = ["state", "action", "reward", "next_state", "done"]
failures = []


def obs(kind, num_envs, off):
    out = {}
    for ai, a in enumerate(agents):
        ids = np.arange(num_envs, dtype=np.float32) + 100 * ai + off  # env e -> value e (+agent offset)
        x = np.repeat(ids[:, None], 3, axis=1)          # (num_envs, 3)
        y = ids[:, None].copy()                         # (num_envs, 1)
        out[a] = {"x": x, "y": y} if kind == "dict" else (x, y)
    return out


def run(kind, num_envs):
    buf = MultiAgentReplayBuffer(100, fields, agents)
    st, ns = obs(kind, num_envs, 0), obs(kind, num_envs, 0.5)
    act = {a: np.arange(num_envs, dtype=np.float32)[:, None] for a in agents}
    rew = {a: np.arange(num_envs, dtype=np.float32) for a in agents}
    dn = {a: np.zeros(num_envs, dtype=bool) for a in agents}
    try:
        buf.save_to_memory(st, act, rew, ns, dn, is_vectorised=True)
    except Exception as e:  # noqa
        failures.append(f"{kind} obs, num_envs={num_envs}: raised {type(e).__name__}: {e}")
        return
    if len(buf) != num_envs:
        stored = [float(e.reward["a0"]) for e in buf.memory]
        failures.append(
            f"{kind} obs, num_envs={num_envs}: len(buffer)={len(buf)} (expected {num_envs}); "
            f"stored env indices {stored} - the rest were silently dropped"
        )
        return
    # content check through sample
    s, a_, r, n_, d = buf.sample(num_envs)
    for ai, a in enumerate(agents):
        leaves = list(s[a].values()) if kind == "dict" else list(s[a])
        for leaf in leaves:
            if not np.allclose(leaf.numpy()[:, 0], r[a].numpy()[:, 0] + 100 * ai):
                failures.append(f"{kind} obs, num_envs={num_envs}: state/reward misaligned for {a}")


for kind in ("dict", "tuple"):      # both have 2 sub-spaces
    for num_envs in (1, 2, 3, 4):
        run(kind, num_envs)

if failures:
    print("PROPERTY VIOLATED (vectorised add must store exactly one transition per environment):")
    for f in failures:
        print("  -", f)
    sys.exit(1)
print("ok")
