"""C09 demo 2: MultiStepReplayBuffer.clear() (inherited from ReplayBuffer) empties the ring storage but
leaves the pending n-step window (self.n_step_buffer) untouched. The first transition added after
clear() is therefore fused with transitions added BEFORE the clear, and the buffer immediately reports
length 1 holding a transition whose obs/action come from the pre-clear history."""
import sys
import numpy as np
from agilerl.components.replay_buffer import MultiStepReplayBuffer
from agilerl.components.data import Transition


def tr(tag):
    t = Transition(
        obs=np.full(3, tag, dtype=np.float32),
        action=tag,
        reward=float(tag),
        next_obs=np.full(3, tag + 0.5, dtype=np.float32),
        done=False,
    ).unsqueeze(0).to_tensordict()
    t.batch_size = [1]
    return t


N_STEP = 3
buf = MultiStepReplayBuffer(max_size=8, n_step=N_STEP, gamma=0.5)
for tag in (1, 2, 3):           # old history: fills the n-step window, stores one fused transition
    buf.add(tr(tag))
assert len(buf) == 1

buf.clear()
problems = []
if len(buf) != 0:
    problems.append(f"len after clear() = {len(buf)}")
if len(buf.n_step_buffer) != 0:
    problems.append(
        f"clear() left {len(buf.n_step_buffer)} pre-clear transitions in the n-step window "
        f"(obs tags {[float(t['obs'][0, 0]) for t in buf.n_step_buffer]})"
    )

# New history after clear(): a single transition tagged 10.
ret = buf.add(tr(10))
# A freshly cleared n-step buffer must need N_STEP additions before it stores anything.
if len(buf) != 0:
    row = buf.storage[0]
    problems.append(
        f"after clear() + ONE add the buffer reports len={len(buf)} (expected 0) and holds a transition with "
        f"obs tag {row['obs'][0].item()} / action {row['action'].item()} (pre-clear data), "
        f"reward {row['reward'].item()} (= 2 + 0.5*3 + 0.25*10, mixes old and new rewards), "
        f"next_obs tag {row['next_obs'][0].item()} (post-clear data)"
    )
if ret is not None:
    problems.append(
        f"add() after clear() returned a 1-step transition with obs tag {float(ret['obs'][0, 0])} "
        "(a pre-clear transition; train_off_policy would push it into the paired 1-step buffer)"
    )

if problems:
    print("PROPERTY VIOLATED (after clear() the buffer must only contain transitions added afterwards):")
    for p in problems:
        print("  -", p)
    sys.exit(1)
print("ok")
