"""Side observation (train_bandits, outside the C09 buffer statement): the library's own training loop
stores the WHOLE context matrix (arms x context_dim, float64) as "obs" instead of the chosen arm's context
context[action] cast to float32 (which is what demos/demo_bandit.py, the tutorials and the docs do).
With the library's BanditEnv the first learn() call then fails (Double vs Float); with a float32 env the
stored 'transition' is not the (chosen context, reward) pair the agent acted on."""
import sys, warnings
import numpy as np, pandas as pd
from gymnasium import spaces
from agilerl.wrappers.learning import BanditEnv
from agilerl.algorithms.neural_ucb_bandit import NeuralUCB
from agilerl.components.replay_buffer import ReplayBuffer
from agilerl.training.train_bandits import train_bandits

warnings.simplefilter("ignore")
rng = np.random.default_rng(0)
env = BanditEnv(pd.DataFrame(rng.normal(size=(50, 4))), pd.DataFrame(rng.integers(0, 3, size=50)))
agent = NeuralUCB(spaces.Box(-np.inf, np.inf, env.context_dim), spaces.Discrete(env.arms), batch_size=4, learn_step=1)
mem = ReplayBuffer(100)
bad = []
try:
    train_bandits(env, "x", "NeuralUCB", [agent], mem, max_steps=20, episode_steps=10, evo_steps=10,
                  eval_steps=5, eval_loop=1, verbose=False)
except Exception as e:  # noqa
    bad.append(f"train_bandits raised {type(e).__name__}: {str(e)[:120]}")
shape = tuple(mem.storage["obs"].shape[1:])
if shape != tuple(env.context_dim):
    bad.append(f"stored obs per transition has shape {shape}, dtype {mem.storage['obs'].dtype}; "
               f"the chosen arm's context has shape {tuple(env.context_dim)}")
if bad:
    for b in bad:
        print("  -", b)
    sys.exit(1)
print("ok")
