"""Side observation (NOT strictly inside the C09 statement - the rows returned are stored rows; their
layout is wrong): PrioritizedReplayBuffer.sample returns "idxs" with shape (B, 1); train_off_policy feeds
that straight into Sampler(memory=n_step_memory).sample(idxs) -> storage[idxs], which yields an n-step
batch of batch_size (B, 1) whose fields are (B, 1, ...). RainbowDQN._dqn_loss then broadcasts (B,1,..)
against (B,..) and the n-step element-wise loss is B times too large / cross-paired."""
import sys
import numpy as np
import torch
from gymnasium import spaces
from agilerl.algorithms.dqn_rainbow import RainbowDQN
from agilerl.components.replay_buffer import MultiStepReplayBuffer, PrioritizedReplayBuffer
from agilerl.components.sampler import Sampler
from agilerl.components.data import Transition

torch.manual_seed(0); np.random.seed(0)
B = 4


def tr(i):
    t = Transition(obs=np.random.rand(3).astype(np.float32), action=i % 2, reward=float(i),
                   next_obs=np.random.rand(3).astype(np.float32), done=False).unsqueeze(0).to_tensordict()
    t.batch_size = [1]
    return t


memory, n_step_memory = PrioritizedReplayBuffer(16), MultiStepReplayBuffer(16, n_step=3)
for i in range(1, 12):                       # exactly the add sequence of train_off_policy
    one = n_step_memory.add(tr(i))
    if one is not None:
        memory.add(one)
sampler, n_sampler = Sampler(memory=memory), Sampler(memory=n_step_memory)
experiences = sampler.sample(B, 0.4)
n_experiences = n_sampler.sample(experiences["idxs"])          # train_off_policy.py:344-346
good = n_sampler.sample(experiences["idxs"].squeeze(1))

agent = RainbowDQN(spaces.Box(-1, 1, (3,)), spaces.Discrete(2), batch_size=B, n_step=3)


def loss(n):
    torch.manual_seed(1)
    with torch.no_grad():
        return agent._dqn_loss(n["obs"], n["action"], n["reward"], n["next_obs"], n["done"], agent.gamma ** 3)


bad = []
if tuple(n_experiences.batch_size) != (B,):
    bad.append(f"n-step batch_size {tuple(n_experiences.batch_size)}, obs {tuple(n_experiences['obs'].shape)} "
               f"(1-step batch obs {tuple(experiences['obs'].shape)})")
l1, l2 = loss(n_experiences), loss(good)
if not torch.allclose(l1, l2, rtol=1e-3):
    bad.append(f"n-step loss with train-loop indices {l1.tolist()} vs with flat indices {l2.tolist()}")
if bad:
    print("PER + n-step sampling mismatch:")
    for b in bad:
        print("  -", b)
    sys.exit(1)
print("ok")
