"""C10 demo 1: the n-step window of train_off_policy survives env.reset().

train_off_policy resets the environment at the start of every agent's turn
(and the evaluation in between also resets it), but the pending window of the
MultiStepReplayBuffer (the last n-1 raw transitions) is kept.  The first n-1
windows of the next turn therefore fuse an (observation, action) of the
abandoned episode with rewards / next_obs of a brand-new episode, with no done
flag in between.

Environment: observation = [episode id, step], reward = 1 + step/8, the episode
never ends on its own, so the ONLY episode boundaries are the env.reset() calls
of the training loop.  Exit 0 iff every stored n-step row stays inside the
episode it starts in and carries that episode's discounted rewards.
"""
import sys

import gymnasium as gym
import numpy as np
import torch
from gymnasium import spaces

torch.set_num_threads(2)

from agilerl.algorithms.dqn_rainbow import RainbowDQN
from agilerl.components.replay_buffer import MultiStepReplayBuffer, ReplayBuffer
from agilerl.training.train_off_policy import train_off_policy

LOG, COUNTER = {}, [0]
N_STEP, GAMMA, NUM_ENVS = 3, 0.5, 2


class TraceEnv(gym.Env):
    observation_space = spaces.Box(-1e6, 1e6, (2,), np.float32)
    action_space = spaces.Discrete(2)

    def reset(self, seed=None, options=None):
        COUNTER[0] += 1
        self.ep, self.s = COUNTER[0], 0
        LOG[self.ep] = []
        return np.array([self.ep, 0], np.float32), {}

    def step(self, action):
        r = 1.0 + self.s / 8.0
        self.s += 1
        LOG[self.ep].append(r)
        return np.array([self.ep, self.s], np.float32), r, False, False, {}


env = gym.vector.SyncVectorEnv([TraceEnv for _ in range(NUM_ENVS)])
net = {"encoder_config": {"hidden_size": [16]}, "head_config": {"hidden_size": [16]}}
pop = [
    RainbowDQN(TraceEnv.observation_space, TraceEnv.action_space, index=i,
               n_step=N_STEP, gamma=GAMMA, batch_size=4, learn_step=1, net_config=net)
    for i in range(2)
]
memory = ReplayBuffer(1000)
n_step_memory = MultiStepReplayBuffer(1000, n_step=N_STEP, gamma=GAMMA)
train_off_policy(env, "trace", "Rainbow DQN", pop, memory, max_steps=40, evo_steps=20,
                 eval_steps=3, n_step=True, n_step_memory=n_step_memory, verbose=False)

bad = []
for k in range(n_step_memory.size):
    row, one = n_step_memory.storage[k], memory.storage[k]
    ep, st = (int(v) for v in row["obs"])
    nep, nst = (int(v) for v in row["next_obs"])
    assert one["obs"].tolist() == row["obs"].tolist(), "1-step/n-step rows misaligned"
    if nep != ep:
        bad.append(f"row {k}: starts at episode {ep} step {st}, next_obs is episode {nep} "
                   f"step {nst}, reward {row['reward'].item():.4f} "
                   f"(own episode had only {len(LOG[ep])} steps), done={bool(row['done'].item())}")
        continue
    want = sum(GAMMA**i * LOG[ep][st + i] for i in range(nst - st))
    if not (1 <= nst - st <= N_STEP) or abs(want - row["reward"].item()) > 1e-4:
        bad.append(f"row {k}: reward {row['reward'].item()} expected {want}")

print(f"{n_step_memory.size} n-step rows stored, {len(bad)} cross an env.reset() of the training loop")
for line in bad[:8]:
    print("  ", line)
sys.exit(1 if bad else 0)
