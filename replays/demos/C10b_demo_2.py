"""C10 demo 2: n-step returns run straight through a TRUNCATED episode end.

train_off_policy stores only `done` (= terminated) in the transition; the
truncation flag returned by env.step() never reaches MultiStepReplayBuffer, so
_get_n_step_info has nothing to stop at when an episode ends by time limit.
The windows around a truncation fuse the (observation, action) of the old
episode with rewards and next_obs of the NEXT episode (done=False).

Environment: observation = [episode id, step], reward = 1 + step/8 in episode
`ep` scaled by 10**(ep-1) so the foreign rewards are obvious; every episode is
truncated (not terminated) after 4 steps.  One agent, one generation, one
vectorised environment, so the only episode boundaries are the truncations.

Only rows that start from a real (observation, action) pair of an episode are
judged here (the autoreset filler step is the subject of demo_3).  Exit 0 iff
each of them ends inside its own episode with that episode's discounted rewards.
"""
import sys

import gymnasium as gym
import numpy as np
import torch
from gymnasium import spaces

torch.set_num_threads(2)

from agilerl.algorithms.dqn_rainbow import RainbowDQN
from agilerl.components.replay_buffer import MultiStepReplayBuffer, ReplayBuffer
from agilerl.training.train_off_policy import train_off_policy

LOG, COUNTER = {}, [0]
N_STEP, GAMMA, HORIZON = 3, 0.5, 4


class TraceEnv(gym.Env):
    observation_space = spaces.Box(-1e6, 1e6, (2,), np.float32)
    action_space = spaces.Discrete(2)

    def reset(self, seed=None, options=None):
        COUNTER[0] += 1
        self.ep, self.s = COUNTER[0], 0
        LOG[self.ep] = []
        return np.array([self.ep, 0], np.float32), {}

    def step(self, action):
        r = (1.0 + self.s / 8.0) * 10.0 ** (self.ep - 1)
        self.s += 1
        LOG[self.ep].append(r)
        truncated = self.s >= HORIZON
        return np.array([self.ep, self.s], np.float32), r, False, truncated, {}


env = gym.vector.SyncVectorEnv([TraceEnv])
net = {"encoder_config": {"hidden_size": [16]}, "head_config": {"hidden_size": [16]}}
pop = [RainbowDQN(TraceEnv.observation_space, TraceEnv.action_space, index=0,
                  n_step=N_STEP, gamma=GAMMA, batch_size=4, learn_step=1, net_config=net)]
memory = ReplayBuffer(1000)
n_step_memory = MultiStepReplayBuffer(1000, n_step=N_STEP, gamma=GAMMA)
LOG.clear(); COUNTER[0] = 0
train_off_policy(env, "trace", "Rainbow DQN", pop, memory, max_steps=12, evo_steps=12,
                 eval_steps=3, n_step=True, n_step_memory=n_step_memory, verbose=False)

bad, judged = [], 0
for k in range(n_step_memory.size):
    row = n_step_memory.storage[k]
    ep, st = (int(v) for v in row["obs"])
    nep, nst = (int(v) for v in row["next_obs"])
    if st >= len(LOG[ep]):
        continue  # autoreset filler step, see demo_3
    judged += 1
    steps_left = len(LOG[ep]) - st
    want_len = min(N_STEP, steps_left)
    want = sum(GAMMA**i * LOG[ep][st + i] for i in range(want_len))
    got = row["reward"].item()
    if nep != ep or nst != st + want_len or abs(got - want) > 1e-3 * max(1.0, abs(want)):
        bad.append(f"row {k}: starts at (episode {ep}, step {st}); stored reward {got:.4f}, "
                   f"next_obs (episode {nep}, step {nst}), done={bool(row['done'].item())}; "
                   f"the episode was truncated {steps_left} step(s) later, so the row should carry "
                   f"reward {want:.4f} and next_obs (episode {ep}, step {st + want_len})")

print(f"{judged} n-step rows start from a real step; {len(bad)} of them run past a truncation")
for line in bad[:8]:
    print("  ", line)
sys.exit(1 if bad else 0)
