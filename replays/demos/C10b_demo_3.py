"""C10 demo 3: n-step rows that START at a terminal observation.

agilerl pins gymnasium ^1.0, whose vector environments reset a finished
sub-environment on the NEXT call of step() (AutoresetMode.NEXT_STEP, the
default of Sync/AsyncVectorEnv and hence of agilerl.utils.make_vect_envs).  In
that call the action is ignored, the reward is 0 and the returned observation
is the first observation of the new episode.  train_off_policy hands this
filler step to the n-step buffer like any other: obs = TERMINAL observation of
the finished episode, action = an action the environment never executed.
_get_n_step_info then sums the rewards of the next episode on top of it.

So after `done=True` the buffer does stop, but the very next stored row starts
after the terminal step and is made of the following episode's rewards.

Environment: observation = [episode id, step], reward = 1 + step/8, every
episode TERMINATES after 4 steps.  One agent, one generation.  Exit 0 iff no
stored n-step row starts from an observation in which no action was taken.
"""
import sys

import gymnasium as gym
import numpy as np
import torch
from gymnasium import spaces

torch.set_num_threads(2)

from agilerl.algorithms.dqn_rainbow import RainbowDQN
from agilerl.components.replay_buffer import MultiStepReplayBuffer, ReplayBuffer
from agilerl.training.train_off_policy import train_off_policy
from agilerl.utils.utils import make_vect_envs

LOG, COUNTER = {}, [0]
N_STEP, GAMMA, LENGTH = 3, 0.5, 4


class TraceEnv(gym.Env):
    observation_space = spaces.Box(-1e6, 1e6, (2,), np.float32)
    action_space = spaces.Discrete(2)

    def reset(self, seed=None, options=None):
        COUNTER[0] += 1
        self.ep, self.s = COUNTER[0], 0
        LOG[self.ep] = []
        return np.array([self.ep, 0], np.float32), {}

    def step(self, action):
        r = 1.0 + self.s / 8.0
        self.s += 1
        LOG[self.ep].append(r)
        return np.array([self.ep, self.s], np.float32), r, self.s >= LENGTH, False, {}


# the library's own helper builds the vector environment (in-process variant)
env = make_vect_envs(make_env=TraceEnv, num_envs=1, should_async_vector=False)
net = {"encoder_config": {"hidden_size": [16]}, "head_config": {"hidden_size": [16]}}
pop = [RainbowDQN(TraceEnv.observation_space, TraceEnv.action_space, index=0,
                  n_step=N_STEP, gamma=GAMMA, batch_size=4, learn_step=1, net_config=net)]
memory = ReplayBuffer(1000)
n_step_memory = MultiStepReplayBuffer(1000, n_step=N_STEP, gamma=GAMMA)
train_off_policy(env, "trace", "Rainbow DQN", pop, memory, max_steps=12, evo_steps=12,
                 eval_steps=3, n_step=True, n_step_memory=n_step_memory, verbose=False)

bad = []
for k in range(n_step_memory.size):
    row = n_step_memory.storage[k]
    ep, st = (int(v) for v in row["obs"])
    nep, nst = (int(v) for v in row["next_obs"])
    if st >= len(LOG[ep]):
        bad.append(f"row {k}: starts at (episode {ep}, step {st}) = the terminal observation of an "
                   f"episode of {len(LOG[ep])} steps (no action was executed there); stored reward "
                   f"{row['reward'].item():.4f} is made of episode {nep}'s rewards, next_obs "
                   f"(episode {nep}, step {nst}), done={bool(row['done'].item())}")

print(f"{n_step_memory.size} n-step rows stored; {len(bad)} start after a terminal step")
for line in bad[:8]:
    print("  ", line)
sys.exit(1 if bad else 0)
