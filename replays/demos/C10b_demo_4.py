"""C10 demo 4: with a plain (non-vectorised) gymnasium.Env, train_off_policy never
resets the environment after `done`, so the n-step buffer (and the 1-step buffer
next to it) keeps receiving steps taken AFTER the terminal step of the episode.

train_off_policy has explicit `if not is_vectorised:` branches (single action,
wrapped flags, unsqueezed transition), but nothing calls env.reset() when the
episode ends; a vector environment resets itself, a plain one does not.

Environment: observation = [episode id, step], reward = 1 + step/8, the episode
TERMINATES at step 4 (and keeps reporting terminated=True if stepped further,
as gymnasium environments do).  Exit 0 iff no stored n-step row starts at or
after the terminal observation of its episode.
"""
import sys

import gymnasium as gym
import numpy as np
import torch
from gymnasium import spaces

torch.set_num_threads(2)

from agilerl.algorithms.dqn_rainbow import RainbowDQN
from agilerl.components.replay_buffer import MultiStepReplayBuffer, ReplayBuffer
from agilerl.training.train_off_policy import train_off_policy

COUNTER = [0]
STEPS_AFTER_END = []
N_STEP, GAMMA, LENGTH = 3, 0.5, 4


class TraceEnv(gym.Env):
    observation_space = spaces.Box(-1e6, 1e6, (2,), np.float32)
    action_space = spaces.Discrete(2)

    def reset(self, seed=None, options=None):
        COUNTER[0] += 1
        self.ep, self.s = COUNTER[0], 0
        return np.array([self.ep, 0], np.float32), {}

    def step(self, action):
        if self.s >= LENGTH:
            STEPS_AFTER_END.append((self.ep, self.s))
        r = 1.0 + self.s / 8.0
        self.s += 1
        return np.array([self.ep, self.s], np.float32), r, self.s >= LENGTH, False, {}


env = TraceEnv()  # plain environment: no num_envs attribute
net = {"encoder_config": {"hidden_size": [16]}, "head_config": {"hidden_size": [16]}}
pop = [RainbowDQN(TraceEnv.observation_space, TraceEnv.action_space, index=0,
                  n_step=N_STEP, gamma=GAMMA, batch_size=4, learn_step=1, net_config=net)]
memory = ReplayBuffer(1000)
n_step_memory = MultiStepReplayBuffer(1000, n_step=N_STEP, gamma=GAMMA)
train_off_policy(env, "trace", "Rainbow DQN", pop, memory, max_steps=12, evo_steps=12,
                 eval_steps=3, n_step=True, n_step_memory=n_step_memory, verbose=False)

bad = []
for k in range(n_step_memory.size):
    row = n_step_memory.storage[k]
    ep, st = (int(v) for v in row["obs"])
    if st >= LENGTH:
        bad.append(f"row {k}: starts at (episode {ep}, step {st}), i.e. {st - LENGTH + 1} step(s) after "
                   f"the terminal step of a {LENGTH}-step episode; reward {row['reward'].item():.4f}, "
                   f"next_obs {row['next_obs'].tolist()}, done={bool(row['done'].item())}")

print(f"env.step() was called {len(STEPS_AFTER_END)} time(s) on an already terminated episode; "
      f"{n_step_memory.size} n-step rows stored, {len(bad)} start after the terminal step")
for line in bad[:6]:
    print("  ", line)
sys.exit(1 if bad else 0)
