"""C11 demo 1: the prefix-sum descent can return an EMPTY leaf for a query mass strictly below the
total, so the buffer can return an index that is not a stored transition (or crash) for a draw at
the top end of the last stratum.

Part A (segment tree, no randomness): six priorities in an 8-leaf tree; query mass = the largest
double strictly below sum(): retrieve() answers leaf 7, which was never written.
Part B (buffer): same six priorities (buffer of max_size 8 holding 6 items, and a FULL buffer of
max_size 6); torch default dtype float64, the stratified variate of the last stratum is the largest
value torch.rand can return (1 - 2**-53).  sample() must return stored indices only.
Exit 1 on violation, 0 otherwise.
"""
import math, sys
import torch
from tensordict import TensorDict

torch.set_num_threads(2)
from agilerl.components.segment_tree import SumSegmentTree
from agilerl.components.replay_buffer import PrioritizedReplayBuffer

ALPHA = 0.6
PRIOS = [0.5, 0.1, 0.1, 0.1, 1.0, 2.0]
bad = []

# ---- Part A -------------------------------------------------------------------------------
t = SumSegmentTree(8)
for i, p in enumerate(PRIOS):
    t[i] = p**ALPHA
total = t.sum()
u = math.nextafter(total, 0.0)  # strictly inside [0, total)
leaf = t.retrieve(u)
print(f"A: total={total!r} query={u!r} (< total: {u < total}) -> leaf {leaf}, value {t[leaf]}")
if not (0 <= leaf < len(PRIOS)) or t[leaf] <= 0:
    bad.append(f"A: retrieve({u!r}) returned empty leaf {leaf} (only leaves 0..5 carry mass)")

# ---- Part B -------------------------------------------------------------------------------
torch.set_default_dtype(torch.float64)
U_TOP = 1.0 - 2.0**-53  # largest value torch.rand can produce in float64
assert U_TOP < 1.0


def run(max_size, batch, beta):
    buf = PrioritizedReplayBuffer(max_size=max_size, alpha=ALPHA)
    n = len(PRIOS)
    buf.add(TensorDict({"obs": torch.arange(1, n + 1).reshape(n, 1).double()}, batch_size=[n]))
    buf.update_priorities(torch.arange(n).unsqueeze(1), torch.tensor(PRIOS))
    draws = iter([0.5] * (batch - 1) + [U_TOP])
    orig = torch.rand
    torch.rand = lambda *a, **k: torch.tensor([next(draws)])
    tag = f"B: max_size={max_size} size={buf.size} batch={batch} beta={beta}"
    try:
        out = buf.sample(batch, beta)
    except Exception as e:  # noqa
        bad.append(f"{tag}: sample raised {type(e).__name__}: {e}")
        print(bad[-1])
        return
    finally:
        torch.rand = orig
    idxs = out["idxs"].reshape(-1).tolist()
    print(f"{tag}: idxs={idxs} obs={out['obs'].reshape(-1).tolist()}")
    for i in idxs:
        if not (0 <= i < buf.size):
            bad.append(f"{tag}: sampled index {i} is not a stored transition (size {buf.size})")


run(8, 2, 0.0)   # returns the never-written row 7 with weight 1
run(8, 2, 0.4)   # 0.0 ** -0.4 -> ZeroDivisionError
run(6, 2, 0.4)   # full buffer, capacity not a power of two -> leaf 7 >= max_size -> IndexError

if bad:
    print("VIOLATION:")
    for b in bad:
        print("  " + b)
    sys.exit(1)
print("ok")
