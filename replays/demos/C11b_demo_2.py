"""C11 demo 2: Sampler in dataset/dataloader mode drops the caller's beta for a prioritised buffer.

train_off_policy(..., per=True, accelerator=...) calls sampler.sample(batch_size, agent.beta);
Sampler.sample_distributed(batch_size, return_idx) swallows beta as `return_idx` and
ReplayDataset.__iter__ calls buffer.sample(batch_size) -> beta silently 0.4.
The importance weights returned are therefore NOT (N*P(i))^-beta / max_j(...) for the requested beta.
Exit 1 on violation, 0 if weights follow the requested beta.
"""
import math, sys
import torch
from tensordict import TensorDict
from torch.utils.data import DataLoader

torch.set_num_threads(2)
from agilerl.components.replay_buffer import PrioritizedReplayBuffer
from agilerl.components.data import ReplayDataset
from agilerl.components.sampler import Sampler

ALPHA, N, B = 0.6, 6, 4
buf = PrioritizedReplayBuffer(max_size=10, alpha=ALPHA)
buf.add(TensorDict({"obs": torch.arange(N).reshape(N, 1).float()}, batch_size=[N]))
prios = torch.tensor([0.1, 0.5, 1.0, 2.0, 4.0, 8.0])
buf.update_priorities(torch.arange(N).unsqueeze(1), prios)

dataset = ReplayDataset(buf, batch_size=B)
loader = DataLoader(dataset, batch_size=None)
sampler = Sampler(dataset=dataset, dataloader=loader)  # what train_off_policy builds under an accelerator

p = [float(x) ** ALPHA for x in prios]
tot = math.fsum(p)


def expected(i, beta):
    return ((N * p[i] / tot) ** -beta) / max((N * q / tot) ** -beta for q in p)


bad = 0
for beta in (0.0, 0.4, 0.7, 1.0):
    out = sampler.sample(B, beta)  # exact call shape used by train_off_policy for per=True
    idxs = out["idxs"].reshape(-1).tolist()
    w = out["weights"].reshape(-1).tolist()
    for i, wi in zip(idxs, w):
        e = expected(i, beta)
        if not math.isclose(wi, e, rel_tol=1e-4):
            bad += 1
            print(f"beta={beta}: idx {i} weight {wi:.6f}, expected {e:.6f} "
                  f"(value for beta=0.4 is {expected(i, 0.4):.6f})")
if bad:
    print(f"VIOLATION: {bad} weights do not correspond to the beta passed to Sampler.sample")
    sys.exit(1)
print("ok")
