"""C11 adjacent demo 3 (consumer side, outside the literal statement): the (B,1) importance weights
returned by PrioritizedReplayBuffer.sample are multiplied with RainbowDQN's (B,) element-wise loss,
which broadcasts to (B,B); the loss is mean(loss_i)*mean(w_j), i.e. the per-sample importance
correction is lost.  Exit 1 if learn()'s loss is not the per-sample weighted mean.
"""
import sys, math
import torch, gymnasium as gym
from tensordict import TensorDict

torch.set_num_threads(2)
torch.manual_seed(0)
from agilerl.algorithms.dqn_rainbow import RainbowDQN
from agilerl.components.replay_buffer import PrioritizedReplayBuffer

B, N = 8, 20
obs_space = gym.spaces.Box(-1, 1, (4,))
act_space = gym.spaces.Discrete(2)
agent = RainbowDQN(obs_space, act_space, batch_size=B, lr=1e-2,
                   net_config={"encoder_config": {"hidden_size": [16]}, "head_config": {"hidden_size": [16]}})
buf = PrioritizedReplayBuffer(32, alpha=0.6)
buf.add(TensorDict({"obs": torch.randn(N, 4), "action": torch.randint(0, 2, (N, 1)),
                    "reward": torch.randn(N, 1) * 5, "next_obs": torch.randn(N, 4),
                    "done": torch.zeros(N, 1)}, batch_size=[N]))
buf.update_priorities(torch.arange(N).unsqueeze(1), torch.linspace(0.01, 10.0, N))
for _ in range(30):  # move the network away from its near-uniform initial prediction (losses then differ per sample)
    agent.learn(buf.storage[:B].clone(), per=False)
exp = buf.sample(B, beta=1.0)
w = exp["weights"]
e = agent._dqn_loss(exp["obs"], exp["action"], exp["reward"], exp["next_obs"], exp["done"], agent.gamma).detach()
loss, idxs, prios = agent.learn(exp, per=True)
weighted = (e * w.squeeze(1)).mean().item()
product_of_means = (e.mean() * w.mean()).item()
print(f"weights shape {tuple(w.shape)}, element-wise loss shape {tuple(e.shape)}")
print(f"learn() loss = {loss:.6f}; mean_i(w_i*loss_i) = {weighted:.6f}; mean(w)*mean(loss) = {product_of_means:.6f}")
if not math.isclose(loss, weighted, rel_tol=1e-4):
    print("VIOLATION: importance weights are not applied per sample")
    sys.exit(1)
print("ok")
