"""C12 demo 1: a continuous action of shape (1,) is squeezed to a 0-d array before it reaches the
sub-environment (agilerl/vector/pz_async_vec_env.py, _async_worker, `np.array(data[idx]).squeeze()`).

Environment i stepped alone with its own action np.array([x]) works; the same environment inside
AsyncPettingZooVecEnv receives np.array(x) (shape ()), so `action[0]` raises IndexError and any
`action_space.contains(action)` / shape assertion fails (this is exactly what PettingZoo's own
pistonball_v6(continuous=True) does: "action should have shape (1,), has shape ()").

Exit 1 on the defect, 0 if the vectorised env behaves like the env stepped alone.
"""
import sys

import numpy as np
from gymnasium import spaces
from pettingzoo import ParallelEnv

from agilerl.vector.pz_async_vec_env import AsyncPettingZooVecEnv


class OneDimContinuousEnv(ParallelEnv):
    metadata = {"name": "one_dim_cont_v0", "render_modes": []}
    render_mode = None

    def __init__(self):
        self.possible_agents = ["a0", "a1"]
        self.agents = self.possible_agents[:]
        self.t = 0

    def observation_space(self, agent):
        return spaces.Box(-10, 10, (2,), np.float32)

    def action_space(self, agent):
        # a0: one continuous dimension; a1: a 1x2 matrix action (leading singleton dim)
        return spaces.Box(-1, 1, (1,), np.float32) if agent == "a0" else spaces.Box(-1, 1, (1, 2), np.float32)

    def reset(self, seed=None, options=None):
        self.agents = self.possible_agents[:]
        self.t = 0
        return ({a: np.zeros(2, np.float32) for a in self.agents}, {a: {} for a in self.agents})

    def step(self, actions):
        self.t += 1
        obs, info = {}, {}
        for a in self.agents:
            act = actions[a]
            info[a] = {"shape_seen": str(np.shape(act))}
            # the usual way a 1-d continuous action is consumed
            first = act[0] if a == "a0" else act[0][0]
            obs[a] = np.array([first, self.t], np.float32)
        rew = {a: 0.0 for a in self.agents}
        term = {a: False for a in self.agents}
        trunc = {a: False for a in self.agents}
        return obs, rew, term, trunc, info

    def close(self):
        pass


def main():
    n = 2
    a0 = np.array([[0.25], [-0.5]], np.float32)  # (num_envs, 1)
    a1 = np.array([[[0.1, 0.2]], [[0.3, 0.4]]], np.float32)  # (num_envs, 1, 2)

    # reference: every environment stepped alone with its own action
    ref = []
    for i in range(n):
        e = OneDimContinuousEnv()
        e.reset()
        ref.append(e.step({"a0": a0[i], "a1": a1[i]}))

    vec = AsyncPettingZooVecEnv([OneDimContinuousEnv for _ in range(n)])
    problems = []
    try:
        vec.reset()
        try:
            obs, rew, term, trunc, info = vec.step({"a0": a0, "a1": a1})
        except Exception as exc:  # worker error is re-raised in the parent
            problems.append(f"vec.step raised {type(exc).__name__}: {exc}")
        else:
            for i in range(n):
                for a in ("a0", "a1"):
                    if not np.array_equal(obs[a][i], ref[i][0][a]):
                        problems.append(f"env{i} {a}: obs {obs[a][i]} != alone {ref[i][0][a]}")
                    seen, alone = info[a]["shape_seen"][i], ref[i][4][a]["shape_seen"]
                    if seen != alone:
                        problems.append(f"env{i} {a}: env received action of shape {seen}, alone it receives {alone}")
    finally:
        vec.close(terminate=True)

    if problems:
        print("DEFECT: vectorised env does not pass each sub-env its own action:")
        for p in problems:
            print("  ", p)
        sys.exit(1)
    print("ok")
    sys.exit(0)


if __name__ == "__main__":
    main()
