"""C12 demo 2: PettingZooVecEnv.step truncates scalar continuous actions to int.

agilerl/vector/pz_vec_env.py:102-106
    action = int(actions[agent][env_idx]) if np.isscalar(actions[agent][env_idx]) else ...
np.isscalar(np.float32(0.7)) is True, so any per-env action that is a float scalar (a Box(shape=())
action space, or a 1-d continuous action handed over as an array of shape (num_envs,)) reaches the
sub-environment as int(0.7) == 0 instead of 0.7.

Exit 1 on the defect, 0 if env i receives its own action.
"""
import sys

import numpy as np
from gymnasium import spaces
from pettingzoo import ParallelEnv

from agilerl.vector.pz_async_vec_env import AsyncPettingZooVecEnv


class ScalarContinuousEnv(ParallelEnv):
    metadata = {"name": "scalar_cont_v0", "render_modes": []}
    render_mode = None

    def __init__(self):
        self.possible_agents = ["a0", "a1"]
        self.agents = self.possible_agents[:]

    def observation_space(self, agent):
        return spaces.Box(-10, 10, (1,), np.float64)

    def action_space(self, agent):
        return spaces.Box(-1.0, 1.0, (), np.float32) if agent == "a0" else spaces.Discrete(3)

    def reset(self, seed=None, options=None):
        self.agents = self.possible_agents[:]
        return ({a: np.zeros(1) for a in self.agents}, {a: {} for a in self.agents})

    def step(self, actions):
        # observation and reward echo the action that was received
        obs = {a: np.array([float(actions[a])]) for a in self.agents}
        rew = {a: float(actions[a]) for a in self.agents}
        f = {a: False for a in self.agents}
        return obs, rew, dict(f), dict(f), {a: {} for a in self.agents}

    def close(self):
        pass


def main():
    n = 3
    rng = np.random.default_rng(0)
    dummy = ScalarContinuousEnv()
    a0 = np.array([0.75, -0.5, 0.25], np.float32)  # shape (num_envs,) == batch of Box(shape=()) actions
    assert all(dummy.action_space("a0").contains(x) for x in a0)
    a1 = np.array([0, 1, 2])

    ref = []
    for i in range(n):
        e = ScalarContinuousEnv()
        e.reset()
        ref.append(e.step({"a0": a0[i], "a1": a1[i]}))

    vec = AsyncPettingZooVecEnv([ScalarContinuousEnv for _ in range(n)])
    problems = []
    try:
        vec.reset()
        obs, rew, term, trunc, info = vec.step({"a0": a0, "a1": a1})
        for i in range(n):
            for a in ("a0", "a1"):
                if not np.array_equal(obs[a][i], ref[i][0][a]):
                    problems.append(f"env{i} {a}: obs {obs[a][i]} != alone {ref[i][0][a]} (action sent {dict(a0=a0, a1=a1)[a][i]})")
                if rew[a][i] != ref[i][1][a]:
                    problems.append(f"env{i} {a}: reward {rew[a][i]} != alone {ref[i][1][a]}")
    finally:
        vec.close(terminate=True)

    if problems:
        print("DEFECT: continuous scalar actions are truncated to int before reaching the sub-environment:")
        for p in problems:
            print("  ", p)
        sys.exit(1)
    print("ok")
    sys.exit(0)


if __name__ == "__main__":
    main()
