"""C12 demo 3: the worker decides "every agent of this sub-environment is done" by zipping
terminated.values() with truncated.values() POSITIONALLY (agilerl/vector/pz_async_vec_env.py:908-913)
instead of pairing the two flags of the same agent by key.

If the two dicts returned by the sub-environment are not keyed identically and in the same order, the
flags of different agents are OR-ed together and the episode end is missed:
  * LiveTermAllTrunc: terminations has one entry per live agent, truncations one entry per possible agent
    (False for agents that already left).  a0 leaves at t=1; at the time limit (t=3)
    terminated={a1: False}, truncated={a0: False, a1: True}; zip yields (False | False) -> no reset,
    although the only live agent was truncated.
  * OrderSwap: both dicts have the same keys but a different insertion order; a0 terminates and a1 is
    truncated on the same step; zip yields (True|True, False|False) -> no reset.

The reference is AgileRL's own PettingZooAutoResetParallelWrapper (which pairs by key) around the same
environment stepped alone.  Exit 1 if the vectorised env disagrees with it, 0 otherwise.
"""
import sys

import numpy as np
from gymnasium import spaces
from pettingzoo import ParallelEnv

from agilerl.vector.pz_async_vec_env import AsyncPettingZooVecEnv
from agilerl.wrappers.pettingzoo_wrappers import PettingZooAutoResetParallelWrapper


class Base(ParallelEnv):
    metadata = {"name": "keyed_done_v0", "render_modes": []}
    render_mode = None
    max_cycles = 3

    def __init__(self):
        self.possible_agents = ["a0", "a1"]
        self.agents = self.possible_agents[:]
        self.t = 0
        self.episode = -1

    def observation_space(self, agent):
        return spaces.Box(0, 100, (2,), np.float32)

    def action_space(self, agent):
        return spaces.Discrete(2)

    def _obs(self, agents):
        return {a: np.array([self.episode, self.t], np.float32) for a in agents}

    def reset(self, seed=None, options=None):
        self.episode += 1
        self.t = 0
        self.agents = self.possible_agents[:]
        return self._obs(self.agents), {a: {} for a in self.agents}

    def close(self):
        pass


class LiveTermAllTrunc(Base):
    """a0 terminates at t=1. Time limit at t=3 truncates whoever is still alive.
    terminations: live agents only. truncations: one entry per possible agent (False for agents already gone)."""

    def step(self, actions):
        self.t += 1
        live = self.agents[:]
        term = {a: (a == "a0" and self.t == 1) for a in live}
        trunc = {a: (a in live and self.t >= self.max_cycles) for a in self.possible_agents}
        obs = self._obs(live)
        rew = {a: 1.0 for a in live}
        self.agents = [a for a in live if not (term[a] or trunc[a])]
        return obs, rew, term, trunc, {a: {} for a in live}


class OrderSwap(Base):
    """At t=2 a0 terminates (reached its goal) and a1 is truncated; the two dicts are built by loops that
    run over the agents in a different order."""

    def step(self, actions):
        self.t += 1
        live = self.agents[:]
        term = {a: (a == "a0" and self.t == 2) for a in live}
        trunc = {a: (a == "a1" and self.t == 2) for a in reversed(live)}
        obs = self._obs(live)
        rew = {a: 1.0 for a in live}
        self.agents = [a for a in live if not (term[a] or trunc[a])]
        return obs, rew, term, trunc, {a: {} for a in live}


def check(env_cls, steps=4):
    problems = []
    ref = PettingZooAutoResetParallelWrapper(env_cls())
    ref.reset()
    vec = AsyncPettingZooVecEnv([env_cls, env_cls])
    try:
        vec.reset()
        for s in range(steps):
            acts = {"a0": np.array([0, 1]), "a1": np.array([1, 0])}
            try:
                obs, rew, term, trunc, info = vec.step(acts)
            except Exception as exc:
                problems.append(f"{env_cls.__name__} step {s}: vec.step raised {type(exc).__name__}: {exc}")
                break
            r_obs, r_rew, r_term, r_trunc, _ = ref.step({"a0": 0, "a1": 1})
            for i in range(2):
                for a in r_obs:  # agents for which the env stepped alone returned an observation
                    if not np.array_equal(obs[a][i], r_obs[a]):
                        problems.append(
                            f"{env_cls.__name__} step {s} env{i} {a}: obs(episode,t)={obs[a][i]} "
                            f"but the auto-reset wrapper around the env alone gives {r_obs[a]}"
                        )
    finally:
        vec.close(terminate=True)
    return problems


def main():
    problems = check(LiveTermAllTrunc) + check(OrderSwap)
    if problems:
        print("DEFECT: sub-environment is not reset when all of its agents have finished "
              "(positional zip of terminated/truncated values):")
        for p in problems:
            print("  ", p)
        sys.exit(1)
    print("ok")
    sys.exit(0)


if __name__ == "__main__":
    main()
