"""C12 demo 5 (minor): an observation space with dtype bool cannot be vectorised at all.

_create_memory_array (agilerl/vector/pz_async_vec_env.py:682-694) passes obs_space.dtype.char straight to
multiprocessing.Array; numpy's char for bool is '?', which is not a ctypes typecode, so the constructor
raises "TypeError: this type has no size" (gymnasium's own create_shared_memory maps '?' to c_bool).
The same env works when it is stepped alone. Exit 1 on the defect.
"""
import sys

import numpy as np
from gymnasium import spaces
from pettingzoo import ParallelEnv

from agilerl.vector.pz_async_vec_env import AsyncPettingZooVecEnv


class Env(ParallelEnv):
    metadata = {"name": "bool_obs_v0", "render_modes": []}
    render_mode = None

    def __init__(self):
        self.possible_agents = ["a0", "a1"]
        self.agents = self.possible_agents[:]
        self.t = 0

    def observation_space(self, agent):
        return spaces.Dict({"mask": spaces.Box(0, 1, (4,), np.bool_), "v": spaces.Box(-1, 1, (2,), np.float32)})

    def action_space(self, agent):
        return spaces.Discrete(4)

    def _obs(self):
        return {a: {"mask": np.arange(4) % 2 == self.t % 2, "v": np.zeros(2, np.float32)} for a in self.agents}

    def reset(self, seed=None, options=None):
        self.agents = self.possible_agents[:]
        self.t = 0
        return self._obs(), {a: {} for a in self.agents}

    def step(self, actions):
        self.t += 1
        f = {a: False for a in self.agents}
        return self._obs(), {a: 0.0 for a in self.agents}, dict(f), dict(f), {a: {} for a in self.agents}

    def close(self):
        pass


def main():
    e = Env()
    o0, _ = e.reset()
    o1 = e.step({"a0": 0, "a1": 0})[0]
    try:
        vec = AsyncPettingZooVecEnv([Env, Env])
    except Exception as exc:
        print(f"DEFECT: AsyncPettingZooVecEnv cannot be built for a bool observation: {type(exc).__name__}: {exc}")
        sys.exit(1)
    try:
        obs, _ = vec.reset()
        ok = obs["a0"]["mask"].dtype == np.bool_ and all(np.array_equal(obs["a0"]["mask"][i], o0["a0"]["mask"]) for i in range(2))
        obs = vec.step({"a0": np.array([0, 0]), "a1": np.array([0, 0])})[0]
        ok = ok and all(np.array_equal(obs["a0"]["mask"][i], o1["a0"]["mask"]) for i in range(2))
    finally:
        vec.close(terminate=True)
    if not ok:
        print("DEFECT: bool observation differs from the env stepped alone")
        sys.exit(1)
    print("ok")


if __name__ == "__main__":
    main()
