"""C13 demo 1: close() does not survive worker faults.

Property: "... in every case close() returns promptly and leaves no worker process alive."

Three fault histories, each followed by close():
  A. worker 1 raises inside step(); the caller closes while the step is still pending
     (step_async issued, step_wait not yet called)     -> close() re-raises the worker's
     ValueError, `closed` stays False, workers 0 and 2 stay alive. Same with terminate=True
     (which is what __del__ uses).
  B. worker 1 is SIGKILLed inside step(); step_wait() raises EOFError and leaves
     _state == WAITING_STEP                              -> close() blocks forever.
     (with worker 0 killed instead: close() and close(terminate=True) raise EOFError forever)
  C. a worker is killed while the vector env is idle      -> close() raises BrokenPipeError,
     the remaining workers are never told to stop and are never terminated.

Exit 1 on any violation, 0 otherwise.
"""
import os
import signal
import sys
import threading
import time
import warnings

import gymnasium
import numpy as np
from gymnasium import spaces
from pettingzoo import ParallelEnv

from agilerl.vector.pz_async_vec_env import AsyncPettingZooVecEnv

gymnasium.logger.min_level = 50
warnings.filterwarnings("ignore")
PROMPT = 3.0  # seconds allowed for close()


class FaultEnv(ParallelEnv):
    metadata = {"name": "fault_env"}
    render_mode = None

    def __init__(self, fault=None):
        self.possible_agents = ["a0", "a1"]
        self.agents = self.possible_agents[:]
        self.fault = fault

    def observation_space(self, agent):
        return spaces.Box(-1.0, 1.0, (2,), np.float32)

    def action_space(self, agent):
        return spaces.Discrete(2)

    def reset(self, seed=None, options=None):
        self.agents = self.possible_agents[:]
        return ({a: np.zeros(2, np.float32) for a in self.agents}, {a: {} for a in self.agents})

    def step(self, actions):
        if self.fault == "raise":
            raise ValueError("boom in step")
        if self.fault == "kill":
            os.kill(os.getpid(), signal.SIGKILL)
        z = {a: np.zeros(2, np.float32) for a in self.agents}
        f = {a: False for a in self.agents}
        return z, {a: 0.0 for a in self.agents}, f, dict(f), {a: {} for a in self.agents}

    def close(self):
        pass


def make(fault=None):
    return lambda: FaultEnv(fault)


class Bounded:
    def __init__(self, fn, limit):
        self.exc, self.done = None, False

        def run():
            try:
                fn()
            except BaseException as e:  # noqa: BLE001
                self.exc = e
            self.done = True

        th = threading.Thread(target=run, daemon=True)
        t0 = time.perf_counter()
        th.start()
        th.join(limit)
        self.elapsed = time.perf_counter() - t0
        self.hung = not self.done


ACTIONS = [[0, 0], [0, 0], [0, 0]]
failures = []
all_vecs = []


def check_close(label, vec, **kw):
    w = Bounded(lambda: vec.close(**kw), PROMPT)
    alive = [p.is_alive() for p in vec.processes]
    ok = (not w.hung) and w.exc is None and not any(alive) and vec.closed
    print(
        f"  {label}: close({kw}) hung={w.hung} raised={type(w.exc).__name__ if w.exc else None} "
        f"closed={vec.closed} workers_alive={alive} -> {'ok' if ok else 'VIOLATION'}"
    )
    if not ok:
        failures.append(label)
    return w


def new_vec(faults):
    v = AsyncPettingZooVecEnv([make(f) for f in faults])
    all_vecs.append(v)
    v.reset()
    return v


print("A. worker 1 raises in step(); close() while the step is pending")
v = new_vec([None, "raise", None])
v.step_async(ACTIONS)
time.sleep(0.3)
check_close("A1 pending-error close()", v)

v = new_vec([None, "raise", None])
v.step_async(ACTIONS)
time.sleep(0.3)
check_close("A2 pending-error close(terminate=True)", v, terminate=True)

print("B. worker killed inside step(); step_wait() then close()")
for idx in (1, 0):
    faults = [None, None, None]
    faults[idx] = "kill"
    v = new_vec(faults)
    v.step_async(ACTIONS)
    w = Bounded(lambda: v.step_wait(), PROMPT)
    print(f"  step_wait with worker {idx} killed: hung={w.hung} raised={type(w.exc).__name__ if w.exc else None} state={v._state}")
    if w.hung or w.exc is None:
        failures.append(f"B{idx} step_wait did not report the dead worker")
    w = check_close(f"B{idx} killed-in-step close()", v)
    if not w.hung and not v.closed:
        check_close(f"B{idx} killed-in-step close(terminate=True)", v, terminate=True)

print("C. worker killed while idle; close()")
v = new_vec([None, None, None])
v.processes[1].kill()
v.processes[1].join()
check_close("C idle-kill close()", v)

# cleanup: never leave a worker behind
for v in all_vecs:
    for p in v.processes:
        if p.is_alive():
            p.kill()
print("FAILURES:" if failures else "all good", failures)
sys.stdout.flush()
os._exit(1 if failures else 0)
