"""C13 demo 2: a timeout resets _state to DEFAULT although the workers' replies are still in flight.

Property: "a timeout is reported as a timeout, and in every case close() returns promptly and
leaves no worker process alive" + the pending-state guard ("issuing a second call while one is
pending ... raises the documented error").

step_wait/reset_wait/call_wait do `self._state = AsyncState.DEFAULT` before raising
mp.TimeoutError (pz_async_vec_env.py lines 207-211, 272-276, 368-372). The step is in fact still
pending in the workers, so:

  A. close(timeout=0.5) right after the TimeoutError sees _state == DEFAULT, skips the
     timeout/terminate branch, sends "close" and does a blocking pipe.recv(): it blocks until the
     slow worker finishes (8 s here; forever for a wedged worker) - its timeout argument is ignored.
  B. the next valid operation is accepted (no AlreadyPendingCallError) and reads the STALE reply of
     the timed-out step: call("ping") returns the step tuples instead of ("pong", "pong", "pong").
  C. if, in the timed-out step, another worker had raised, that worker has exited; the following
     close() raises BrokenPipeError on pipe.send and leaves the healthy workers alive.

Exit 1 on any violation, 0 otherwise.
"""
import multiprocessing as mp
import os
import sys
import threading
import time
import warnings

import gymnasium
import numpy as np
from gymnasium import spaces
from gymnasium.error import AlreadyPendingCallError
from pettingzoo import ParallelEnv

from agilerl.vector.pz_async_vec_env import AsyncPettingZooVecEnv

gymnasium.logger.min_level = 50
warnings.filterwarnings("ignore")
PROMPT = 3.0


class FaultEnv(ParallelEnv):
    metadata = {"name": "fault_env"}
    render_mode = None

    def __init__(self, fault=None, secs=0.0):
        self.possible_agents = ["a0", "a1"]
        self.agents = self.possible_agents[:]
        self.fault, self.secs, self.nstep = fault, secs, 0

    def observation_space(self, agent):
        return spaces.Box(-1.0, 1.0, (2,), np.float32)

    def action_space(self, agent):
        return spaces.Discrete(2)

    def reset(self, seed=None, options=None):
        self.agents = self.possible_agents[:]
        return ({a: np.zeros(2, np.float32) for a in self.agents}, {a: {} for a in self.agents})

    def step(self, actions):
        self.nstep += 1
        if self.nstep == 1:
            if self.fault == "sleep":
                time.sleep(self.secs)
            if self.fault == "raise":
                raise ValueError("boom in step")
        z = {a: np.zeros(2, np.float32) for a in self.agents}
        f = {a: False for a in self.agents}
        return z, {a: 0.0 for a in self.agents}, f, dict(f), {a: {} for a in self.agents}

    def ping(self):
        return "pong"

    def close(self):
        pass


def make(fault=None, secs=0.0):
    return lambda: FaultEnv(fault, secs)


class Bounded:
    def __init__(self, fn, limit):
        self.exc, self.done, self.result = None, False, None

        def run():
            try:
                self.result = fn()
            except BaseException as e:  # noqa: BLE001
                self.exc = e
            self.done = True

        th = threading.Thread(target=run, daemon=True)
        t0 = time.perf_counter()
        th.start()
        th.join(limit)
        self.elapsed = time.perf_counter() - t0
        self.hung = not self.done


ACTIONS = [[0, 0], [0, 0], [0, 0]]
failures, all_vecs = [], []


def new_vec(fns):
    v = AsyncPettingZooVecEnv(fns)
    all_vecs.append(v)
    v.reset()
    return v


def timed_out_step(v):
    v.step_async(ACTIONS)
    w = Bounded(lambda: v.step_wait(timeout=0.2), PROMPT)
    ok = isinstance(w.exc, mp.TimeoutError)
    print(f"  step_wait(timeout=0.2): raised={type(w.exc).__name__ if w.exc else None} state_after={v._state}")
    if not ok:
        failures.append("timeout not reported as mp.TimeoutError")


def check_close(label, v, **kw):
    w = Bounded(lambda: v.close(**kw), PROMPT)
    alive = [p.is_alive() for p in v.processes]
    ok = (not w.hung) and w.exc is None and not any(alive) and v.closed
    print(
        f"  {label}: close({kw}) hung(>{PROMPT}s)={w.hung} raised={type(w.exc).__name__ if w.exc else None} "
        f"closed={v.closed} workers_alive={alive} -> {'ok' if ok else 'VIOLATION'}"
    )
    if not ok:
        failures.append(label)


print("A. worker 1 sleeps 8 s in step; TimeoutError; then close(timeout=0.5)")
v = new_vec([make(), make("sleep", 8.0), make()])
timed_out_step(v)
check_close("A close(timeout=0.5) after timeout", v, timeout=0.5)

print("B. worker 1 sleeps 1 s in step; TimeoutError; later call('ping')")
v = new_vec([make(), make("sleep", 1.0), make()])
timed_out_step(v)
time.sleep(1.3)
w = Bounded(lambda: v.call("ping"), PROMPT)
if w.hung:
    print("  call('ping') hung -> VIOLATION")
    failures.append("B call hung")
elif w.exc is not None:
    ok = isinstance(w.exc, AlreadyPendingCallError)
    print(f"  call('ping') raised {type(w.exc).__name__} -> {'ok (documented error)' if ok else 'VIOLATION'}")
    if not ok:
        failures.append("B call raised undocumented error")
else:
    ok = tuple(w.result) == ("pong", "pong", "pong")
    print(f"  call('ping') returned {str(w.result)[:110]}... -> {'ok' if ok else 'VIOLATION (stale step reply)'}")
    if not ok:
        failures.append("B stale reply returned by call()")
for p in v.processes:
    p.kill()

print("C. worker 0 sleeps 1 s and worker 1 raises in the same step; TimeoutError; then close()")
v = new_vec([make("sleep", 1.0), make("raise"), make()])
timed_out_step(v)
time.sleep(1.3)
check_close("C close() after timeout + error in another worker", v)

for v in all_vecs:
    for p in v.processes:
        if p.is_alive():
            p.kill()
print("FAILURES:" if failures else "all good", failures)
sys.stdout.flush()
os._exit(1 if failures else 0)
